#!/bin/sh
# usage: try_seed.sh <patch.diff> <Cxx> : applies the patch to /repo, runs the property's check, undoes it. /repo must be clean.
[ -n "$(git -C /repo status --porcelain)" ] && { echo "/repo not clean"; exit 2; }
git -C /repo apply "$1" || { echo "patch does not apply"; exit 2; }
out=$(/verif/bin/acraverify check $2 --no-evidence 2>&1)
git -C /repo checkout -- . ; git -C /repo clean -fdq
if echo "$out" | grep -q "^VIOLATION"; then echo "CAUGHT:"; echo "$out" | grep -A2 "^VIOLATION" | grep -v "^VIOLATION\|^--" | cut -c1-400; else echo "missed"; fi
