// Package keys: pure-Go stand-in for gothemis/keys (P-256, Themis-like 45-byte containers).
package keys

import (
	"crypto/ecdsa"
	"crypto/elliptic"
	"crypto/rand"
	"encoding/binary"

	"github.com/cossacklabs/themis/gothemis/errors"
)

const (
	TypeEC = iota
	TypeRSA
)

const (
	KeytypeEC  = TypeEC
	KeytypeRSA = TypeRSA
)

var (
	ErrGetKeySize       = errors.New("failed to get needed key sizes")
	ErrGenerateKeypair  = errors.New("failed to generate keypair")
	ErrInvalidType      = errors.NewWithCode(errors.InvalidParameter, "invalid key type specified")
	ErrOutOfMemory      = errors.NewWithCode(errors.NoMemory, "key generator cannot allocate enough memory")
	ErrOverflow         = ErrOutOfMemory
	ErrGetSymmetricKeySize  = errors.New("failed to get symmetric key size")
	ErrGenerateSymmetricKey = errors.New("failed to generate symmetric key")
)

type PrivateKey struct{ Value []byte }
type PublicKey struct{ Value []byte }
type Keypair struct {
	Private *PrivateKey
	Public  *PublicKey
}
type SymmetricKey struct{ Value []byte }

func container(tag string, body []byte) []byte {
	out := make([]byte, 12, 12+len(body))
	copy(out, tag)
	binary.BigEndian.PutUint32(out[4:], uint32(12+len(body)))
	// bytes 8..12: checksum placeholder (xor-fold) so that corrupted containers are rejected
	var c [4]byte
	for i, b := range body {
		c[i%4] ^= b
	}
	copy(out[8:], c[:])
	return append(out, body...)
}

// Open returns the body of a key container or nil.
func Open(tag string, v []byte) []byte {
	if len(v) != 45 || string(v[:4]) != tag || binary.BigEndian.Uint32(v[4:]) != 45 {
		return nil
	}
	var c [4]byte
	for i, b := range v[12:] {
		c[i%4] ^= b
	}
	if string(c[:]) != string(v[8:12]) {
		return nil
	}
	return v[12:]
}

func New(keytype int) (*Keypair, error) {
	if keytype != TypeEC {
		return nil, ErrInvalidType
	}
	k, err := ecdsa.GenerateKey(elliptic.P256(), rand.Reader)
	if err != nil {
		return nil, ErrGenerateKeypair
	}
	priv := make([]byte, 33)
	k.D.FillBytes(priv[1:])
	pub := elliptic.MarshalCompressed(elliptic.P256(), k.X, k.Y)
	return &Keypair{Private: &PrivateKey{container("REC2", priv)}, Public: &PublicKey{container("UEC2", pub)}}, nil
}

func NewSymmetricKey() (*SymmetricKey, error) {
	b := make([]byte, 32)
	if _, err := rand.Read(b); err != nil {
		return nil, ErrGenerateSymmetricKey
	}
	return &SymmetricKey{b}, nil
}
