#!/bin/sh
# usage: acra-go.sh <acra tree> <go subcommand and args...>
# Runs `go <args>` inside the tree with gothemis replaced by the pure-Go stand-in, via -modfile (go.mod untouched).
T=$1; shift
MF=$(mktemp -d /tmp/acramod.XXXXXX)
cp "$T/go.mod" "$MF/go.mod"; cp "$T/go.sum" "$MF/go.sum"
echo "replace github.com/cossacklabs/themis/gothemis => /opt/gothemis-fake" >> "$MF/go.mod"
cd "$T" && GOFLAGS="-mod=mod -modfile=$MF/go.mod" GOPROXY=off GOSUMDB=off GOTOOLCHAIN=local GOWORK=off go "$@"
rc=$?
rm -rf "$MF"
exit $rc
