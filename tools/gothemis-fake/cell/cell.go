// Package cell: pure-Go stand-in for gothemis/cell (AES-256-GCM, key = SHA-256(master key), context = AAD).
package cell

import (
	"crypto/aes"
	"crypto/cipher"
	"crypto/rand"
	"crypto/sha256"

	"github.com/cossacklabs/themis/gothemis/errors"
	"github.com/cossacklabs/themis/gothemis/keys"
)

const (
	ModeSeal = iota
	ModeTokenProtect
	ModeContextImprint
)

const (
	CELL_MODE_SEAL            = ModeSeal
	CELL_MODE_TOKEN_PROTECT   = ModeTokenProtect
	CELL_MODE_CONTEXT_IMPRINT = ModeContextImprint
)

var (
	ErrGetOutputSize      = errors.New("failed to get output size")
	ErrEncryptData        = errors.New("failed to protect data")
	ErrDecryptData        = errors.New("failed to unprotect data")
	ErrInvalidMode        = errors.NewWithCode(errors.InvalidParameter, "invalid Secure Cell mode specified")
	ErrMissingKey         = errors.NewWithCode(errors.InvalidParameter, "empty symmetric key for Secure Cell")
	ErrMissingPassphrase  = errors.NewWithCode(errors.InvalidParameter, "empty passphrase for Secure Cell")
	ErrMissingMessage     = errors.NewWithCode(errors.InvalidParameter, "empty message for Secure Cell")
	ErrMissingToken       = errors.NewWithCode(errors.InvalidParameter, "authentication token is required in Token Protect mode")
	ErrMissingContext     = errors.NewWithCode(errors.InvalidParameter, "associated context is required in Context Imprint mode")
	ErrOutOfMemory        = errors.NewWithCode(errors.NoMemory, "Secure Cell cannot allocate enough memory")
	ErrOverflow           = ErrOutOfMemory
)

var magic = []byte{0x00, 0x01, 0x01, 0x40}

func aead(key []byte) cipher.AEAD {
	k := sha256.Sum256(key)
	b, _ := aes.NewCipher(k[:])
	g, _ := cipher.NewGCM(b)
	return g
}

// Seal: magic(4) | nonce(12) | ciphertext | tag(16)
func Seal(key, data, context []byte) ([]byte, error) {
	if len(key) == 0 {
		return nil, ErrMissingKey
	}
	if len(data) == 0 {
		return nil, ErrMissingMessage
	}
	g := aead(key)
	out := make([]byte, 16, 16+len(data)+16)
	copy(out, magic)
	if _, err := rand.Read(out[4:16]); err != nil {
		return nil, ErrEncryptData
	}
	return g.Seal(out, out[4:16], data, context), nil
}

func Open(key, data, context []byte) ([]byte, error) {
	if len(key) == 0 {
		return nil, ErrMissingKey
	}
	if len(data) == 0 {
		return nil, ErrMissingMessage
	}
	if len(data) < 32 || string(data[:4]) != string(magic) {
		return nil, ErrDecryptData
	}
	pt, err := aead(key).Open(nil, data[4:16], data[16:], context)
	if err != nil {
		return nil, ErrDecryptData
	}
	return pt, nil
}

type SecureCell struct {
	key  []byte
	mode int
}

func New(key []byte, mode int) *SecureCell { return &SecureCell{key, mode} }

func (sc *SecureCell) Protect(data []byte, context []byte) ([]byte, []byte, error) {
	if sc.mode != ModeSeal {
		return nil, nil, ErrInvalidMode
	}
	out, err := Seal(sc.key, data, context)
	return out, nil, err
}

func (sc *SecureCell) Unprotect(protectedData []byte, additionalData []byte, context []byte) ([]byte, error) {
	if sc.mode != ModeSeal {
		return nil, ErrInvalidMode
	}
	return Open(sc.key, protectedData, context)
}

type SecureCellSeal struct{ key *keys.SymmetricKey }

func SealWithKey(key *keys.SymmetricKey) (*SecureCellSeal, error) {
	if key == nil || len(key.Value) == 0 {
		return nil, ErrMissingKey
	}
	return &SecureCellSeal{key}, nil
}

func (sc *SecureCellSeal) Encrypt(message, context []byte) ([]byte, error) {
	return Seal(sc.key.Value, message, context)
}

func (sc *SecureCellSeal) Decrypt(encrypted, context []byte) ([]byte, error) {
	return Open(sc.key.Value, encrypted, context)
}
