// Package message: pure-Go stand-in for gothemis/message (ECDH P-256 + AES-GCM; 52 bytes overhead like Themis EC).
package message

import (
	"crypto/aes"
	"crypto/cipher"
	"crypto/ecdsa"
	"crypto/elliptic"
	"crypto/rand"
	"crypto/sha256"
	"math/big"

	"github.com/cossacklabs/themis/gothemis/errors"
	"github.com/cossacklabs/themis/gothemis/keys"
)

var (
	ErrEncryptMessage    = errors.New("failed to encrypt message")
	ErrDecryptMessage    = errors.New("failed to decrypt message")
	ErrSignMessage       = errors.New("failed to sign message")
	ErrVerifyMessage     = errors.New("failed to verify message")
	ErrProcessMessage    = errors.New("failed to process message")
	ErrGetOutputSize     = errors.New("failed to get output size")
	ErrMissingMessage    = errors.NewWithCode(errors.InvalidParameter, "empty message for Secure Cell")
	ErrMissingPublicKey  = errors.NewWithCode(errors.InvalidParameter, "empty peer public key for Secure Message")
	ErrMissingPrivateKey = errors.NewWithCode(errors.InvalidParameter, "empty private key for Secure Message")
	ErrOutOfMemory       = errors.NewWithCode(errors.NoMemory, "Secure Message cannot allocate enough memory")
	ErrOverflow          = ErrOutOfMemory
)

type SecureMessage struct {
	private    *keys.PrivateKey
	peerPublic *keys.PublicKey
}

func New(private *keys.PrivateKey, peerPublic *keys.PublicKey) *SecureMessage {
	return &SecureMessage{private, peerPublic}
}

func (sm *SecureMessage) shared() (cipher.AEAD, error) {
	if sm.private == nil || len(sm.private.Value) == 0 {
		return nil, ErrMissingPrivateKey
	}
	if sm.peerPublic == nil || len(sm.peerPublic.Value) == 0 {
		return nil, ErrMissingPublicKey
	}
	d := keys.Open("REC2", sm.private.Value)
	q := keys.Open("UEC2", sm.peerPublic.Value)
	if d == nil || q == nil {
		return nil, ErrProcessMessage
	}
	x, y := elliptic.UnmarshalCompressed(elliptic.P256(), q)
	if x == nil {
		return nil, ErrProcessMessage
	}
	sx, _ := elliptic.P256().ScalarMult(x, y, d[1:])
	k := sha256.Sum256(sx.Bytes())
	b, _ := aes.NewCipher(k[:])
	return cipher.NewGCM(b)
}

var hdr = []byte{0x20, 0x27, 0x04, 0x26}

// Wrap: hdr(4) | len(4, LE) | nonce(12) | pad(16) | ct | tag(16)  => 52 bytes overhead
func (sm *SecureMessage) Wrap(message []byte) ([]byte, error) {
	if len(message) == 0 {
		return nil, ErrMissingMessage
	}
	g, err := sm.shared()
	if err != nil {
		return nil, err
	}
	out := make([]byte, 36, 52+len(message))
	copy(out, hdr)
	n := uint32(52 + len(message))
	out[4], out[5], out[6], out[7] = byte(n), byte(n>>8), byte(n>>16), byte(n>>24)
	if _, err := rand.Read(out[8:20]); err != nil {
		return nil, ErrEncryptMessage
	}
	return g.Seal(out, out[8:20], message, out[:8]), nil
}

func (sm *SecureMessage) Unwrap(message []byte) ([]byte, error) {
	if len(message) == 0 {
		return nil, ErrMissingMessage
	}
	g, err := sm.shared()
	if err != nil {
		return nil, err
	}
	if len(message) < 52 || string(message[:4]) != string(hdr) {
		return nil, ErrDecryptMessage
	}
	for _, b := range message[20:36] {
		if b != 0 {
			return nil, ErrDecryptMessage
		}
	}
	pt, err := g.Open(nil, message[8:20], message[36:], message[:8])
	if err != nil {
		return nil, ErrDecryptMessage
	}
	return pt, nil
}

func (sm *SecureMessage) Sign(message []byte) ([]byte, error) {
	if sm.private == nil || len(sm.private.Value) == 0 {
		return nil, ErrMissingPrivateKey
	}
	d := keys.Open("REC2", sm.private.Value)
	if d == nil {
		return nil, ErrSignMessage
	}
	k := new(ecdsa.PrivateKey)
	k.Curve = elliptic.P256()
	k.D = new(big.Int).SetBytes(d[1:])
	k.X, k.Y = k.Curve.ScalarBaseMult(d[1:])
	h := sha256.Sum256(message)
	sig, err := ecdsa.SignASN1(rand.Reader, k, h[:])
	if err != nil {
		return nil, ErrSignMessage
	}
	out := append([]byte{0x20, 0x26, 0x04, 0x26, byte(len(message)), byte(len(message) >> 8), byte(len(message) >> 16), byte(len(message) >> 24)}, message...)
	return append(out, sig...), nil
}

func (sm *SecureMessage) Verify(message []byte) ([]byte, error) {
	if sm.peerPublic == nil || len(sm.peerPublic.Value) == 0 {
		return nil, ErrMissingPublicKey
	}
	q := keys.Open("UEC2", sm.peerPublic.Value)
	if q == nil || len(message) < 8 {
		return nil, ErrVerifyMessage
	}
	n := int(message[4]) | int(message[5])<<8 | int(message[6])<<16 | int(message[7])<<24
	if n < 0 || 8+n > len(message) {
		return nil, ErrVerifyMessage
	}
	x, y := elliptic.UnmarshalCompressed(elliptic.P256(), q)
	if x == nil {
		return nil, ErrVerifyMessage
	}
	h := sha256.Sum256(message[8 : 8+n])
	if !ecdsa.VerifyASN1(&ecdsa.PublicKey{Curve: elliptic.P256(), X: x, Y: y}, h[:], message[8+n:]) {
		return nil, ErrVerifyMessage
	}
	return message[8 : 8+n], nil
}
