#!/bin/sh
# Runs acra's complete own test suite on a tree with the fake gothemis; prints FAIL lines. exit 0 if none.
# Known to fail with the fake on the unchanged tree (expects real Themis error values): TestExport_Import_CMD_FS_V1_Invalid_Cases
T=${1:-/repo}
OUT=$(/opt/gothemis-fake/acra-go.sh "$T" test -vet=off -count=1 ./... 2>&1 | grep "^--- FAIL\|^panic\|\[build failed\]\|^FAIL.*setup failed" | grep -v "TestExport_Import_CMD_FS_V1_Invalid_Cases")
if [ -n "$OUT" ]; then echo "$OUT"; exit 1; fi
echo "acra full suite (fake themis): no unexpected failures"
