// Package errors: pure-Go stand-in for gothemis/errors (no cgo).
package errors

type ThemisErrorCode int

const (
	Success          ThemisErrorCode = 0
	Fail                             = 11
	InvalidParameter                 = 12
	NoMemory                         = 13
	BufferTooSmall                   = 14
	DataCorrupt                      = 15
	InvalidSignature                 = 16
	NotSupported                     = 17
)

type ThemisError struct {
	errorCode   ThemisErrorCode
	description string
}

func (e *ThemisError) Error() string         { return e.description }
func (e *ThemisError) Code() ThemisErrorCode { return e.errorCode }
func New(description string) *ThemisError    { return &ThemisError{Fail, description} }
func NewWithCode(code ThemisErrorCode, description string) *ThemisError {
	return &ThemisError{code, description}
}

type ThemisCallbackError struct{ msg string }

func (e *ThemisCallbackError) Error() string             { return e.msg }
func NewCallbackError(msg string) *ThemisCallbackError { return &ThemisCallbackError{msg} }
