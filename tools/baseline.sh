#!/bin/sh
# Runs the pinned baseline suite on a tree (default /repo) and compares with /root/.vp/BASELINE.json.
D=${1:-/repo}
export GOFLAGS=-mod=mod GOPROXY=off GOSUMDB=off GOTOOLCHAIN=local
cd "$D" && go test -mod=mod -json -vet=off -count=1 -timeout 25m ./... 2>/dev/null > /tmp/baseline.$$.json
python3 - /tmp/baseline.$$.json <<'PY'
import json,sys
want=set(json.load(open('/root/.vp/BASELINE.json'))['stable_pass'])
got=set()
for l in open(sys.argv[1]):
    try: e=json.loads(l)
    except: continue
    if e.get('Action')=='pass' and e.get('Test'): got.add(e['Package']+'::'+e['Test'])
missing=sorted(want-got)
print("baseline pass:",len(want&got),"/",len(want))
for m in missing: print("  MISSING",m)
sys.exit(1 if missing else 0)
PY
rc=$?; rm -f /tmp/baseline.$$.json; exit $rc
