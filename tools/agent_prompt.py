#!/usr/bin/env python3
"""Prints the sub-agent prompt for one property (only the property text + worktree; nothing from /verif's machinery)."""
import json, sys
pid, wt = sys.argv[1], sys.argv[2]
n = sys.argv[3] if len(sys.argv) > 3 else "2"
p = [json.loads(l) for l in open('/verif/properties.jsonl') if json.loads(l)['id'] == pid][0]
print(f"""You are helping to evaluate verification tooling for the Go project cossacklabs/acra (a database security proxy). You have your own scratch git worktree of the repository at {wt} (work ONLY there; never touch /repo or /verif, and do not read anything under /verif).

Here is a semantic property the code base is supposed to satisfy:

ID: {p['id']} — {p['title']}
STATEMENT: {p['statement']}
QUANTIFIER: {p['quantifier']['text']}
WHY EXISTING TESTS CANNOT SETTLE IT: {p['why_tests_cant']}
ANCHOR FILES: {', '.join(p['anchors']['files'])}
MECHANISMS: {json.dumps(p['anchors']['mechanism'])}

TASK: produce {n} DIFFERENT, independent, realistic source changes (the kind of regression a developer could plausibly introduce in a refactoring or feature commit) to the acra code in {wt} that each BREAK this property while (a) the whole repository still compiles and (b) the existing tests still pass. Prefer changes that need something specific to manifest — a particular input or boundary value, a particular interleaving, a crash/fault at a particular point, a multi-step sequence of operations, or two cooperating sites that each look fine alone — NOT ones that ordinary use would expose at once. Make the changes subtle and different in kind from each other (different files/mechanisms where possible). Do not simply delete a whole feature.

Environment notes (important):
- No network. Always export: GOFLAGS=-mod=mod GOPROXY=off GOSUMDB=off GOTOOLCHAIN=local
- The real crypto dependency (gothemis, cgo) cannot be built here. A pure-Go functional stand-in exists: run go commands in your tree through the wrapper, e.g.
    /opt/gothemis-fake/acra-go.sh {wt} build ./...
    /opt/gothemis-fake/acra-go.sh {wt} test -vet=off -count=1 ./acrablock/ -run TestName
  and the whole existing suite with:  /opt/gothemis-fake/acra-fulltest.sh {wt}   (it must report no unexpected failures with your change applied; one known-bad test is already ignored by the script).
- The sqlparser packages and a few others also build with plain `go test`.

For EACH change deliver, under {wt}/../seed-{pid}-<k>/ (k = 1..{n}; create the directory):
  1. patch.diff — `git diff` of ONLY the source change (no test files), applicable with `git apply` to a clean tree at the same commit.
  2. a demonstration: a Go test file (name it demo_test.go and say in which package directory of the tree it must be placed) or a small main program, that FAILS with the change applied and PASSES on the unchanged tree. Verify both directions yourself with the wrapper above.
  3. meta.json with keys: property ("{pid}"), summary (what was changed and why it breaks the property), needs (what specific input/sequence/interleaving is needed to manifest), demo_location (package dir for demo_test.go), commands (what you ran to confirm: build, full suite, demo with and without the change).
After saving each patch, restore your worktree to clean (`git -C {wt} checkout -- . && git -C {wt} clean -fd`) before the next one. When done, reply with a short summary of each change (files touched, idea) and the paths of the artefacts. Do not commit anything. IMPORTANT: never use `git stash` (the stash is shared between worktrees of this repository and other agents work in parallel) - save your change with `git diff > file` and use `git apply` / `git apply -R` / `git checkout -- .` instead.""")
