#!/bin/sh
# usage: confirm_seed.sh <seed-dir> <name>   e.g. confirm_seed.sh /tmp/seed-C16-1 C16-1
# Confirms a seeded breaking change in a scratch worktree of /repo HEAD (never in /repo itself):
#  build ok, acra's full suite ok, pinned baseline ok, demo fails with the change and passes without it.
# On success copies the artefacts to /verif/seeded/<name>/ and appends what was run to meta.json ("confirmed").
set -u
S=$1; N=$2
WT=/tmp/confirm-$N
DEMO_DIR=$(python3 -c "import json,sys;print(json.load(open('$S/meta.json')).get('demo_location','').strip('/').replace('$WT/',''))")
DEMO_DIR=$(echo "$DEMO_DIR" | awk "{print \$1}" | sed "s#^.*/wt-[A-Z0-9]*/##; s#^\./##; s#/[a-z_]*_test\.go.*\$##; s#[;,]\$##; s#/\$##")
git -C /repo worktree add -q --detach $WT HEAD || exit 2
trap 'git -C /repo worktree remove --force '$WT' >/dev/null 2>&1; rm -rf '$WT' /tmp/confirm-'$N'.log' EXIT
DEMO=$(ls $S/*_test.go 2>/dev/null | head -1)
[ -z "$DEMO" ] && { echo "no demo test in $S"; exit 2; }
# every test of the demo file; with the race detector when the agent's own commands used it
RUN=$(grep -o "func Test[A-Za-z0-9_]*" $DEMO | sed 's/func //' | paste -sd'|')
RACE=""
grep -q -- "-race" $S/meta.json && RACE="-race"
cp $DEMO $WT/$DEMO_DIR/zz_demo_test.go || exit 2
echo "[1] demo on unchanged tree ($DEMO_DIR, $RUN)"
/opt/gothemis-fake/acra-go.sh $WT test $RACE -vet=off -count=1 ./$DEMO_DIR/ -run "^($RUN)\$" > /tmp/confirm-$N.log 2>&1; A=$?
tail -3 /tmp/confirm-$N.log
git -C $WT apply $S/patch.diff || { echo "patch does not apply"; exit 2; }
echo "[2] build with change"; /opt/gothemis-fake/acra-go.sh $WT build ./... >/dev/null 2>&1; B=$?
echo "[3] demo with change"
/opt/gothemis-fake/acra-go.sh $WT test $RACE -vet=off -count=1 ./$DEMO_DIR/ -run "^($RUN)\$" > /tmp/confirm-$N.log 2>&1; C=$?
grep -v "level=" /tmp/confirm-$N.log | tail -6
rm $WT/$DEMO_DIR/zz_demo_test.go
echo "[4] acra full suite with change"; /opt/gothemis-fake/acra-fulltest.sh $WT; D=$?
echo "[5] pinned baseline with change"; /verif/tools/baseline.sh $WT | tail -1; E=$?
echo "unchanged-demo=$A build=$B changed-demo=$C suite=$D baseline=$E"
if [ $A -eq 0 ] && [ $B -eq 0 ] && [ $C -ne 0 ] && [ $D -eq 0 ] && [ $E -eq 0 ]; then
  mkdir -p /verif/seeded/$N && cp $S/patch.diff $S/meta.json /verif/seeded/$N/ && cp $DEMO /verif/seeded/$N/demo_test.go
  python3 - <<PY
import json
p='/verif/seeded/$N/meta.json'
m=json.load(open(p))
m['confirmed']={'by':'tools/confirm_seed.sh in scratch worktree of /repo HEAD $(git -C /repo rev-parse --short HEAD)','demo_package':'$DEMO_DIR','demo_test':'$RUN',
 'ran':['demo on unchanged tree: pass','go build ./... with change: ok','demo with change: FAIL','acra full suite (fake themis) with change: no unexpected failures','pinned baseline (191) with change: pass']}
json.dump(m,open(p,'w'),indent=1)
PY
  echo "CONFIRMED -> /verif/seeded/$N"
else
  echo "NOT CONFIRMED"; exit 1
fi
