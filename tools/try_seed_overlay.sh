#!/bin/sh
# usage: try_seed_overlay.sh <abs patch.diff> <Cxx> : runs the property's check over /repo with the patched files laid
# over it (nothing in /repo is touched): the patch is applied in a scratch worktree of /repo HEAD.
WT=/tmp/ts-wt-$$
git -C /repo worktree add -q --detach $WT HEAD || exit 2
git -C $WT apply "$1" || { echo "patch does not apply"; git -C /repo worktree remove --force $WT; exit 2; }
OV=""
for f in $(git -C $WT diff --name-only); do OV="$OV --overlay /repo/$f=$WT/$f"; done
for f in $(git -C $WT ls-files --others --exclude-standard); do OV="$OV --overlay /repo/$f=$WT/$f"; done
out=$(/verif/bin/acraverify check $2 --no-evidence $OV 2>&1)
git -C /repo worktree remove --force $WT
if echo "$out" | grep -q "^VIOLATION"; then echo "CAUGHT:"; echo "$out" | grep -A2 "^VIOLATION" | grep -v "^VIOLATION\|^--" | cut -c1-400; else echo "missed"; fi
