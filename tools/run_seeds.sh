#!/bin/sh
# Applies every confirmed seeded change to /repo (git apply), runs the property's check, undoes it (git checkout), prints a table.
# /repo must be clean. Never commits anything there.
cd /repo || exit 2
[ -n "$(git status --porcelain)" ] && { echo "/repo not clean"; exit 2; }
for d in /verif/seeded/*/; do
  n=$(basename $d); id=${n%-*}
  [ -f $d/patch.diff ] || continue
  if ! git apply $d/patch.diff 2>/dev/null; then echo "$n | patch does not apply"; continue; fi
  out=$(/verif/bin/acraverify check $id --no-evidence 2>&1)
  git checkout -- . ; git clean -fdq
  rules=$(echo "$out" | grep "^  R[0-9]" | grep "|" | sed 's/^  \(R[0-9.]*\)|.*/\1/' | sort -u | tr '\n' ' ')
  if echo "$out" | grep -q "^VIOLATION"; then echo "$n | CAUGHT by $rules"; else echo "$n | missed"; fi
done
