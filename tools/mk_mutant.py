#!/usr/bin/env python3
"""usage: mk_mutant.py <fix-commit> <file> -> prints (old,new) Go string literals reverting the fix in that file:
the smallest single region (whole lines) that differs between the fixed and the pre-fix version."""
import subprocess, sys, json
commit, f = sys.argv[1], sys.argv[2]
new = subprocess.check_output(['git','-C','/repo','show',f'{commit}:{f}'], text=True).split('\n')
old = subprocess.check_output(['git','-C','/repo','show',f'{commit}~1:{f}'], text=True).split('\n')
i = 0
while i < min(len(new),len(old)) and new[i]==old[i]: i+=1
j = 0
while j < min(len(new),len(old))-i and new[len(new)-1-j]==old[len(old)-1-j]: j+=1
fixed = '\n'.join(new[i:len(new)-j])+'\n'
prefix = '\n'.join(old[i:len(old)-j])+'\n'
def q(s): return json.dumps(s).replace('\\u003c','<').replace('\\u003e','>').replace('\\u0026','&')
print(q(fixed)+',\n'+q(prefix))
