#!/bin/sh
# Restores the pure-Go gothemis stand-in to /opt/gothemis-fake (used only to confirm seeded changes / fixes, never by a check).
mkdir -p /opt/gothemis-fake && cp -r "$(dirname "$0")/gothemis-fake/." /opt/gothemis-fake/ && chmod +x /opt/gothemis-fake/*.sh
