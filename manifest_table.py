# CLAIMED[id] = (technique, level text, level note, design ref); NA[id] = reason
NOTE = ("Trusted base: go/types + go/ssa + x/tools call graph model Go correctly; gothemis and third-party packages are opaque externals; "
        "each rule is a necessary structural condition of the property, decided for every path/call site/AST type in the current tree, "
        "not the behavioural statement itself. Known genuine defects listed in /verif/known_findings.json print KNOWN-FINDING and do not fail the check.")
CLAIMED["C16"] = (
 "static analysis: switch-exhaustiveness over literal kinds, Format-vs-walkSubtree field coverage over all AST types, interprocedural SSA taint (raw statement text -> logrus sinks), dominance rule for the NotParsedStatement echo",
 "Decides, for every AST struct type and every logrus call site in the statement-handling packages, that (a) every data-carrying literal kind is converted by the normalizer, (b) every printed sub-node that can hold a literal is walked, (c) no value derived from raw statement text reaches a log call, (d) the redacted text is never the echo of an unparseable statement. These are necessary conditions for 'no literal in logs'; quoting/escaping behaviour of the printer and error-message provenance are not decided.",
 NOTE, "DESIGN.md §2 C16")

CLAIMED["C13"] = (
 "static analysis: AST-type reachability + Format field-coverage over all data-statement node types, switch exhaustiveness of SQLVal.Format, who-may-write rule over SSA stores into AST fields outside the parser",
 "Decides for every AST struct type reachable from data statements that each field is read by its Format method (181 fields today), that ParenExpr/SQLVal printing keeps parentheses, every literal kind and casts, and that code outside the parser only overwrites the value/comparison fields the documented substitutions need. Necessary conditions for 'the re-serialised statement parses back to the same tree'; Parse(String(t))==t itself, quoting and escaping are not decided.",
 NOTE, "DESIGN.md §2 C13")
