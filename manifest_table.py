# CLAIMED[id] = (technique, level text, level note, design ref); NA[id] = reason
