# CLAIMED[id] = (technique, level text, level note, design ref); NA[id] = reason
NOTE = ("Trusted base: go/types + go/ssa + x/tools call graph model Go correctly; gothemis and third-party packages are opaque externals; "
        "each rule is a necessary structural condition of the property, decided for every path/call site/AST type in the current tree, "
        "not the behavioural statement itself. Known genuine defects listed in /verif/known_findings.json print KNOWN-FINDING and do not fail the check.")
CLAIMED["C16"] = (
 "static analysis: switch-exhaustiveness over literal kinds, Format-vs-walkSubtree field coverage over all AST types, interprocedural SSA taint (raw statement text -> logrus sinks), dominance rule for the NotParsedStatement echo",
 "Decides, for every AST struct type and every logrus call site in the statement-handling packages, that (a) every data-carrying literal kind is converted by the normalizer, (b) every printed sub-node that can hold a literal is walked, (c) no value derived from raw statement text reaches a log call, (d) the redacted text is never the echo of an unparseable statement. These are necessary conditions for 'no literal in logs'; quoting/escaping behaviour of the printer and error-message provenance are not decided.",
 NOTE, "DESIGN.md §2 C16")

CLAIMED["C13"] = (
 "static analysis: AST-type reachability + Format field-coverage over all data-statement node types, switch exhaustiveness of SQLVal.Format, who-may-write rule over SSA stores into AST fields outside the parser",
 "Decides for every AST struct type reachable from data statements that each field is read by its Format method (181 fields today), that ParenExpr/SQLVal printing keeps parentheses, every literal kind and casts, and that code outside the parser only overwrites the value/comparison fields the documented substitutions need. Necessary conditions for 'the re-serialised statement parses back to the same tree'; Parse(String(t))==t itself, quoting and escaping are not decided.",
 NOTE, "DESIGN.md §2 C13")

CLAIMED["C01"] = (
 "static analysis: SSA value-pairing rule at every container serialisation site, dominance/reachability rule for the pass-through guard in the six encrypt entry points, constant/handler agreement in the eight translator operations, sibling rule over all gRPC methods and HTTP handlers (delegate to the common service, no direct envelope/key calls)",
 "Decides that every serialisation labels the envelope with the id of the handler that produced it, that no envelope-creating call is reachable from an 'already protected' test edge and that edge returns the input itself, that each translator operation selects the handler of its own envelope kind, and that all 11 RPCs / 13 HTTP handlers are the same operation as the common service. Necessary conditions for 'protect-then-reveal returns the original'; byte equality of the round trip, tag scanning inside column values and the crypto itself are not decided.",
 NOTE, "DESIGN.md §2 C01")
CLAIMED["C02"] = (
 "static analysis: method-set completeness + dominance rule for the gRPC identity override, interprocedural backward provenance (call-graph closed) of every per-client key lookup and every key-encryption context, must-reach value-flow for token/hash scoping",
 "Decides completely that the identity named inside a gRPC request is overwritten by the connection identity on every RPC (enumerated from the service interfaces, so a new RPC is picked up), that HTTP operations take the identity only from the connection, that every data-plane key lookup uses an identity that traces back to the request/connection/column owner, that every stored key is encrypted with owner+purpose context derived from the same id, and that token ids/storage contexts absorb the client id. That different ids yield different keys and that AEAD rejects a wrong key are delegated to Themis and not decided.",
 NOTE, "DESIGN.md §2 C02")

CLAIMED["C05"] = (
 "static analysis: CFG reachability/dominance rules on the proxy loops (verdict edge cannot reach the forwarding call within one iteration), verdict-propagation rule, return-value rules on the censor chain and its handlers, never-after rule for the pending-query queue, sibling rule over the pattern matchers",
 "Decides that on both proxies the firewall's error edge cannot reach the call that forwards the packet before the next packet is read and that the client is answered, that every handleQueryPacket verdict is propagated to the loop, that AcraCensor.HandleQuery returns handler errors as is / stops on the first allow / rejects unparseable statements unless tolerated, that Allow/Deny consult all three rule kinds and DenyAll/AllowAll are constant, that no pending-response entry is queued for an unsent statement, and that every field-by-field pattern matcher can answer 'match'. Verdict invariance under formatting and pattern-language semantics depend on the parser and are not decided.",
 NOTE, "DESIGN.md §2 C05")

CLAIMED["C09"] = (
 "static analysis: backward provenance over go/ssa for every blind-index computation (key and hashed value), sibling rule over the two dialect rewriters, difference-constraint proof of the two-sided placeholder range check, factory wiring order rule",
 "Decides the structural necessary conditions of equality search: every GenerateHMAC call outside the hmac library is keyed by GetHMACSecretKey(...) and, where its input may already be an envelope, hashes the decrypted plaintext; both dialect rewriters take the substring length from hmac.GetDefaultHashSize(), which is the default hash size plus the id byte; the placeholder index recorded by both OnBind handlers is proven 0 <= i < len(values); the HMAC processor is subscribed on both sides of the container detector in both proxy factories. That equal plaintexts give equal prefixes (determinism of HMAC) and that the database compares the prefixes as intended are runtime facts and are not decided.",
 NOTE, "DESIGN.md §2 C09")

CLAIMED["C10"] = (
 "static analysis: SSA value rules (narrowing conversions, buffer provenance of generated tokens), CFG critical-section and dominance rules over every TokenStorage.Save implementation, retry-loop shape rule for consistent tokenization, AST sibling/exhaustiveness rules over the token-type switches, difference-constraint proof of the placeholder range check",
 "Decides structural necessary conditions of tokenization: no integer parsed from a column is narrowed below its parse width; every generator returns a fresh buffer of the original's length (or the integer's width); every TokenStorage.Save is insert-if-absent inside one lock / write transaction / SetNX or delegates with the same id; AnonymizeConsistently looks up and saves one key derived from value, client context and type, retries a lost race at most once and returns the saved token; all token-type switches cover the supported types with the same Go-type pairing; the token record is keyed by the new token, holds the original, is type-checked on read and an unknown token is returned as is; placeholder indexes are range-checked on both sides. Uniqueness over populations of random values, linearizability of the stores under real schedules, BoltDB/Redis behaviour and the e-mail shape beyond length are runtime facts and are not decided (the e-mail generator's bounds are decided under C14).",
 NOTE, "DESIGN.md §2 C10")

CLAIMED["C14"] = (
 "static analysis: demand-driven difference-constraint prover (ABCD style) over go/ssa with dominating-branch facts, callee summaries and closed-world caller guards, applied to every slice/index/allocation whose bound derives from a length field, a subtraction or a lossy conversion in the input-facing decoders; bounded-allocation rule; goroutine recovery rule; no-panic scan; decoder state rule",
 "Decides for each of ~90 bound uses in the envelope, wire-protocol, token and codec decoders that the bound is proven in range from the conditions that dominate it (or is in the frozen, reasoned confirmed-table), that every input-sized allocation has a bound the sender does not control alone, that AcraServer's connection goroutines defer recoverConnection before running connection code, and that the decoders contain no explicit panic. Not decided: termination and memory of the SQL parser, scanner loop invariants (covered by the cursor-step rule of C01), invariants carried by struct fields (e.g. non-empty MySQL payloads), YAML/ASN.1 library internals.",
 NOTE, "DESIGN.md §2 C14, §1 E1")

CLAIMED["C03"] = (
 "static analysis: the guarded-bound prover over the envelope decoders (header fields and constant offsets), CFG rules for fail-closed two-stage decryption and search-hash comparison, same-value return rules for the transparent path",
 "Decides that no header field of a protected value can index, slice or size an allocation out of range in the envelope decoders, that AcraBlock.Decrypt authenticates the key block only on the key-id match, decrypts the payload only with the key obtained from it, under the caller's context, and turns every failure into an error, that every hash comparison answers 'not equal' with an error, and that the transparent path returns the very input container / re-emits input bytes when nothing could be decrypted. That the AEAD rejects every altered byte is delegated to Themis; the 'identical plaintext or error' disjunction as a whole is not decided.",
 NOTE, "DESIGN.md §2 C03")

CLAIMED["C06"] = (
 "static analysis: constant agreement between the listing's first index and the destroy function's offset plus an in-range proof of the caller-chosen index (bound prover with closed-world caller guards), sibling rule over v2 'all keys' iterators, must-follow rule for the history-cache refresh, store-pattern rules for newest-first order",
 "Decides that 'destroy index N' addresses the element the listing shows as N and cannot index outside the list (both keystore formats), that no v2 all-keys reader aborts on a destroyed key, that every successful v1 rotation refreshes or drops the cached history list, and that both formats return the newest key first. History semantics over arbitrary operation sequences, timestamp ordering of rotated files and re-open behaviour are not decided.",
 NOTE, "DESIGN.md §2 C06")

CLAIMED["C07"] = (
 "static analysis: interprocedural backward provenance of every storage/cache/bundle sink argument (secret sources vs key-encryption results), who-may-write rule for the secret fields of the serialised ring, verify-then-parse and swallowed-error rules, path-provenance and containment-predicate rule for the directory back end, permission-constant rule",
 "Decides that the data argument of every private-key write, cache insertion, ring secret field and export payload derives only from key-encryption results (or public/non-key data), that only addKeyData and the export copy write the ring's secret fields, that verifyKeyRing parses only the verified payload on the success edge under a path-derived context and swallows no error, that every os call of the directory back end takes a path that went through osPath and osPath has an effective containment test against the root, and that creations use the 0600/0700/0644 constants. That a copied key file fails to load and byte-level tamper detection are cryptographic and not decided; owner/purpose binding of contexts is decided as R02.4 under C02.",
 NOTE, "DESIGN.md §2 C07")

CLAIMED["C15"] = (
 "static analysis: CFG order/reachability rules on the proxy factories (events identified by the static type of the registered object), dominance rules in the poison detector, must-precede rule over every decryption-failure exit of the translator operations, who-may-call rule for the callback storage",
 "Decides that in both proxies and the translator the poison detector is registered (before the decrypt handler, on the 'callbacks configured' edge), that the intrusion callbacks run only and always on the success edge of a trial decryption made with the poison keys, that nobody else invokes them, that all four translator Decrypt* operations check for poison on every decryption-failure exit, and that a callback error aborts the column before delivery. Detection at arbitrary offsets and under rotated poison keys (tag scanning + crypto) is not decided.",
 NOTE, "DESIGN.md §2 C15")

CLAIMED["C11"] = (
 "static analysis: value-flow non-interference of the masked return, CFG reachability of the plain return, bound prover on the window split, factory wiring rule, validation rules",
 "Decides that the value handed to a reader who cannot decrypt derives only from the configured pattern (no dependence on the stored bytes or the decryption result), that the decrypted value is returned only after a successful decryption that changed the data, that every window/remainder slice bound is proven in range and short values are protected whole, that both factories build the decrypt handler over the masking processor, and that a masked setting is accepted only after validation that rejects an empty pattern and a negative window. That the delivered window bytes equal the configured window is a value property and not decided.",
 NOTE, "DESIGN.md §2 C11")
