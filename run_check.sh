#!/bin/sh
# usage: run_check.sh <Cxx> <quick|thorough>
# Analyses /repo's current working tree from source on every run.
cd "$(dirname "$0")"
export GOFLAGS=-mod=mod GOPROXY=off GOSUMDB=off GOTOOLCHAIN=local GOWORK=off
if [ ! -x bin/acraverify ] || [ -n "$(find checker -name '*.go' -newer bin/acraverify 2>/dev/null | head -1)" ]; then
  ./setup.sh >/dev/null || { echo "VIOLATION property=$1 replay=/verif/setup.sh"; echo "  analyser does not build"; exit 1; }
fi
exec bin/acraverify check "$1" --tier "${2:-quick}"
