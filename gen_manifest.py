#!/usr/bin/env python3
"""Regenerates MANIFEST.json from the table below (kept valid at all times)."""
import json, os, sys
HERE = os.path.dirname(os.path.abspath(__file__))
ENV = "GOFLAGS=-mod=mod GOPROXY=off GOSUMDB=off GOTOOLCHAIN=local GOWORK=off"
BASE = json.load(open('/root/.vp/BASELINE.json'))['cmd'] if os.path.exists('/root/.vp/BASELINE.json') else ""

# id -> (technique, level text, level note, design ref)
CLAIMED = {}
NA = {}
exec(open(os.path.join(HERE, 'manifest_table.py')).read())

props = [json.loads(l) for l in open(os.path.join(HERE, 'properties.jsonl'))]
checks = []
for p in props:
    pid = p['id']
    if pid in CLAIMED:
        tech, text, note, ref = CLAIMED[pid]
        checks.append({
            "property_id": pid,
            "quick_cmd": f"./run_check.sh {pid} quick",
            "thorough_cmd": f"./run_check.sh {pid} thorough",
            "evidence_file": f"/verif/evidence/{pid}.json",
            "replay_cmd_template": f"./run_check.sh {pid} quick  # violation details: {{path}}",
            "engine": "acraverify",
            "level_claimed": {"category": "other", "text": text, "design_ref": ref},
            "level_note": note,
            "technique": tech,
        })
na = [{"property_id": p['id'], "reason": NA.get(p['id'], "check not built yet; see DESIGN.md")} for p in props if p['id'] not in CLAIMED]
m = {
    "version": 1,
    "setup_cmd": "./setup.sh",
    "hooks": {
        "guard": "verif",
        "enable": "none needed: the checks are static analyses that read /repo's source; no hook or instrumentation commit exists",
        "baseline_off_cmd": BASE,
        "source_commits": [],
        "add_only": True,
    },
    "engines": [{
        "name": "acraverify",
        "path": "/verif/checker",
        "serves_properties": sorted(CLAIMED),
        "kind_free_text": "repository-specific static analyser (go/packages + go/types + go/ssa + call graph): guarded-bound prover, value-flow queries, CFG path rules, table/exhaustiveness/sibling rules",
    }],
    "checks": checks,
    "not_applicable": na,
    "notes": "All checks are static analyses of /repo's working tree; level 'other' = structural necessary conditions decided for all paths/call sites, not the behavioural property itself. Known genuine defects are listed in /verif/known_findings.json.",
}
json.dump(m, open(os.path.join(HERE, 'MANIFEST.json'), 'w'), indent=1)
print("checks:", len(checks), "not_applicable:", len(na))
