package main

import (
	"go/constant"
	"go/types"
	"strings"

	"golang.org/x/tools/go/ssa"
)

func init() {
	register(&Property{ID: "C20", Patterns: []string{"./..."}, Run: runC20})
}

func runC20(p *Program, r *Report) {
	r.Rule("R20.1", "E2+E3", 7, "the chain is computed as documented: each tag is HMAC(key, entry bytes || previous tag) under the calculator's lock, the tag is remembered as 'previous' and the key is replaced by its hash after every entry; a reset derives the key exactly like the constructor and clears 'previous'; the published value derives from the tag")
	ruleR201(p, r)
	r.Rule("R20.2", "E3", 6, "the verifier fails closed: tags are compared whole in constant time over the parsed tag and the recomputed one; a mismatch, a calculator error, a parse error other than 'no integrity field' and a new chain after an unfinished one each return an error; an entry becomes 'last verified' only on the equal edge; a new chain restarts the ratchet from the verifier's key")
	ruleWholeTagCompare(p, r, "R20.2", []string{"logging"}, 1)
	ruleR202(p, r)
	r.Rule("R20.3", "E2+E4", 6, "writer and parsers agree on what is authenticated: the writer computes the tag over the formatted bytes before it appends ' integrity=<hex>[ chain=new]'; the text parsers cut the line at the last occurrence of the same key string and authenticate exactly the bytes before it; the JSON hook and the JSON parser both authenticate convertMapToBytes of the entry without the integrity (and chain=new) keys")
	ruleR203(p, r)
	r.Rule("R20.4", "E3", 1, "every line of the log is looked at: the reader that feeds the verifier returns every read error except end-of-file and does not use a length-limited scanner whose error is ignored")
	ruleR204(p, r)
}

// fieldStore finds stores to receiver field `name` in fn and returns the stored values.
func recvFieldStores(fn *ssa.Function, name string) []*ssa.Store {
	return storesToRecvField(fn, name)
}

func callNamedIn(fn *ssa.Function, name string) *ssa.Call {
	cs := callsNamed(fn, name)
	if len(cs) == 0 {
		return nil
	}
	return cs[0]
}

func loadsRecvField(v ssa.Value, field string) bool {
	_, f, ok := fieldOfLoad(v)
	return ok && f == field
}

func ruleR201(p *Program, r *Report) {
	hm := p.Func("logging.(*LogEntryIntegrityCalculator).calculateHmac")
	calc := p.Func("logging.(*LogEntryIntegrityCalculator).CalculateIntegrityCheck")
	reset := p.Func("logging.(*LogEntryIntegrityCalculator).ResetCryptoKey")
	ctor := p.Func("logging.NewLogEntryIntegrityCalculator")
	for _, f := range []*ssa.Function{hm, calc, reset, ctor} {
		if f == nil || f.Blocks == nil {
			r.Anchor("R20.1", "LogEntryIntegrityCalculator methods")
			return
		}
	}
	// calculateHmac
	{
		name := fnName(hm)
		nw := callNamedIn(hm, "New")
		keyOK := nw != nil && len(nw.Common().Args) == 2 && loadsRecvField(nw.Common().Args[1], "cryptoKey")
		r.Check(keyOK, "R20.1", name, "keyed with the current chain key", p.Pos(hm.Pos()), "hmac.New(sha256.New, f.cryptoKey)", "the tag is not keyed with the calculator's current key")
		var writes []*ssa.Call
		for _, c := range callsNamed(hm, "Write") {
			writes = append(writes, c)
		}
		input := paramByName(hm, "input")
		order := len(writes) == 2 && writes[0].Common().Args[0] == ssa.Value(input) && loadsRecvField(writes[1].Common().Args[0], "previousLogEntryIntegrityCheck") && instrBefore(writes[0], writes[1])
		r.Check(order, "R20.1", name, "covers the entry and the previous tag", p.Pos(hm.Pos()), "Write(input); Write(previous)", "the tag does not cover the entry bytes followed by the previous entry's tag: entries can be reordered, removed or altered without breaking the chain")
		sum := callNamedIn(hm, "Sum")
		retOK := false
		for _, ret := range returnsOf(hm) {
			if sum != nil && retValue(ret, 0) == ssa.Value(sum) {
				retOK = true
			}
		}
		r.Check(retOK, "R20.1", name, "returns the MAC", p.Pos(hm.Pos()), "return h.Sum(nil)", "the function does not return the computed MAC")
	}
	// CalculateIntegrityCheck
	{
		name := fnName(calc)
		hmCall := callNamedIn(calc, "calculateHmac")
		first := callNamedIn(calc, "firstCheck")
		lock := callNamedIn(calc, "Lock")
		deferred := false
		for _, cs := range callsIn(calc) {
			if _, isD := cs.Instr.(*ssa.Defer); isD && cs.Callee != nil && cs.Callee.Name() == "Unlock" {
				deferred = true
			}
		}
		okLock := lock != nil && deferred && hmCall != nil && instrBefore(lock, hmCall)
		r.Check(okLock, "R20.1", name, "one entry at a time", p.Pos(calc.Pos()), "Lock; defer Unlock before the computation", "tag computation and ratchet are not under the calculator's lock: concurrent log calls interleave and the written order no longer matches the chain")
		prevOK := false
		for _, st := range recvFieldStores(calc, "previousLogEntryIntegrityCheck") {
			if hmCall != nil && st.Val == ssa.Value(hmCall) {
				prevOK = true
			}
		}
		r.Check(prevOK, "R20.1", name, "tag remembered as previous", p.Pos(calc.Pos()), "f.previous = calculateHmac(input)", "the new tag is not chained into the next entry")
		ratchet := false
		for _, st := range recvFieldStores(calc, "cryptoKey") {
			if c, isC := st.Val.(*ssa.Call); isC {
				if co := calleeOfCommon(c.Common()); co != nil && co.Name() == "calculateHash" && loadsRecvField(c.Common().Args[0], "cryptoKey") {
					ratchet = hmCall != nil && instrBefore(hmCall, st)
				}
			}
		}
		r.Check(ratchet, "R20.1", name, "key ratcheted after the entry", p.Pos(calc.Pos()), "f.cryptoKey = calculateHash(f.cryptoKey) after the tag", "the key is not replaced by its hash after every entry (or before the tag is computed): a key captured later recomputes earlier tags")
		outOK, chainOK := false, false
		for _, ret := range returnsOf(calc) {
			if isRecoverBlock(ret.Block()) {
				continue
			}
			if hmCall != nil && backClosure(retValue(ret, 0))[hmCall] {
				outOK = true
			}
			if first != nil && retValue(ret, 1) == ssa.Value(first) && hmCall != nil && instrBefore(first, hmCall) {
				chainOK = true
			}
		}
		r.Check(outOK, "R20.1", name, "published value derives from the tag", p.Pos(calc.Pos()), "calculateHash(tag)", "the value written to the log does not depend on the computed tag")
		r.Check(chainOK, "R20.1", name, "'new chain' is decided before the tag is stored", p.Pos(calc.Pos()), "firstCheck() precedes the store of previous", "the new-chain marker is computed after 'previous' was set: no entry is ever marked as the start of a chain")
	}
	// reset == constructor derivation
	{
		derive := func(v ssa.Value, keyParam ssa.Value) bool {
			c, ok := v.(*ssa.Call)
			if !ok {
				return false
			}
			co := calleeOfCommon(c.Common())
			return co != nil && co.Name() == "calculateHash" && c.Common().Args[0] == keyParam
		}
		okReset, clears := false, false
		for _, st := range recvFieldStores(reset, "cryptoKey") {
			okReset = derive(st.Val, paramByName(reset, "key"))
		}
		for _, st := range recvFieldStores(reset, "previousLogEntryIntegrityCheck") {
			clears = isNilConst(st.Val)
		}
		okCtor := false
		for _, b := range ctor.Blocks {
			for _, in := range b.Instrs {
				if st, isSt := in.(*ssa.Store); isSt {
					if fa, isFa := st.Addr.(*ssa.FieldAddr); isFa {
						stt := fa.X.Type().Underlying().(*types.Pointer).Elem().Underlying().(*types.Struct)
						if stt.Field(fa.Field).Name() == "cryptoKey" && derive(st.Val, paramByName(ctor, "key")) {
							okCtor = true
						}
					}
				}
			}
		}
		r.Check(okReset && clears && okCtor, "R20.1", fnName(reset), "reset starts a chain exactly like the constructor", p.Pos(reset.Pos()), "cryptoKey = calculateHash(key), previous = nil in both", "a chain restarted by ResetCryptoKey is keyed or seeded differently from a fresh calculator: the verifier (which resets on chain=new) cannot follow the writer")
	}
}

func ruleR202(p *Program, r *Report) {
	fn := p.Func("logging.(*IntegrityCheckVerifier).VerifyIntegrityCheck")
	if fn == nil || fn.Blocks == nil {
		r.Anchor("R20.2", "VerifyIntegrityCheck")
		return
	}
	name := fnName(fn)
	cmp := callNamedIn(fn, "ConstantTimeCompare")
	calc := callNamedIn(fn, "CalculateIntegrityCheck")
	parse := callNamedIn(fn, "ParseEntry")
	reset := callNamedIn(fn, "ResetCryptoKey")
	if cmp == nil || calc == nil || parse == nil || reset == nil {
		r.Anchor("R20.2", "VerifyIntegrityCheck: ConstantTimeCompare / CalculateIntegrityCheck / ParseEntry / ResetCryptoKey calls")
		return
	}
	parsed := extractOf(parse, 0)
	// operands
	a0, a1 := cmp.Common().Args[0], cmp.Common().Args[1]
	fromParsed := func(v ssa.Value, field string) bool {
		st, f, ok := fieldOfLoad(v)
		_ = st
		return ok && f == field && backClosure(v)[parsed]
	}
	opsOK := (fromParsed(a0, "Integrity") && a1 == ssa.Value(extractOf(calc, 0))) || (fromParsed(a1, "Integrity") && a0 == ssa.Value(extractOf(calc, 0)))
	inOK := fromParsed(plainArgs(calc)[0], "RawData")
	r.Check(opsOK && inOK, "R20.2", name, "compares the parsed tag with the tag recomputed over the parsed bytes", p.Pos(cmp.Pos()), "ConstantTimeCompare(parsed.Integrity, Calculate(parsed.RawData))", "the comparison is not between the entry's own tag and the tag recomputed over the entry's own bytes")
	// mismatch edge returns an error; lastVerifiedEntry stored only on the equal edge
	var mismatch, equal *ssa.BasicBlock
	for _, i := range allIfs(fn) {
		bo, ok := i.Cond.(*ssa.BinOp)
		if !ok || bo.X != ssa.Value(cmp) {
			continue
		}
		c, isC := intConst(bo.Y)
		if !isC {
			continue
		}
		switch {
		case bo.Op.String() == "==" && c == 0, bo.Op.String() == "!=" && c == 1:
			mismatch, equal = i.Block().Succs[0], i.Block().Succs[1]
		case bo.Op.String() == "==" && c == 1, bo.Op.String() == "!=" && c == 0:
			mismatch, equal = i.Block().Succs[1], i.Block().Succs[0]
		}
	}
	okMis := mismatch != nil
	if okMis {
		n := 0
		for _, ret := range returnsOf(fn) {
			if mismatch.Dominates(ret.Block()) {
				n++
				if isNilConst(retValue(ret, 1)) {
					okMis = false
				}
			}
		}
		// the mismatch edge must end in a return (not flow back into the loop)
		if n == 0 {
			okMis = false
		}
	}
	r.Check(okMis, "R20.2", name, "a tag mismatch is an error", p.Pos(cmp.Pos()), "the unequal edge returns a non-nil error", "an entry whose tag does not match is not reported: verification continues or succeeds")
	okLast := equal != nil
	for _, st := range recvFieldStores(fn, "lastVerifiedEntry") {
		if equal == nil || !equal.Dominates(st.Block()) {
			okLast = false
		}
		if st.Val != ssa.Value(parsed) {
			okLast = false
		}
	}
	r.Check(okLast, "R20.2", name, "an entry counts as verified only after its tag matched", p.Pos(cmp.Pos()), "lastVerifiedEntry = parsed on the equal edge", "lastVerifiedEntry is set on a path where the tag was not compared equal")
	// calculator error returned
	r.Check(errorEdgeReturnsError(fn, calc), "R20.2", name, "a calculator error is returned", p.Pos(calc.Pos()), "err != nil -> return err", "an error of the tag computation is ignored")
	// parse errors: only the three 'no integrity field' errors may continue
	okParse := true
	perr := extractOf(parse, 1)
	var nonNil *ssa.BasicBlock
	for _, i := range allIfs(fn) {
		if _, nn, ok := nilBranches(i, perr); ok {
			nonNil = nn
		}
	}
	if nonNil == nil {
		okParse = false
	} else {
		allowed := map[string]bool{"ErrCefIntegrityExtract": true, "ErrPlaintextIntegrityExtract": true, "ErrJSONIntegrityExtract": true}
		// every comparison of perr against a package error in the non-nil region must be against an allowed one
		cmpN := 0
		for _, b := range fn.Blocks {
			if !nonNil.Dominates(b) {
				continue
			}
			for _, in := range b.Instrs {
				bo, ok := in.(*ssa.BinOp)
				if !ok || bo.Op.String() != "==" || (bo.X != ssa.Value(perr) && bo.Y != ssa.Value(perr)) {
					continue
				}
				other := bo.Y
				if other == ssa.Value(perr) {
					other = bo.X
				}
				if u, isU := other.(*ssa.UnOp); isU {
					if g, isG := u.X.(*ssa.Global); isG {
						cmpN++
						if !allowed[g.Name()] {
							okParse = false
						}
					}
				}
			}
		}
		// and some path in the region returns the error
		returnsErr := false
		for _, ret := range returnsOf(fn) {
			if nonNil.Dominates(ret.Block()) && retValue(ret, 1) == ssa.Value(perr) {
				returnsErr = true
			}
		}
		if !returnsErr || cmpN == 0 {
			okParse = false
		}
	}
	r.Check(okParse, "R20.2", name, "only 'no integrity field' lines are skipped", p.Pos(parse.Pos()), "other parse errors are returned", "a line that fails to parse for another reason than a missing integrity field is skipped instead of failing verification")
	// new chain handling: the error for "a new chain although the previous one was not finished" depends on the
	// current entry being a chain start and on state of the verifier (lastVerifiedEntry, or flags kept instead)
	// that (a) is written only after an entry verified, (b) is written for every verified entry before the next
	// one is looked at, and (c) reflects whether that entry was an end-of-chain entry.
	okChain, whyChain := false, "no return of ErrMissingEndOfChain that depends on the entry being a chain start"
	errMissing := p.Lookup("logging.ErrMissingEndOfChain")
	for _, ret := range returnsGlobalErr(fn, errMissing) {
		depNew, depEnd := false, false
		state := map[string]bool{}
		for _, b := range fn.Blocks {
			if !b.Dominates(ret.Block()) || len(b.Instrs) == 0 {
				continue
			}
			if i, isIf := b.Instrs[len(b.Instrs)-1].(*ssa.If); isIf {
				for v := range backClosure(i.Cond) {
					if _, f, ok := fieldOfLoad(v); ok {
						switch f {
						case "IsNewChain":
							depNew = true
						case "IsEndChain":
							depEnd = true
						}
						if u, isU := v.(*ssa.UnOp); isU {
							if fa, isFA := u.X.(*ssa.FieldAddr); isFA && len(fn.Params) > 0 && fa.X == ssa.Value(fn.Params[0]) {
								state[f] = true
							}
						}
					}
				}
			}
		}
		// only what the loop itself writes is state (the parser, the key and the calculator are configuration)
		for f := range state {
			if len(recvFieldStores(fn, f)) == 0 {
				delete(state, f)
			}
		}
		if !depNew {
			continue
		}
		if len(state) == 0 {
			whyChain = "the test for an unfinished chain reads no state that the verifier writes while it goes through the entries"
			continue
		}
		okChain, whyChain = true, ""
		for f := range state {
			stores := recvFieldStores(fn, f)
			storeBlk := map[*ssa.BasicBlock]bool{}
			for _, st := range stores {
				storeBlk[st.Block()] = true
				if equal == nil || !equal.Dominates(st.Block()) {
					okChain, whyChain = false, "the verifier state "+f+" is written on a path where the tag was not compared equal"
				}
				// (c) the value, or the branch the store sits on, reflects IsEndChain
				for v := range backClosure(st.Val) {
					if _, ff, ok := fieldOfLoad(v); ok && ff == "IsEndChain" {
						depEnd = true
					}
					if v == ssa.Value(parsed) {
						// the entry itself is kept: its IsEndChain is read at the test (checked above)
					}
				}
				for _, b := range fn.Blocks {
					if i, isIf := b.Instrs[len(b.Instrs)-1].(*ssa.If); isIf && b.Dominates(st.Block()) && equal != nil && equal.Dominates(b) {
						for v := range backClosure(i.Cond) {
							if _, ff, ok := fieldOfLoad(v); ok && ff == "IsEndChain" {
								depEnd = true
							}
						}
					}
				}
			}
			// (b) from the verified edge the next iteration is not reached without writing the state
			if equal != nil {
				seen := map[*ssa.BasicBlock]bool{}
				var dfs func(b *ssa.BasicBlock) bool
				dfs = func(b *ssa.BasicBlock) bool {
					if seen[b] || storeBlk[b] {
						return false
					}
					seen[b] = true
					for _, sx := range b.Succs {
						if sx.Dominates(b) && sx.Dominates(equal) {
							return true // back edge to the loop that contains the comparison
						}
						if dfs(sx) {
							return true
						}
					}
					return false
				}
				if dfs(equal) {
					okChain, whyChain = false, "some verified entry (for example one that starts a chain) reaches the next entry without the verifier state "+f+" being written: a duplicated or re-inserted chain start after it is not noticed"
				}
			}
		}
		if okChain && !depEnd {
			okChain, whyChain = false, "the state the test reads does not reflect whether the previous entry ended its chain"
		}
	}
	r.Check(okChain, "R20.2", name, "a new chain after an unfinished one is an error", p.Pos(fn.Pos()), "chain start && previous verified entry did not end its chain -> ErrMissingEndOfChain; the state is written for every verified entry, after the comparison", whyChain+": trailing entries of a chain can be deleted, or a chain start duplicated, without verification failing")
	// reset on new chain with the verifier's key, before the calculation
	okReset := loadsRecvField(plainArgs(reset)[0], "cryptoKey") && reaches(reset.Block(), calc.Block(), nil)
	depNew := false
	for _, b := range fn.Blocks {
		if !b.Dominates(reset.Block()) || len(b.Instrs) == 0 {
			continue
		}
		if i, isIf := b.Instrs[len(b.Instrs)-1].(*ssa.If); isIf {
			for v := range backClosure(i.Cond) {
				if _, f, ok := fieldOfLoad(v); ok && f == "IsNewChain" {
					depNew = true
				}
			}
		}
	}
	r.Check(okReset && depNew, "R20.2", name, "a new chain restarts the ratchet from the verifier's key", p.Pos(reset.Pos()), "IsNewChain -> ResetCryptoKey(v.cryptoKey) before the tag is recomputed", "the ratchet is not restarted (or restarted with another key, or unconditionally) when an entry says chain=new")
}

// errorEdgeReturnsError: the err != nil edge of call's error result leads only to returns with that error.
func errorEdgeReturnsError(fn *ssa.Function, call *ssa.Call) bool {
	var errV ssa.Value
	if tup, ok := call.Type().(*types.Tuple); ok {
		for i := 0; i < tup.Len(); i++ {
			if isErrorType(tup.At(i).Type()) {
				errV = extractOf(call, i)
			}
		}
	} else if isErrorType(call.Type()) {
		errV = call
	}
	if errV == nil {
		return false
	}
	for _, i := range allIfs(fn) {
		if _, nn, ok := nilBranches(i, errV); ok {
			n := 0
			for _, ret := range returnsOf(fn) {
				if nn.Dominates(ret.Block()) {
					n++
					k := len(ret.Results) - 1
					if isNilConst(retValue(ret, k)) {
						return false
					}
				}
			}
			return n > 0
		}
	}
	return false
}

func constStr(v ssa.Value) (string, bool) {
	c, ok := v.(*ssa.Const)
	if !ok || c.Value == nil || c.Value.Kind() != constant.String {
		return "", false
	}
	return constant.StringVal(c.Value), true
}

func ruleR203(p *Program, r *Report) {
	app := p.Func("logging.appendIntegrity")
	if app == nil || app.Blocks == nil {
		r.Anchor("R20.3", "appendIntegrity")
		return
	}
	// writer: tag over Bytes() taken before any WriteString
	calc := callNamedIn(app, "CalculateIntegrityCheck")
	byt := callNamedIn(app, "Bytes")
	ws := callsNamed(app, "WriteString")
	token, suffix := "", ""
	okOrder := calc != nil && byt != nil && plainArgs(calc)[0] == ssa.Value(byt) && len(ws) >= 2
	for k, w := range ws {
		if calc != nil && !instrBefore(calc, w) && w.Block() == calc.Block() {
			okOrder = false
		}
		if s, ok := constStr(plainArgs(w)[0]); ok {
			if k == 0 {
				token = s
			} else {
				suffix = s
			}
		}
	}
	// the hex of the tag is what is written
	hexOK := false
	for _, w := range ws {
		if c, isC := plainArgs(w)[0].(*ssa.Call); isC && calc != nil {
			if co := calleeOfCommon(c.Common()); co != nil && co.Name() == "EncodeToString" && c.Common().Args[0] == ssa.Value(extractOf(calc, 0)) {
				hexOK = true
			}
		}
	}
	r.Check(okOrder && hexOK && token != "", "R20.3", fnName(app), "tag over the formatted bytes, then ' integrity=<hex>'", p.Pos(app.Pos()), "Calculate(formatted.Bytes()) precedes every WriteString; hex(tag) is written", "the writer authenticates bytes that already include (part of) the integrity field, or does not write the tag it computed")
	// text parsers
	for _, spec := range []string{"logging.(*PlaintextLogParser).ParseEntry", "logging.(*CefLogParser).ParseEntry"} {
		fn := p.Func(spec)
		if fn == nil || fn.Blocks == nil {
			r.Anchor("R20.3", spec)
			continue
		}
		name := fnName(fn)
		raw := paramByName(fn, "rawData")
		li := callNamedIn(fn, "LastIndex")
		okCut, why := false, "the line is not cut at the last occurrence of the integrity key"
		if li != nil && li.Common().Args[0] == ssa.Value(raw) {
			tok, _ := constStr(li.Common().Args[1])
			if tok != token {
				why = "the parser looks for " + strconvQuote(tok) + " but the writer appends " + strconvQuote(token)
			} else {
				// RawData store = []byte(rawData[:idx])
				for _, b := range fn.Blocks {
					for _, in := range b.Instrs {
						st, isSt := in.(*ssa.Store)
						if !isSt {
							continue
						}
						fa, isFa := st.Addr.(*ssa.FieldAddr)
						if !isFa {
							continue
						}
						stt := fa.X.Type().Underlying().(*types.Pointer).Elem().Underlying().(*types.Struct)
						if stt.Field(fa.Field).Name() != "RawData" {
							continue
						}
						for v := range backClosure(st.Val) {
							if sl, isSl := v.(*ssa.Slice); isSl && sl.X == ssa.Value(raw) && sl.Low == nil && sl.High == ssa.Value(li) {
								okCut = true
							}
						}
					}
				}
				if !okCut {
					why = "the authenticated bytes are not exactly the line up to the integrity key"
				}
			}
		}
		r.Check(okCut, "R20.3", name, "authenticates the bytes before the last ' integrity='", p.Pos(fn.Pos()), "RawData = rawData[:LastIndex(rawData, token)]", why+": an honest entry whose text contains the key characters, or a line with a second look-alike field, is mis-split")
		// chain=new suffix agreement
		okSuf := false
		for _, c := range callsNamed(fn, "TrimSuffix") {
			if s, ok := constStr(c.Common().Args[1]); ok && s == suffix {
				okSuf = true
			}
		}
		r.Check(okSuf && suffix != "", "R20.3", name, "strips the chain marker the writer appends", p.Pos(fn.Pos()), "TrimSuffix(…, "+strconvQuote(suffix)+")", "the parser does not strip the same new-chain marker the writer appends after the tag")
	}
	// JSON: both sides authenticate convertMapToBytes(map without integrity/chain=new)
	hook := p.Func("logging.(*JSONFormatterHook).PostFormat")
	jp := p.Func("logging.(*JSONLogParser).ParseEntry")
	if hook == nil || hook.Blocks == nil || jp == nil || jp.Blocks == nil {
		r.Anchor("R20.3", "JSON hook / parser")
		return
	}
	{
		// both sides decode the entry with the same JSON decoding calls (number handling must agree)
		dec := func(fn *ssa.Function) string {
			var names []string
			for _, cs := range callsIn(fn) {
				if cs.Callee != nil && cs.Callee.Pkg() != nil && cs.Callee.Pkg().Path() == "encoding/json" {
					switch cs.Callee.Name() {
					case "Unmarshal", "NewDecoder", "UseNumber", "Decode", "DisallowUnknownFields":
						names = append(names, cs.Callee.Name())
					}
				}
			}
			sortStrings(names)
			return strings.Join(names, "+")
		}
		a, b := dec(hook), dec(jp)
		r.Check(a == b && a != "", "R20.3", fnName(hook), "JSON writer and parser decode the entry the same way", p.Pos(hook.Pos()), "both: "+a, "the hook decodes with ["+a+"] and the parser with ["+b+"]: values whose textual form depends on the decoder (large integers, number vs float) are authenticated differently on the two sides")
	}
	{
		conv := callNamedIn(hook, "convertMapToBytes")
		calc := callNamedIn(hook, "CalculateIntegrityCheck")
		okW := conv != nil && calc != nil && plainArgs(calc)[0] == ssa.Value(extractOf(conv, 0))
		why := "the tag is not computed over convertMapToBytes(parsed)"
		// the keys the parser takes out of the map before it recomputes the tag (and the value a removal is conditioned on)
		type pkey struct{ key, onlyWhen string }
		deleted := func(fn *ssa.Function) []pkey {
			var out []pkey
			for _, b := range fn.Blocks {
				for _, in := range b.Instrs {
					if c, isC := in.(*ssa.Call); isC {
						if bi, isB := c.Call.Value.(*ssa.Builtin); isB && bi.Name() == "delete" {
							if k, ok := constStrI(c.Call.Args[1]); ok {
								pk := pkey{key: k}
								for _, ob := range fn.Blocks {
									if iff, isIf := ob.Instrs[len(ob.Instrs)-1].(*ssa.If); isIf && ob.Succs[0] == b {
										if bo, isBo := iff.Cond.(*ssa.BinOp); isBo && bo.Op.String() == "==" {
											if v, ok := constStrI(bo.Y); ok {
												pk.onlyWhen = v
											} else if v, ok := constStrI(bo.X); ok {
												pk.onlyWhen = v
											}
										}
									}
								}
								out = append(out, pk)
							}
						}
					}
				}
			}
			return out
		}
		pkeys := deleted(jp)
		// the hook removes nothing else, and under no other condition, than the parser does
		for _, wk := range deleted(hook) {
			match := false
			for _, pk := range pkeys {
				if pk == wk {
					match = true
				}
			}
			if !match {
				okW, why = false, "the hook removes \""+wk.key+"\" from the authenticated map (when its value is \""+wk.onlyWhen+"\"; empty = always) but the parser does not remove it under the same condition"
			}
		}
		if conv != nil && calc != nil {
			var m ssa.Value = plainArgs(conv)[0]
			isDel := func(in ssa.Instruction, key string) bool {
				c, isC := in.(*ssa.Call)
				if !isC {
					return false
				}
				bi, isB := c.Call.Value.(*ssa.Builtin)
				if !isB || bi.Name() != "delete" || !sameCellLoad(c.Call.Args[0], m) {
					return false
				}
				k, ok := constStrI(c.Call.Args[1])
				return ok && k == key
			}
			for _, pk := range pkeys {
				// (1) the hook's own value for this key is put into the map only after the computation
				for _, b := range hook.Blocks {
					for _, in := range b.Instrs {
						mu, isMu := in.(*ssa.MapUpdate)
						if !isMu || !sameCellLoad(mu.Map, m) {
							continue
						}
						if k, ok := constStrI(mu.Key); ok && k == pk.key {
							after := (conv.Block() == mu.Block() && instrBefore(conv, mu)) || (conv.Block() != mu.Block() && reaches(conv.Block(), mu.Block(), nil) && !reaches(mu.Block(), conv.Block(), nil))
							if !after {
								okW, why = false, "parsed["+pk.key+"] is set before the tag is computed"
							}
						}
					}
				}
				// (2) a field of the entry under this key is taken out before the computation: from the 'present' edge of
				// a lookup of the key, convertMapToBytes is reached only through delete(parsed, key) - or, when the
				// parser removes the key only for one value, over the 'other value' edge of a comparison with it
				looked := false
				for _, b := range hook.Blocks {
					for _, in := range b.Instrs {
						lk, isLk := in.(*ssa.Lookup)
						if !isLk || !lk.CommaOk || !sameCellLoad(lk.X, m) {
							continue
						}
						if k, ok := constStrI(lk.Index); !ok || k != pk.key {
							continue
						}
						okv := extractOf(lk, 1)
						if okv == nil {
							continue
						}
						for _, iff := range ifsOn(okv) {
							looked = true
							seen := map[*ssa.BasicBlock]bool{}
							var dfs func(x *ssa.BasicBlock) bool
							dfs = func(x *ssa.BasicBlock) bool {
								if seen[x] {
									return false
								}
								seen[x] = true
								for _, xi := range x.Instrs {
									if isDel(xi, pk.key) {
										return false
									}
									if xi == ssa.Instruction(conv) {
										return true
									}
								}
								if xif, isIf := x.Instrs[len(x.Instrs)-1].(*ssa.If); isIf && pk.onlyWhen != "" {
									if bo, isBo := xif.Cond.(*ssa.BinOp); isBo && bo.Op.String() == "==" {
										vx, okx := constStrI(bo.X)
										vy, oky := constStrI(bo.Y)
										if (okx && vx == pk.onlyWhen) || (oky && vy == pk.onlyWhen) {
											return dfs(x.Succs[0]) // the 'other value' edge is fine
										}
									}
								}
								for _, sx := range x.Succs {
									if dfs(sx) {
										return true
									}
								}
								return false
							}
							if dfs(iff.Block().Succs[0]) {
								okW, why = false, "an entry field named \""+pk.key+"\" stays in the map that is authenticated; the parser removes that key before it recomputes the tag"
							}
						}
					}
				}
				if !looked {
					okW, why = false, "the hook never looks whether the entry already has a field named \""+pk.key+"\": it would be authenticated here and removed by the parser"
				}
			}
			if len(pkeys) < 2 {
				okW, why = false, "the parser's removals of integrity / chain=new were not found"
			}
		}
		r.Check(okW, "R20.3", fnName(hook), "JSON writer authenticates the map without the keys the parser removes", p.Pos(hook.Pos()), "for every key the parser deletes: present -> deleted before convertMapToBytes, the hook's own value set afterwards", why+": an honest entry does not verify")
	}
	{
		conv := callNamedIn(jp, "convertMapToBytes")
		dels := 0
		okP := conv != nil
		for _, b := range jp.Blocks {
			for _, in := range b.Instrs {
				c, isC := in.(*ssa.Call)
				if !isC {
					continue
				}
				if bi, isB := c.Call.Value.(*ssa.Builtin); isB && bi.Name() == "delete" && conv != nil {
					dels++
					if !reaches(c.Block(), conv.Block(), nil) && c.Block() != conv.Block() {
						okP = false
					}
				}
			}
		}
		// RawData = convertMapToBytes result
		rawOK := false
		for _, b := range jp.Blocks {
			for _, in := range b.Instrs {
				if st, isSt := in.(*ssa.Store); isSt && conv != nil && st.Val == ssa.Value(extractOf(conv, 0)) {
					rawOK = true
				}
			}
		}
		r.Check(okP && dels >= 2 && rawOK, "R20.3", fnName(jp), "JSON parser authenticates the map without integrity and chain=new", p.Pos(jp.Pos()), "delete(integrity), delete(chain) on 'new', then convertMapToBytes", "the JSON parser recomputes the tag over a map that differs from what the hook authenticated")
	}
}

func sortStrings(a []string) {
	for i := 1; i < len(a); i++ {
		for j := i; j > 0 && a[j] < a[j-1]; j-- {
			a[j], a[j-1] = a[j-1], a[j]
		}
	}
}

func strconvQuote(s string) string { return "\"" + s + "\"" }

func ruleR204(p *Program, r *Report) {
	fn := p.Func("logging.processLogFile")
	if fn == nil || fn.Blocks == nil {
		r.Anchor("R20.4", "logging.processLogFile")
		return
	}
	name := fnName(fn)
	bad := ""
	reads := 0
	for _, cs := range callsIn(fn) {
		if cs.Callee == nil || cs.Callee.Pkg() == nil || cs.Callee.Pkg().Path() != "bufio" {
			continue
		}
		switch cs.Callee.Name() {
		case "Scan":
			reads++
			// a scanner is acceptable only if its Err() is returned after the loop
			errReturned := false
			for _, c2 := range callsIn(fn) {
				if c2.Callee != nil && c2.Callee.Name() == "Err" && c2.Callee.Pkg() != nil && c2.Callee.Pkg().Path() == "bufio" {
					if cv, ok := c2.Instr.(*ssa.Call); ok {
						for _, ret := range returnsOf(fn) {
							if backClosure(retValue(ret, 0))[cv] {
								errReturned = true
							}
						}
					}
				}
			}
			if !errReturned {
				bad = "lines are read with a bufio.Scanner whose Err() is never returned: reading stops silently at the first over-long line and the rest of the log is reported verified unseen"
			}
		case "ReadString", "ReadBytes", "ReadLine", "ReadSlice":
			reads++
		}
	}
	if reads == 0 {
		bad = "no line reader found; the function has changed shape"
	}
	// generic: for ReadString-style readers the error is returned on the non-EOF edge
	for _, cs := range callsIn(fn) {
		if cs.Callee == nil || cs.Callee.Pkg() == nil || cs.Callee.Pkg().Path() != "bufio" || !strings.HasPrefix(cs.Callee.Name(), "Read") {
			continue
		}
		cv, ok := cs.Instr.(*ssa.Call)
		if !ok {
			continue
		}
		tup := cv.Type().(*types.Tuple)
		errV := extractOf(cv, tup.Len()-1)
		returned := false
		for _, ret := range returnsOf(fn) {
			if errV != nil && backClosure(retValue(ret, 0))[errV] {
				returned = true
			}
		}
		if !returned {
			bad = "the read error of " + cs.Callee.Name() + " is never returned"
		}
	}
	r.Check(bad == "", "R20.4", name, "every read error but end-of-file is returned", p.Pos(fn.Pos()), "unbounded line reader, error returned", bad)
}

func init() {
	mut("C20", "tag no longer covers the previous tag", "logging/audit_log.go", "	h.Write(input)\n	h.Write(f.previousLogEntryIntegrityCheck)", "	h.Write(input)", "R20.1", "previous tag")
	mut("C20", "key is not ratcheted", "logging/audit_log.go", "	newKey := calculateHash(f.cryptoKey)\n	f.cryptoKey = newKey", "	newKey := calculateHash(f.cryptoKey)\n	_ = newKey", "R20.1", "ratcheted")
	mut("C20", "reset keeps the raw key", "logging/audit_log.go", "	f.cryptoKey = calculateHash(key)\n	f.previousLogEntryIntegrityCheck = nil", "	f.cryptoKey = key\n	f.previousLogEntryIntegrityCheck = nil", "R20.1", "reset")
	mut("C20", "mismatch only logged", "logging/integrity_verifier.go", "			return logEntry, ErrIntegrityNotMatch", "			log.Warningln(ErrIntegrityNotMatch)\n			continue", "R20.2", "mismatch")
	mut("C20", "tags compared over the common prefix", "logging/integrity_verifier.go", "subtle.ConstantTimeCompare(parsedLogEntry.Integrity, calculated) == 0", "subtle.ConstantTimeCompare(parsedLogEntry.Integrity, calculated[:len(parsedLogEntry.Integrity)]) == 0", "R20.2", "whole values")
	mut("C20", "every parse error is skipped", "logging/integrity_verifier.go", "			} else {\n				return logEntry, err\n			}", "			} else {\n				continue\n			}", "R20.2", "skipped")
	mut("C20", "unfinished chain accepted", "logging/integrity_verifier.go", "				if !v.lastVerifiedEntry.IsEndChain {\n					return logEntry, ErrMissingEndOfChain\n				}", "", "R20.2", "unfinished")
	mut("C20", "plaintext parser splits on the first occurrence (original defect)", "logging/log_entry_parser.go", "	tokenIndex := strings.LastIndex(rawData, DataSplitToken)\n	if tokenIndex < 0 {\n		return nil, ErrPlaintextIntegrityExtract\n	}", "	tokenIndex := strings.Index(rawData, DataSplitToken)\n	if tokenIndex < 0 {\n		return nil, ErrPlaintextIntegrityExtract\n	}", "R20.3", "last")
	mut("C20", "writer appends the key before computing the tag", "logging/logging.go", "	integrity, newChain, err := integrityCalculator.CalculateIntegrityCheck(formatted.Bytes())\n	if err != nil {\n		return err\n	}\n	formatted.WriteString(SpaceDelimiter + IntegrityKey + EquallyDelimiter)", "	formatted.WriteString(SpaceDelimiter + IntegrityKey + EquallyDelimiter)\n	integrity, newChain, err := integrityCalculator.CalculateIntegrityCheck(formatted.Bytes())\n	if err != nil {\n		return err\n	}", "R20.3", "formatted bytes")
	mut("C20", "JSON parser keeps the integrity key in the authenticated map", "logging/log_entry_parser.go", "	delete(parsed, IntegrityKey)\n", "", "R20.3", "JSON parser")
	mut("C20", "JSON hook keeps numbers exact, parser does not", "logging/logging.go", "	parsed := make(map[string]interface{})\n	err := json.Unmarshal(formatted.Bytes(), &parsed)\n	if err != nil {\n		return err\n	}\n	// \"integrity\" and", "	parsed := make(map[string]interface{})\n	jd := json.NewDecoder(bytes.NewReader(formatted.Bytes()))\n	jd.UseNumber()\n	err := jd.Decode(&parsed)\n	if err != nil {\n		return err\n	}\n	// \"integrity\" and", "R20.3", "decode the entry the same way")
	mut("C20", "reader back to a scanner without Err (original defect)", "logging/logging.go", "	reader := bufio.NewReader(f)\n	for {\n		line, readErr := reader.ReadString('\\n')\n		if len(line) > 0 {", "	reader := bufio.NewReader(f)\n	sc := bufio.NewScanner(f)\n	for sc.Scan() {\n		_ = sc.Text()\n	}\n	for {\n		line, readErr := reader.ReadString('\\n')\n		if len(line) > 0 {", "R20.4", "read error")
}

// constStrI: constant string, also when boxed into an interface for a comparison.
func constStrI(v ssa.Value) (string, bool) {
	if mi, ok := v.(*ssa.MakeInterface); ok {
		v = mi.X
	}
	return constStringOf(v)
}

// sameCellLoad: the same value, or two loads of the same local variable (a variable whose address is taken is
// re-loaded at every use).
func sameCellLoad(a, b ssa.Value) bool {
	if a == b {
		return true
	}
	ua, ok1 := a.(*ssa.UnOp)
	ub, ok2 := b.(*ssa.UnOp)
	return ok1 && ok2 && ua.X == ub.X
}

func init() {
	mut("C20", "JSON hook authenticates entry fields named like its own keys (original defect)", "logging/logging.go",
		"\t// \"integrity\" and \"chain\":\"new\" are what this hook adds after the computation and what the parser takes out\n\t// before it: a field of the entry that looks the same is kept under another name\n\tif value, ok := parsed[IntegrityKey]; ok {\n\t\tdelete(parsed, IntegrityKey)\n\t\tparsed[freeFieldName(parsed, IntegrityKey)] = value\n\t}\n\tif value, ok := parsed[AuditLogChainKey]; ok && value == NewAuditLogChainValue {\n\t\tdelete(parsed, AuditLogChainKey)\n\t\tparsed[freeFieldName(parsed, AuditLogChainKey)] = value\n\t}\n\tlogEntryDataBytes, err := convertMapToBytes(parsed)\n\tif err != nil {\n\t\treturn err\n\t}\n\tintegrity, newChain, err := h.integrityCalculator.CalculateIntegrityCheck(logEntryDataBytes)\n\tif err != nil {\n\t\treturn err\n\t}\n\tparsed[IntegrityKey] = hex.EncodeToString(integrity)\n\tif newChain {\n\t\tparsed[AuditLogChainKey] = NewAuditLogChainValue\n\t}\n\tnewFormatted, err := json.Marshal(parsed)\n\tif err != nil {\n\t\treturn err\n\t}\n\tformatted.Truncate(0)\n\tformatted.Write(newFormatted)\n\tformatted.WriteString(\"\\n\")\n\treturn nil\n}\n\n// freeFieldName returns a name for a field of the entry that clashes with a key of the hook,\n// the way logrus renames fields that clash with its own keys\nfunc freeFieldName(parsed map[string]interface{}, key string) string {\n\tname := \"fields.\" + key\n\tfor {\n\t\tif _, taken := parsed[name]; !taken {\n\t\t\treturn name\n\t\t}\n\t\tname = \"fields.\" + name\n\t}\n",
		"\tlogEntryDataBytes, err := convertMapToBytes(parsed)\n\tif err != nil {\n\t\treturn err\n\t}\n\tintegrity, newChain, err := h.integrityCalculator.CalculateIntegrityCheck(logEntryDataBytes)\n\tif err != nil {\n\t\treturn err\n\t}\n\tparsed[IntegrityKey] = hex.EncodeToString(integrity)\n\tif newChain {\n\t\tparsed[AuditLogChainKey] = NewAuditLogChainValue\n\t}\n\tnewFormatted, err := json.Marshal(parsed)\n\tif err != nil {\n\t\treturn err\n\t}\n\tformatted.Truncate(0)\n\tformatted.Write(newFormatted)\n\tformatted.WriteString(\"\\n\")\n\treturn nil\n", "R20.3", "JSON writer authenticates the map without")
	mut("C20", "JSON hook moves an entry's chain field aside whatever its value", "logging/logging.go", "	if value, ok := parsed[AuditLogChainKey]; ok && value == NewAuditLogChainValue {", "	if value, ok := parsed[AuditLogChainKey]; ok {", "R20.3", "JSON writer authenticates the map without")
	mut("C20", "JSON hook forgets the look-alike chain=new field", "logging/logging.go", "	if value, ok := parsed[AuditLogChainKey]; ok && value == NewAuditLogChainValue {\n		delete(parsed, AuditLogChainKey)\n		parsed[freeFieldName(parsed, AuditLogChainKey)] = value\n	}\n", "", "R20.3", "JSON writer authenticates the map without")
	mut("C20", "JSON hook renames the look-alike integrity field but leaves it in place", "logging/logging.go", "		delete(parsed, IntegrityKey)\n		parsed[freeFieldName(parsed, IntegrityKey)] = value", "		parsed[freeFieldName(parsed, IntegrityKey)] = value", "R20.3", "JSON writer authenticates the map without")
}
