package main

import (
	"go/token"
	"fmt"
	"go/ast"
	"go/constant"
	"go/types"
	"sort"
	"strings"

	"golang.org/x/tools/go/ssa"
)

func init() {
	register(&Property{ID: "C10", Patterns: []string{"./..."}, Run: runC10})
}

func runC10(p *Program, r *Report) {
	r.Rule("R10.1", "E2", 6, "no silent narrowing: an integer obtained from strconv.ParseInt/ParseUint and converted to a narrower integer type was parsed with a constant bitSize that fits the target (so an out-of-range value is an error, never a wrapped number)")
	ruleR101(p, r)
	r.Rule("R10.2", "E2", 5, "same shape: each type-specific generator returns a value built from a fresh buffer whose length is the length of the value it replaces (strings, bytes, e-mail) or the width of the integer type (4/8 bytes)")
	ruleR102(p, r)
	r.Rule("R10.3", "E3", 4, "insert-if-absent in one critical section: every TokenStorage.Save either delegates to another TokenStorage.Save with the same id, or reports ErrTokenExists on the 'exists' edge with lookup and insertion of the same key inside one lock / one write transaction / one atomic set-if-absent call; the refusal is unconditional (no path from the 'exists' edge reaches the insertion)")
	ruleR103(p, r)
	r.Rule("R10.4", "E3", 6, "consistent mode: the value->token record is looked up and saved under the same key, the key is derived from value, context and type, a lost race (ErrTokenExists) leads back to the lookup at most once, a hit returns the stored token and a successful save returns exactly the token that was saved")
	ruleR104(p, r)
	r.Rule("R10.5", "E4", 7, "type dispatch agreement: every switch over the token type covers the supported types, and in each case the Go type asserted/converted and the token-type constant passed on are the ones the anonymizer pairs with that case")
	ruleR105(p, r)
	r.Rule("R10.6", "E2", 5, "reversible for the owner: generateNewValue stores the original value under the key of the new token and returns that token; Deanonymize looks the token up under the same key construction, checks the stored type, and returns the token itself when nothing is found")
	ruleR106(p, r)
	r.Rule("R10.8", "E3", 2, "a bound value is tokenized once: the loop that replaces bound values by tokens skips an index it has already processed")
	ruleTransformOnce(p, r, "R10.8", []string{"pseudonymization.(*PostgreSQLTokenizeQuery).replaceValuesWithTokenizedData", "pseudonymization.(*MySQLTokenizeQuery).replaceValuesWithTokenizedData"})
	r.Rule("R10.7", "E1", 2, "placeholder positions in the tokenizing Bind handlers are range-checked on both sides (0 <= index < len(values)) where they are recorded")
	ruleBindIndex(p, r, "R10.7", []string{"pseudonymization.(*PostgreSQLTokenizeQuery).OnBind", "pseudonymization.(*MySQLTokenizeQuery).OnBind"})
	r.Rule("R10.9", "E2", 4, "read-modify-write in one transaction: every Bucket.Put of the BoltDB token store writes a value that does not derive from a record read in another transaction closure (a stale write-back undoes a disable or removal committed in between)")
	ruleR109(p, r)
	r.Rule("R10.10", "E2", 6, "re-wrapping keeps the payload: every EmbedMetadata call of the token stores wraps the data handed to the method or the payload ExtractMetadata returned for the stored record, never the stored record itself")
	ruleR1010(p, r)
	r.Rule("R10.11", "E3", 4, "a disabled token is refused by every store: each TokenStorage.Get that reads a record itself tests the record's Disabled flag and every path from the 'disabled' edge returns ErrTokenDisabled; wrappers delegate to the wrapped store")
	ruleR1011(p, r)
}

func intWidth(t types.Type) (bits int, signed bool, ok bool) {
	b, isB := t.Underlying().(*types.Basic)
	if !isB || b.Info()&types.IsInteger == 0 {
		return 0, false, false
	}
	switch b.Kind() {
	case types.Int8:
		return 8, true, true
	case types.Uint8:
		return 8, false, true
	case types.Int16:
		return 16, true, true
	case types.Uint16:
		return 16, false, true
	case types.Int32:
		return 32, true, true
	case types.Uint32:
		return 32, false, true
	case types.Int64, types.Int:
		return 64, true, true
	case types.Uint64, types.Uint, types.Uintptr:
		return 64, false, true
	}
	return 0, false, false
}

func ruleR101(p *Program, r *Report) {
	n := 0
	for _, fn := range p.srcFns {
		if strings.HasSuffix(p.FileOf(fn.Pos()), ".pb.go") {
			continue
		}
		for _, b := range fn.Blocks {
			for _, in := range b.Instrs {
				cv, ok := in.(*ssa.Convert)
				if !ok {
					continue
				}
				tb, _, okT := intWidth(cv.Type())
				sb, _, okS := intWidth(cv.X.Type())
				if !okT || !okS || tb >= sb {
					continue
				}
				ex, isEx := cv.X.(*ssa.Extract)
				if !isEx || ex.Index != 0 {
					continue
				}
				call, isC := ex.Tuple.(*ssa.Call)
				if !isC {
					continue
				}
				co := calleeOfCommon(call.Common())
				if co == nil || co.Pkg() == nil || co.Pkg().Path() != "strconv" || (co.Name() != "ParseInt" && co.Name() != "ParseUint") {
					continue
				}
				n++
				bits, isConst := intConst(call.Common().Args[2])
				ok2 := isConst && bits != 0 && int(bits) <= tb
				r.Check(ok2, "R10.1", fnName(fn), "narrowing "+cv.Type().String()+"("+co.Name()+")", p.Pos(cv.Pos()), "bitSize fits the target", "the value is parsed wider than the type it is converted to: an out-of-range number is wrapped silently instead of being rejected")
			}
		}
	}
	_ = n
}

func ruleR102(p *Program, r *Report) {
	type gen struct {
		spec  string
		fixed int64 // >0: fixed width
	}
	for _, g := range []gen{
		{"pseudonymization.(anonymizer).AnonymizeInt32", 4},
		{"pseudonymization.(anonymizer).AnonymizeInt64", 8},
		{"pseudonymization.(anonymizer).AnonymizeBytes", 0},
		{"pseudonymization.(anonymizer).AnonymizeStr", 0},
		{"pseudonymization.(anonymizer).AnonymizeEmail", 0},
	} {
		fn := p.Func(g.spec)
		if fn == nil || fn.Blocks == nil {
			r.Anchor("R10.2", g.spec)
			continue
		}
		val := fn.Params[1] // receiver, value, context
		bad := ""
		n := 0
		for _, ret := range returnsOf(fn) {
			if !isNilConst(retValue(ret, 1)) {
				continue
			}
			n++
			var mk *ssa.MakeSlice
			var arr *ssa.Alloc // make([]byte, <const>) is lowered to new [N]byte + slice
			nbuf := 0
			for v := range backClosure(retValue(ret, 0)) {
				if m, ok := v.(*ssa.MakeSlice); ok {
					mk = m
					nbuf++
				}
				if a, ok := v.(*ssa.Alloc); ok && a.Heap {
					if _, isArr := a.Type().Underlying().(*types.Pointer).Elem().Underlying().(*types.Array); isArr {
						arr = a
						nbuf++
					}
				}
				if v == ssa.Value(val) {
					bad = "result depends on the original value"
				}
			}
			if nbuf != 1 {
				bad = "result is not built from exactly one fresh buffer"
				continue
			}
			if g.fixed > 0 {
				okW := false
				if mk != nil {
					c, ok := intConst(mk.Len)
					okW = ok && c == g.fixed
				} else {
					okW = arr.Type().Underlying().(*types.Pointer).Elem().Underlying().(*types.Array).Len() == g.fixed
				}
				if !okW {
					bad = "buffer width is not the width of the integer type"
				}
			} else {
				if mk == nil || !isLenOf(mk.Len, val) {
					bad = "buffer length is not len(value)"
				}
			}
		}
		if n == 0 {
			bad = "no success return"
		}
		r.Check(bad == "", "R10.2", fnName(fn), "generated value has the shape of the original", p.Pos(fn.Pos()), "fresh buffer of the original's length", bad)
	}
}

// isLenOf: v is len(x) (through conversions of x).
func isLenOf(v ssa.Value, x ssa.Value) bool {
	c, ok := v.(*ssa.Call)
	if !ok {
		return false
	}
	b, isB := c.Call.Value.(*ssa.Builtin)
	if !isB || b.Name() != "len" {
		return false
	}
	return stripConv(c.Call.Args[0]) == x
}

// ---- R10.3

func ruleR103(p *Program, r *Report) {
	iface := p.Type("pseudonymization/common.TokenStorage")
	if iface == nil {
		r.Anchor("R10.3", "common.TokenStorage")
		return
	}
	it := iface.Type().Underlying().(*types.Interface)
	errExists := p.Lookup("pseudonymization/common.ErrTokenExists")
	n := 0
	for _, pk := range p.Acra {
		if strings.Contains(pk.PkgPath, "/mocks") {
			continue
		}
		for _, name := range pk.Types.Scope().Names() {
			tn, ok := pk.Types.Scope().Lookup(name).(*types.TypeName)
			if !ok || tn.IsAlias() {
				continue
			}
			if _, isI := tn.Type().Underlying().(*types.Interface); isI {
				continue
			}
			pt := types.NewPointer(tn.Type())
			if !types.Implements(pt, it) && !types.Implements(tn.Type(), it) {
				continue
			}
			obj, _, _ := types.LookupFieldOrMethod(pt, true, pk.Types, "Save")
			mf, _ := obj.(*types.Func)
			if mf == nil {
				continue
			}
			fn := p.Func2(mf)
			if fn == nil || fn.Blocks == nil {
				r.Anchor("R10.3", tn.Name()+".Save")
				continue
			}
			n++
			ok2, how := saveIsInsertIfAbsent(p, fn, errExists)
			r.Check(ok2, "R10.3", fnName(fn), "Save is insert-if-absent", p.Pos(fn.Pos()), how, how)
		}
	}
	if n < 4 {
		r.Bad("R10.3", "pseudonymization/storage", "TokenStorage implementations", "-", "fewer Save implementations found than the four confirmed by reading (memory, BoltDB, Redis, encrypting wrapper)")
	}
}

func loadsGlobal(v ssa.Value, g types.Object) bool {
	u, ok := v.(*ssa.UnOp)
	if !ok {
		return false
	}
	gl, ok := u.X.(*ssa.Global)
	return ok && gl.Object() == g
}

// returnsErrExistsOn: blocks that return ErrTokenExists (as the error result).
func returnsGlobalErr(fn *ssa.Function, g types.Object) []*ssa.Return {
	var out []*ssa.Return
	for _, ret := range returnsOf(fn) {
		k := len(ret.Results) - 1
		if k < 0 {
			continue
		}
		if loadsGlobal(retValue(ret, k), g) {
			out = append(out, ret)
		}
	}
	return out
}

func saveIsInsertIfAbsent(p *Program, fn *ssa.Function, errExists types.Object) (bool, string) {
	id := fn.Params[1]
	// (a) delegation: a call to another Save (interface method of TokenStorage) with the id passed through, result returned
	for _, c := range callsIn(fn) {
		if c.Instr.Common().IsInvoke() && c.Instr.Common().Method.Name() == "Save" {
			if len(c.Instr.Common().Args) == 3 && c.Instr.Common().Args[0] == ssa.Value(id) {
				return true, "delegates to the wrapped storage's Save with the same id"
			}
			return false, "delegates to another Save under a different id"
		}
	}
	// (b) atomic set-if-absent call (redis SetNX): no other setter, the false result returns ErrTokenExists
	var setnx []callSite
	for _, c := range callsIn(fn) {
		if c.Callee == nil {
			continue
		}
		switch c.Callee.Name() {
		case "SetNX":
			setnx = append(setnx, c)
		case "Set", "SetXX", "MSet", "HSet", "Append":
			if c.Callee.Pkg() != nil && strings.Contains(c.Callee.Pkg().Path(), "redis") {
				return false, "unconditional " + c.Callee.Name() + " in Save"
			}
		}
	}
	if len(setnx) > 0 {
		if len(returnsGlobalErr(fn, errExists)) == 0 {
			return false, "SetNX result 'not set' does not return ErrTokenExists"
		}
		// the ErrTokenExists return must be on the false edge of the SetNX result
		for _, c := range setnx {
			cv, _ := c.Instr.(*ssa.Call)
			if cv == nil {
				continue
			}
			// set value flows: SetNX(...).Result() -> (bool, error)
			for _, ret := range returnsGlobalErr(fn, errExists) {
				okEdge := false
				for _, i := range allIfs(fn) {
					if !dependsOn(i.Cond, cv) {
						continue
					}
					neg := false
					if u, isU := i.Cond.(*ssa.UnOp); isU && u.Op.String() == "!" {
						neg = true
					}
					falseSucc := i.Block().Succs[1]
					if neg {
						falseSucc = i.Block().Succs[0]
					}
					if _, isBool := i.Cond.Type().Underlying().(*types.Basic); isBool && falseSucc.Dominates(ret.Block()) && isSetFlag(i.Cond, neg) {
						okEdge = true
					}
				}
				if !okEdge {
					return false, "ErrTokenExists is not returned on the 'not set' edge of SetNX"
				}
			}
		}
		return true, "atomic SetNX, 'not set' returns ErrTokenExists"
	}
	// (c) check-then-insert in one critical section, possibly inside a closure passed to a write transaction
	body := fn
	how := ""
	for _, c := range callsIn(fn) {
		if c.Callee != nil && c.Callee.Name() == "Update" && len(c.Instr.Common().Args) >= 2 {
			if mc, ok := c.Instr.Common().Args[1].(*ssa.MakeClosure); ok {
				body = mc.Fn.(*ssa.Function)
				how = "one bolt write transaction"
			}
		}
		if c.Callee != nil && c.Callee.Name() == "View" {
			return false, "Save reads in a separate read transaction"
		}
	}
	if body == fn {
		// needs Lock() ... defer Unlock() on the same mutex, before everything else
		var lock ssa.Instruction
		deferred := false
		for _, c := range callsIn(fn) {
			if c.Callee == nil {
				continue
			}
			if c.Callee.Name() == "Lock" && lock == nil {
				lock = c.Instr
			}
			if _, isD := c.Instr.(*ssa.Defer); isD && c.Callee.Name() == "Unlock" {
				deferred = true
			}
			if _, isD := c.Instr.(*ssa.Defer); !isD && (c.Callee.Name() == "Unlock" || c.Callee.Name() == "RUnlock") {
				return false, "the lock is released inside Save before the function returns"
			}
			if c.Callee.Name() == "RLock" {
				return false, "Save takes only the read lock"
			}
		}
		if lock == nil || !deferred {
			return false, "no exclusive lock held for the whole of Save"
		}
		how = "one exclusive lock (Lock + deferred Unlock)"
		// every map access after the lock
		for _, b := range fn.Blocks {
			for _, in := range b.Instrs {
				switch in.(type) {
				case *ssa.MapUpdate, *ssa.Lookup:
					if !instrBefore(lock, in) {
						return false, "map accessed before the lock is taken"
					}
				}
			}
		}
	}
	rets := returnsGlobalErr(body, errExists)
	if len(rets) == 0 {
		return false, "no path returns ErrTokenExists"
	}
	// the insertion: the last MapUpdate whose map is the per-context map, or bucket.Put
	var inserts []ssa.Instruction
	var insertKey []ssa.Value
	for _, b := range body.Blocks {
		for _, in := range b.Instrs {
			switch v := in.(type) {
			case *ssa.MapUpdate:
				if _, isPtr := v.Value.Type().Underlying().(*types.Pointer); isPtr {
					inserts = append(inserts, in)
					insertKey = append(insertKey, v.Key)
				}
			case *ssa.Call:
				if co := calleeOfCommon(v.Common()); co != nil && co.Name() == "Put" {
					inserts = append(inserts, in)
					insertKey = append(insertKey, v.Common().Args[len(v.Common().Args)-2])
				}
			}
		}
	}
	if len(inserts) != 1 {
		return false, "expected exactly one insertion of the token record"
	}
	ins := inserts[0]
	// an If with: one successor dominating a return of ErrTokenExists, the other dominating the insertion; condition from a lookup with the same key
	for _, i := range allIfs(body) {
		for s := 0; s < 2; s++ {
			a, b := i.Block().Succs[s], i.Block().Succs[1-s]
			domRet := false
			for _, ret := range rets {
				if a.Dominates(ret.Block()) {
					domRet = true
				}
			}
			if !domRet || !b.Dominates(ins.Block()) || a.Dominates(ins.Block()) {
				continue
			}
			// key agreement
			sameKey := false
			for v := range backClosure(i.Cond) {
				switch l := v.(type) {
				case *ssa.Lookup:
					if canonKey(l.Index) == canonKey(insertKey[0]) {
						sameKey = true
					}
				case *ssa.Call:
					if co := calleeOfCommon(l.Common()); co != nil && co.Name() == "Get" && len(l.Common().Args) > 0 && canonKey(l.Common().Args[len(l.Common().Args)-1]) == canonKey(insertKey[0]) {
						sameKey = true
					}
				}
			}
			if !sameKey {
				return false, "existence is checked under a different key than the one inserted"
			}
			// refusal is unconditional: nothing on the 'exists' side leads to the insertion (a found record, whatever its metadata, is never replaced)
			if reaches(a, ins.Block(), nil) {
				return false, "a record found under the key can still be overwritten: a path from the 'exists' edge reaches the insertion instead of returning ErrTokenExists (one token handed out for two values)"
			}
			return true, "lookup and insertion of the same key in " + how + "; the 'exists' edge returns ErrTokenExists"
		}
	}
	return false, "the insertion is not guarded by an existence check that returns ErrTokenExists"
}

// canonKey: a load of a captured variable is identified with the variable.
func canonKey(v ssa.Value) ssa.Value {
	if u, ok := v.(*ssa.UnOp); ok {
		if fv, ok := u.X.(*ssa.FreeVar); ok {
			return fv
		}
	}
	return v
}

func allIfs(fn *ssa.Function) []*ssa.If {
	var out []*ssa.If
	for _, b := range fn.Blocks {
		if len(b.Instrs) == 0 {
			continue
		}
		if i, ok := b.Instrs[len(b.Instrs)-1].(*ssa.If); ok {
			out = append(out, i)
		}
	}
	return out
}

func dependsOn(v ssa.Value, on ssa.Value) bool {
	return backClosure(v)[on]
}

// isSetFlag: cond is `set` or `!set` where set is a bool extracted from a call chain (not an error comparison)
func isSetFlag(cond ssa.Value, neg bool) bool {
	if neg {
		cond = cond.(*ssa.UnOp).X
	}
	_, isEx := cond.(*ssa.Extract)
	return isEx
}

// ---- R10.4

func ruleR104(p *Program, r *Report) {
	spec := "pseudonymization.(*pseudoanonymizer).AnonymizeConsistently"
	fn := p.Func(spec)
	if fn == nil || fn.Blocks == nil {
		r.Anchor("R10.4", spec)
		return
	}
	name := fnName(fn)
	var get, save *ssa.Call
	for _, c := range callsIn(fn) {
		cm := c.Instr.Common()
		if cm.IsInvoke() && cm.Method.Name() == "Get" {
			if get != nil {
				r.Bad("R10.4", name, "single lookup site", p.Pos(c.Instr.Pos()), "more than one storage lookup")
			}
			get, _ = c.Instr.(*ssa.Call)
		}
		if cm.IsInvoke() && cm.Method.Name() == "Save" {
			if save != nil {
				r.Bad("R10.4", name, "single save site", p.Pos(c.Instr.Pos()), "more than one storage save")
			}
			save, _ = c.Instr.(*ssa.Call)
		}
	}
	if get == nil || save == nil {
		r.Anchor("R10.4", spec+" Get/Save calls")
		return
	}
	// (a) same key
	r.Check(get.Common().Args[0] == save.Common().Args[0] && get.Common().Args[1] == save.Common().Args[1], "R10.4", name, "lookup and save use the same key and context", p.Pos(save.Pos()), "same SSA value", "the value->token record is saved under a different key or context than it is looked up with: the same value gets a new token on every request")
	// (b) key derives from data, context, dataType through generateDataID; generateDataID hashes all three
	key := get.Common().Args[0]
	cl := backClosure(key)
	okDeriv := true
	for _, pn := range []string{"data", "context", "dataType"} {
		if prm := paramByName(fn, pn); prm == nil || !cl[prm] {
			okDeriv = false
		}
	}
	r.Check(okDeriv, "R10.4", name, "record key derives from value, context and type", p.Pos(get.Pos()), "all three reach the key", "the value->token key no longer depends on the value, the client context or the token type: different values or different clients share a record")
	// (b') the value reaches the key only through the encoders confirmed injective by reading (frozen table)
	{
		injective := map[string]string{
			"encodeToBytes":      "type-checked byte encoding: fixed-width little endian for integers, the bytes themselves for strings/bytes/e-mail",
			"generateDataID":     "SHA-256 over delimiter, value, context and type",
			"generateKeyForHash": "constant prefix 'h.'",
		}
		var foreign []string
		for v := range cl {
			c, ok := v.(*ssa.Call)
			if !ok {
				continue
			}
			if _, isB := c.Call.Value.(*ssa.Builtin); isB {
				continue
			}
			co := calleeOfCommon(c.Common())
			if co != nil && injective[co.Name()] != "" && co.Pkg() != nil && co.Pkg().Path() == acraMod+"/pseudonymization" {
				continue
			}
			nm := "an indirect call"
			if co != nil {
				nm = co.FullName()
			}
			foreign = append(foreign, nm)
		}
		sort.Strings(foreign)
		r.Check(len(foreign) == 0, "R10.4", name, "value reaches the record key only through injective encoders", p.Pos(get.Pos()), "encodeToBytes -> generateDataID -> generateKeyForHash", "the value passes through "+strings.Join(foreign, ", ")+" before it is hashed into the record key: two different values that this step maps to the same bytes share one token")
		// encodeToBytes itself: only the integer encoders and conversions
		if enc := p.Func("pseudonymization.encodeToBytes"); enc == nil || enc.Blocks == nil {
			r.Anchor("R10.4", "encodeToBytes")
		} else {
			bad := ""
			for _, cs := range callsIn(enc) {
				if _, isB := cs.Instr.Common().Value.(*ssa.Builtin); isB {
					continue
				}
				if cs.Callee == nil || (cs.Callee.Name() != "encodeInt32" && cs.Callee.Name() != "encodeInt64") {
					bad = "calls something other than the fixed-width integer encoders"
				}
			}
			r.Check(bad == "", "R10.4", fnName(enc), "byte encoding is the value itself", p.Pos(enc.Pos()), "conversions and fixed-width integer encoders only", bad)
		}
	}
	gid := p.Func("pseudonymization.(*pseudoanonymizer).generateDataID")
	if gid == nil || gid.Blocks == nil {
		r.Anchor("R10.4", "generateDataID")
	} else {
		hashed := map[ssa.Value]bool{}
		for _, c := range callsIn(gid) {
			cm := c.Instr.Common()
			if cm.IsInvoke() && cm.Method.Name() == "Write" {
				for v := range backClosure(cm.Args[0]) {
					hashed[v] = true
				}
			}
		}
		ok := true
		for _, pn := range []string{"data", "context", "dataType"} {
			if prm := paramByName(gid, pn); prm == nil || !hashed[prm] {
				ok = false
			}
		}
		// the value itself is written, unmodified
		asIs := false
		for _, c := range callsIn(gid) {
			cm := c.Instr.Common()
			if cm.IsInvoke() && cm.Method.Name() == "Write" && cm.Args[0] == ssa.Value(paramByName(gid, "data")) {
				asIs = true
			}
		}
		ok = ok && asIs
		// context: both ClientID and AdditionalContext alternatives are written
		fieldsSeen := map[string]bool{}
		for v := range hashed {
			if _, f, ok := fieldOfLoad(v); ok {
				fieldsSeen[f] = true
			}
			if fa, ok := v.(*ssa.Field); ok {
				fieldsSeen[fa.X.Type().Underlying().(*types.Struct).Field(fa.Field).Name()] = true
			}
		}
		r.Check(ok && fieldsSeen["ClientID"] && fieldsSeen["AdditionalContext"], "R10.4", fnName(gid), "record id hashes value, context and type", p.Pos(gid.Pos()), "data, ClientID/AdditionalContext and dataType are all written to the hash", "the record id is not a function of value, client context and token type")
	}
	// (c) bounded retry: every back edge into the lookup block carries a flag that is true on the back edge, false on entry, and the back edge is only taken when the flag was false
	hdr := get.Block()
	var backPreds []*ssa.BasicBlock
	for _, pb := range hdr.Preds {
		if hdr.Dominates(pb) {
			backPreds = append(backPreds, pb)
		}
	}
	okRetry := len(backPreds) == 1
	if okRetry {
		okRetry = false
		for _, in := range hdr.Instrs {
			phi, ok := in.(*ssa.Phi)
			if !ok {
				continue
			}
			if b, isB := phi.Type().Underlying().(*types.Basic); !isB || b.Kind() != types.Bool {
				continue
			}
			good := true
			for k, pb := range hdr.Preds {
				c, isC := phi.Edges[k].(*ssa.Const)
				if !isC {
					good = false
					break
				}
				val := constant.BoolVal(c.Value)
				if pb == backPreds[0] && !val || pb != backPreds[0] && val {
					good = false
				}
			}
			if !good {
				continue
			}
			// the back edge block is dominated by the false edge of an If on phi
			for _, i := range ifsOn(phi) {
				if i.Block().Succs[1].Dominates(backPreds[0]) && !i.Block().Succs[0].Dominates(backPreds[0]) {
					okRetry = true
				}
			}
		}
	}
	if len(backPreds) == 0 {
		r.Bad("R10.4", name, "lost race retries the lookup", p.Pos(get.Pos()), "a Save that loses the race (ErrTokenExists) no longer goes back to the lookup: concurrent requests for the same value get an error or different tokens")
	} else {
		r.Check(okRetry, "R10.4", name, "lost race retries the lookup at most once", p.Pos(get.Pos()), "back edge guarded by a once-flag", "the retry after ErrTokenExists is not bounded by a once-flag")
	}
	// the back edge is reached only from the ErrTokenExists comparison on the Save result
	if len(backPreds) == 1 {
		errExists := p.Lookup("pseudonymization/common.ErrTokenExists")
		ok := false
		for _, i := range allIfs(fn) {
			bo, isBo := i.Cond.(*ssa.BinOp)
			if !isBo || bo.Op.String() != "==" {
				continue
			}
			if (bo.X == ssa.Value(save) && loadsGlobal(bo.Y, errExists) || bo.Y == ssa.Value(save) && loadsGlobal(bo.X, errExists)) && i.Block().Succs[0].Dominates(backPreds[0]) {
				ok = true
			}
		}
		r.Check(ok, "R10.4", name, "retry only on ErrTokenExists from Save", p.Pos(save.Pos()), "back edge dominated by err == ErrTokenExists", "the lookup is retried on something other than a lost insert race")
	}
	// (d) hit returns the stored token decoded with the requested type; (e) success returns the saved token
	hitOK, saveOK := false, false
	for _, ret := range returnsOf(fn) {
		v := retValue(ret, 0)
		if isNilConst(v) {
			continue
		}
		cl := backClosure(v)
		if ex := extractOf(get, 0); ex != nil && cl[ex] {
			// through bytesToGolangValue with dataType
			for x := range cl {
				if c, ok := x.(*ssa.Call); ok {
					if co := calleeOfCommon(c.Common()); co != nil && co.Name() == "bytesToGolangValue" && c.Common().Args[1] == ssa.Value(paramByName(fn, "dataType")) {
						hitOK = true
					}
				}
			}
			continue
		}
		// success return: the returned value must be the value whose encoding was saved
		if save.Block().Dominates(ret.Block()) && isNilConst(retValue(ret, 1)) {
			if backClosure(save.Common().Args[2])[v] {
				saveOK = true
			} else {
				r.Bad("R10.4", name, "successful save returns the saved token", p.Pos(ret.Pos()), "the token returned after a successful save is not the one that was stored for the value: the next request for the same value returns a different token")
			}
		}
	}
	r.Check(hitOK, "R10.4", name, "hit returns the stored token", p.Pos(get.Pos()), "bytesToGolangValue(Get result, dataType)", "a found record is not what is returned")
	r.Check(saveOK, "R10.4", name, "successful save returns the saved token", p.Pos(save.Pos()), "returned value is the one encoded into the record", "no success return carries the saved token")
}

// ---- R10.5

func ruleR105(p *Program, r *Report) {
	tt := p.Type("pseudonymization/common.TokenType")
	if tt == nil {
		r.Anchor("R10.5", "common.TokenType")
		return
	}
	// supported set from the validation table
	supported := map[string]bool{}
	cpk := p.Pkg("pseudonymization/common")
	for _, f := range cpk.Syntax {
		ast.Inspect(f, func(n ast.Node) bool {
			vs, ok := n.(*ast.ValueSpec)
			if !ok || len(vs.Names) != 1 || vs.Names[0].Name != "supportedTokenTypes" || len(vs.Values) != 1 {
				return true
			}
			if cl, ok := vs.Values[0].(*ast.CompositeLit); ok {
				for _, e := range cl.Elts {
					if kv, ok := e.(*ast.KeyValueExpr); ok {
						if c := constObj(cpk.TypesInfo, kv.Key); c != nil {
							if id, isId := kv.Value.(*ast.Ident); isId && id.Name == "true" {
								supported[c.Name()] = true
							}
						}
					}
				}
			}
			return true
		})
	}
	if len(supported) < 5 {
		r.Anchor("R10.5", "supportedTokenTypes table")
		return
	}
	// reference pairing from anonymizer.Anonymize: case const -> asserted Go type
	ref := map[string]string{}
	type sw struct {
		spec     string
		needAll  bool
		pairKind string // "assert" | "convert" | "none"
	}
	sws := []sw{
		{"pseudonymization.(anonymizer).Anonymize", true, "assert"},
		{"pseudonymization.(*pseudoanonymizer).Anonymize", true, "assert"},
		{"pseudonymization.(*DataTokenizer).Tokenize", true, "const"},
		{"pseudonymization.(*DataTokenizer).Detokenize", true, "const"},
		{"pseudonymization.bytesToGolangValue", true, "none"},
		{"cmd/acra-translator/common.(*TranslatorService).Detokenize", true, "none"},
		{"pseudonymization/common.(TokenType).ToConfigString", true, "none"},
		{"cmd/acra-translator/http_api.prepareDataToTokenization", true, "none"},
	}
	for k, s := range sws {
		obj := p.FuncObj(s.spec)
		if obj == nil {
			r.Anchor("R10.5", s.spec)
			continue
		}
		fd, pk := p.FuncDecl(obj)
		if fd == nil {
			r.Anchor("R10.5", s.spec+" (declaration)")
			continue
		}
		var found *ast.SwitchStmt
		ast.Inspect(fd.Body, func(n ast.Node) bool {
			if st, ok := n.(*ast.SwitchStmt); ok && found == nil && st.Tag != nil {
				if tv, ok := pk.TypesInfo.Types[st.Tag]; ok && types.Identical(tv.Type, tt.Type()) {
					found = st
					return false
				}
			}
			return true
		})
		if found == nil {
			r.Bad("R10.5", funcFullName(obj), "switch over the token type", p.Pos(fd.Pos()), "no switch over common.TokenType found")
			continue
		}
		cases, _ := switchCaseConsts(pk.TypesInfo, found)
		have := map[string]bool{}
		for c := range cases {
			have[c.Name()] = true
		}
		var missing []string
		for s := range supported {
			if !have[s] {
				missing = append(missing, s)
			}
		}
		sort.Strings(missing)
		r.Check(len(missing) == 0, "R10.5", funcFullName(obj), "covers the supported token types", p.Pos(found.Pos()), "all supported types have a case", "no case for "+strings.Join(missing, ", ")+": a column of that type is refused or passes through untokenized")
		// pairing
		for c, cc := range cases {
			if !supported[c.Name()] || len(cc.List) != 1 {
				continue
			}
			switch s.pairKind {
			case "assert":
				var asserted string
				ast.Inspect(cc, func(n ast.Node) bool {
					if ta, ok := n.(*ast.TypeAssertExpr); ok && ta.Type != nil && asserted == "" {
						asserted = types.TypeString(pk.TypesInfo.TypeOf(ta.Type), nil)
					}
					return true
				})
				if k == 0 {
					ref[c.Name()] = asserted
					r.Check(asserted != "", "R10.5", funcFullName(obj), "case "+c.Name()+" asserts a Go type", p.Pos(cc.Pos()), asserted, "no type assertion in the case")
				} else {
					r.Check(asserted == ref[c.Name()], "R10.5", funcFullName(obj), "case "+c.Name()+" pairs with the same Go type", p.Pos(cc.Pos()), asserted, "asserts "+asserted+" where the anonymizer pairs the type with "+ref[c.Name()])
				}
			case "const":
				// every TokenType constant mentioned in the case body is the case's own constant; the result assertion matches ref
				bad := ""
				for _, st := range cc.Body {
					ast.Inspect(st, func(n ast.Node) bool {
						if e, ok := n.(ast.Expr); ok {
							if o := constObj(pk.TypesInfo, e); o != nil && types.Identical(o.Type(), tt.Type()) && o != c {
								if _, isSel := e.(*ast.SelectorExpr); isSel {
									bad = "passes " + o.Name() + " in the case for " + c.Name()
								}
							}
						}
						if ta, ok := n.(*ast.TypeAssertExpr); ok && ta.Type != nil {
							if got := types.TypeString(pk.TypesInfo.TypeOf(ta.Type), nil); got != ref[c.Name()] {
								bad = "asserts " + got + " where the anonymizer pairs the type with " + ref[c.Name()]
							}
						}
						return true
					})
				}
				r.Check(bad == "", "R10.5", funcFullName(obj), "case "+c.Name()+" passes its own type on", p.Pos(cc.Pos()), "constant and asserted type agree with the case", bad)
			}
		}
	}
	// encodeToBytes: type switch pairs Go type with TokenType constant
	if obj := p.FuncObj("pseudonymization.encodeToBytes"); obj == nil {
		r.Anchor("R10.5", "encodeToBytes")
	} else if fd, pk := p.FuncDecl(obj); fd != nil {
		inv := map[string]string{}
		for c, t := range ref {
			inv[t] = c
		}
		seen := 0
		ast.Inspect(fd.Body, func(n ast.Node) bool {
			ts, ok := n.(*ast.TypeSwitchStmt)
			if !ok {
				return true
			}
			for _, st := range ts.Body.List {
				cc := st.(*ast.CaseClause)
				if len(cc.List) != 1 {
					continue
				}
				gt := types.TypeString(pk.TypesInfo.TypeOf(cc.List[0]), nil)
				want, known := inv[gt]
				if !known {
					continue
				}
				seen++
				got := ""
				ast.Inspect(cc, func(m ast.Node) bool {
					if e, ok := m.(*ast.SelectorExpr); ok {
						if o := constObj(pk.TypesInfo, e); o != nil && types.Identical(o.Type(), tt.Type()) {
							got = o.Name()
						}
					}
					return true
				})
				r.Check(got == want, "R10.5", funcFullName(obj), "Go type "+gt+" pairs with "+want, p.Pos(cc.Pos()), "agrees with the anonymizer", "encodeToBytes accepts "+gt+" for "+got+" where the anonymizer pairs it with "+want)
			}
			return false
		})
		if seen < 5 {
			r.Bad("R10.5", funcFullName(obj), "type switch covers the five Go types", p.Pos(fd.Pos()), "encodeToBytes no longer covers every Go type the anonymizer produces")
		}
	}
}

// ---- R10.6

func ruleR106(p *Program, r *Report) {
	gen := p.Func("pseudonymization.(*pseudoanonymizer).generateNewValue")
	de := p.Func("pseudonymization.(*pseudoanonymizer).Deanonymize")
	if gen == nil || gen.Blocks == nil || de == nil || de.Blocks == nil {
		r.Anchor("R10.6", "generateNewValue / Deanonymize")
		return
	}
	keyShape := func(fn *ssa.Function, key ssa.Value) (fromTokenKey bool, idArg ssa.Value) {
		for v := range backClosure(key) {
			if c, ok := v.(*ssa.Call); ok {
				if co := calleeOfCommon(c.Common()); co != nil {
					if co.Name() == "generateKeyForToken" {
						fromTokenKey = true
					}
					if co.Name() == "generateDataID" {
						idArg = c.Common().Args[1]
					}
				}
			}
		}
		return
	}
	// generateNewValue
	{
		name := fnName(gen)
		var save *ssa.Call
		for _, c := range callsIn(gen) {
			if cm := c.Instr.Common(); cm.IsInvoke() && cm.Method.Name() == "Save" {
				save, _ = c.Instr.(*ssa.Call)
			}
		}
		if save == nil {
			r.Anchor("R10.6", "generateNewValue Save call")
		} else {
			tk, idArg := keyShape(gen, save.Common().Args[0])
			// new value = result 0 of the call of f
			var newVal ssa.Value
			for _, c := range callsIn(gen) {
				if c.Instr.Common().Value == ssa.Value(gen.Params[1]) { // f
					if cv, ok := c.Instr.(*ssa.Call); ok {
						newVal = extractOf(cv, 0)
					}
				}
			}
			valueP := paramByName(gen, "value")
			encodes := func(v ssa.Value, of ssa.Value) bool {
				ex, ok := v.(*ssa.Extract)
				if !ok || ex.Index != 0 {
					return false
				}
				c, ok := ex.Tuple.(*ssa.Call)
				if !ok {
					return false
				}
				co := calleeOfCommon(c.Common())
				return co != nil && co.Name() == "encodeToBytes" && c.Common().Args[0] == of
			}
			okKey := tk && idArg != nil && newVal != nil && encodes(idArg, newVal)
			r.Check(okKey, "R10.6", name, "record key is built from the new token", p.Pos(save.Pos()), "t.+id(encode(newValue))", "the token->value record is not keyed by the generated token")
			dcl := backClosure(save.Common().Args[2])
			okData := false
			for v := range dcl {
				if encodes(v, valueP) {
					okData = true
				}
			}
			r.Check(okData && (newVal == nil || !dcl[newVal]), "R10.6", name, "record data is the original value", p.Pos(save.Pos()), "encode(value) with its type", "the record stored for a token does not hold the original value")
			okRet := false
			for _, ret := range returnsOf(gen) {
				if isNilConst(retValue(ret, 1)) && save.Block().Dominates(ret.Block()) {
					okRet = retValue(ret, 0) == newVal
				}
			}
			r.Check(okRet, "R10.6", name, "returns the token that was stored", p.Pos(save.Pos()), "return newValue", "the value returned is not the token whose record was saved")
			// collision: ErrTokenExists leads to another iteration, bounded by the loop limit
			errExists := p.Lookup("pseudonymization/common.ErrTokenExists")
			okLoop := false
			for _, i := range allIfs(gen) {
				if bo, ok := i.Cond.(*ssa.BinOp); ok && bo.Op.String() == "==" && (loadsGlobal(bo.Y, errExists) || loadsGlobal(bo.X, errExists)) {
					// true successor reaches the loop header again without returning
					if reaches(i.Block().Succs[0], save.Block(), nil) {
						okLoop = true
					}
				}
			}
			r.Check(okLoop, "R10.6", name, "token collision regenerates", p.Pos(save.Pos()), "ErrTokenExists -> next iteration", "a generated token that already exists is not regenerated: two values would share a token or the request fails on the first collision")
		}
	}
	// Deanonymize
	{
		name := fnName(de)
		var get *ssa.Call
		for _, c := range callsIn(de) {
			if cm := c.Instr.Common(); cm.IsInvoke() && cm.Method.Name() == "Get" {
				get, _ = c.Instr.(*ssa.Call)
			}
		}
		if get == nil {
			r.Anchor("R10.6", "Deanonymize Get call")
			return
		}
		tk, idArg := keyShape(de, get.Common().Args[0])
		tokenP := paramByName(de, "token")
		cl := backClosure(get.Common().Args[0])
		r.Check(tk && idArg != nil && cl[tokenP] && cl[paramByName(de, "context")] && cl[paramByName(de, "dataType")], "R10.6", name, "lookup key is built from the token", p.Pos(get.Pos()), "t.+id(encode(token), context, type)", "the lookup key is not the one generateNewValue stores under")
		// miss: returns token, nil
		errV := extractOf(get, 1)
		okMiss := false
		for _, i := range allIfs(de) {
			_, nonNil, ok := nilBranches(i, errV)
			if !ok {
				continue
			}
			for _, ret := range returnsOf(de) {
				if nonNil.Dominates(ret.Block()) {
					v := retValue(ret, 0)
					okMiss = v == ssa.Value(tokenP) && isNilConst(retValue(ret, 1))
				}
			}
		}
		r.Check(okMiss, "R10.6", name, "unknown token is returned as is", p.Pos(get.Pos()), "return token, nil on a miss", "a token that is not found (other client, unknown token) is not returned unchanged")
		// type check before decoding
		okType := false
		for _, c := range callsIn(de) {
			if c.Callee != nil && c.Callee.Name() == "bytesToGolangValue" {
				for _, i := range allIfs(de) {
					bo, ok := i.Cond.(*ssa.BinOp)
					if !ok || (bo.Op.String() != "!=" && bo.Op.String() != "==") {
						continue
					}
					if bo.X != ssa.Value(paramByName(de, "dataType")) && bo.Y != ssa.Value(paramByName(de, "dataType")) {
						continue
					}
					succ := i.Block().Succs[1]
					if bo.Op.String() == "==" {
						succ = i.Block().Succs[0]
					}
					if succ.Dominates(c.Block) {
						okType = true
					}
				}
			}
		}
		r.Check(okType, "R10.6", name, "stored type is checked before decoding", p.Pos(de.Pos()), "tokenValue.Type == dataType dominates the decode", "a record of another token type is decoded as the requested type")
	}
}

func init() {
	mut("C10", "int32 token column parsed as 64-bit again (original defect)", "pseudonymization/dataTokenizer.go", "		i, err := strconv.ParseInt(string(data), 10, 32)\n		if err != nil {\n			return nil, err\n		}\n		newVal, err := anonymize(", "		i, err := strconv.ParseInt(string(data), 10, 64)\n		if err != nil {\n			return nil, err\n		}\n		newVal, err := anonymize(", "R10.1", "narrowing")
	mut("C10", "string token one byte longer than the original", "pseudonymization/tokenizer.go", "func (a anonymizer) AnonymizeStr(value string, context common.TokenContext) (string, error) {\n	data := make([]byte, len(value))", "func (a anonymizer) AnonymizeStr(value string, context common.TokenContext) (string, error) {\n	data := make([]byte, len(value)+1)", "R10.2", "AnonymizeStr")
	mut("C10", "int32 token generated from 8 random bytes", "pseudonymization/tokenizer.go", "	data := make([]byte, 32/8)", "	data := make([]byte, 64/8)", "R10.2", "AnonymizeInt32")
	mut("C10", "memory store overwrites an existing record", "pseudonymization/storage/memory.go", "	_, ok = ctxMap[idStr]\n	if ok {\n		return common.ErrTokenExists\n	}\n	ctxMap[idStr] =", "	ctxMap[idStr] =", "R10.3", "MemoryTokenStorage")
	mut("C10", "memory store lets a disabled record be replaced (seed C10-5)", "pseudonymization/storage/memory.go", "	_, ok = ctxMap[idStr]\n	if ok {\n		return common.ErrTokenExists\n	}", "	if existing, ok := ctxMap[idStr]; ok && !existing.metadata.Disabled {\n		return common.ErrTokenExists\n	}", "R10.3", "MemoryTokenStorage")
	mut("C10", "bolt store refuses only a non-empty existing record", "pseudonymization/storage/boltdb.go", "		if ctxBucket.Get(id) != nil {\n			return common.ErrTokenExists\n		}", "		if old := ctxBucket.Get(id); old != nil && len(old) > 0 {\n			return common.ErrTokenExists\n		}", "R10.3", "boltdbStorage")
	mut("C10", "memory store checks under the read lock and inserts later", "pseudonymization/storage/memory.go", "func (m *MemoryTokenStorage) Save(id []byte, context common.TokenContext, data []byte) error {\n	m.mutex.Lock()\n	defer m.mutex.Unlock()", "func (m *MemoryTokenStorage) Save(id []byte, context common.TokenContext, data []byte) error {\n	m.mutex.RLock()\n	defer m.mutex.RUnlock()", "R10.3", "MemoryTokenStorage")
	mut("C10", "bolt store overwrites an existing record", "pseudonymization/storage/boltdb.go", "		if ctxBucket.Get(id) != nil {\n			return common.ErrTokenExists\n		}\n		value := common.EmbedMetadata(data, common.NewTokenMetadata())", "		value := common.EmbedMetadata(data, common.NewTokenMetadata())", "R10.3", "boltdbStorage")
	mut("C10", "redis store ignores the 'not set' answer", "pseudonymization/storage/redis.go", "	if !set {\n		return common.ErrTokenExists\n	}\n	return nil\n}", "	_ = set\n	return nil\n}", "R10.3", "RedisStorage")
	mut("C10", "consistent record saved under the token prefix", "pseudonymization/tokenizer.go", "	if err := p.storage.Save(digestKey, context, encodedNewValue); err != nil {", "	if err := p.storage.Save(p.generateKeyForToken(digest), context, encodedNewValue); err != nil {", "R10.4", "same key")
	mut("C10", "lost race is never retried", "pseudonymization/tokenizer.go", "		if err == common.ErrTokenExists && !triedGetOnce {", "		if err == common.ErrTokenExists && triedGetOnce {", "R10.4", "at most once")
	mut("C10", "record id ignores the client context", "pseudonymization/tokenizer.go", "		h.Write([]byte(`client`))\n		h.Write(context.ClientID)\n	}\n	h.Write(dataIDDelim)", "		h.Write([]byte(`client`))\n	}\n	h.Write(dataIDDelim)", "R10.4", "hashes value, context and type")
	mut("C10", "consistent key takes a lower-cased copy of string values", "pseudonymization/tokenizer.go", "	dataBytes, err := encodeToBytes(data, dataType)\n	if err != nil {\n		return nil, err\n	}\n	digest, err := p.generateDataID(dataBytes, context, dataType)", "	dataBytes, err := encodeToBytes(data, dataType)\n	if err != nil {\n		return nil, err\n	}\n	dataBytes = []byte(strconv.Quote(string(dataBytes)))[:len(dataBytes)]\n	digest, err := p.generateDataID(dataBytes, context, dataType)", "R10.4", "injective encoders")
	mut("C10", "Tokenize passes Int64 for an Int32 column", "pseudonymization/dataTokenizer.go", "		newVal, err := anonymize(int32(i), context, common.TokenType_Int32)", "		newVal, err := anonymize(int32(i), context, common.TokenType_Int64)", "R10.5", "Int32")
	mut("C10", "Detokenize loses the e-mail case", "pseudonymization/dataTokenizer.go", "	case common.TokenType_Email:\n		newVal, err := t.tokenizer.Deanonymize(common.Email(data), context, common.TokenType_Email)\n		if err != nil {\n			return nil, err\n		}\n		return []byte(newVal.(common.Email)), nil\n", "", "R10.5", "Detokenize")
	mut("C10", "token record keyed by the original value", "pseudonymization/tokenizer.go", "		encodedNewValue, err := encodeToBytes(newValue, dataType)\n		if err != nil {\n			return nil, err\n		}\n		key, err := p.generateDataID(encodedNewValue, context, dataType)", "		encodedNewValue, err := encodeToBytes(value, dataType)\n		if err != nil {\n			return nil, err\n		}\n		key, err := p.generateDataID(encodedNewValue, context, dataType)", "R10.6", "record key")
	mut("C10", "unknown token becomes an error", "pseudonymization/tokenizer.go", "		p.logger.Warningln(\"Token not found, return as is\")\n		return token, nil", "		p.logger.Warningln(\"Token not found, return as is\")\n		return nil, err", "R10.6", "unknown token")
	mut("C10", "stored type no longer checked", "pseudonymization/tokenizer.go", "	if tokenValue.Type != dataType {\n		return nil, ErrDataTypeMismatch\n	}\n", "", "R10.6", "stored type")
	mut("C10", "mysql: repeated placeholder tokenized twice (original defect)", "pseudonymization/mysql_tokenize_query.go", "		if _, done := processed[valueIndex]; done {\n			continue\n		}\n", "", "R10.8", "transformed once")
	mut("C10", "pg tokenizer OnBind: lower bound dropped (original defect)", "pseudonymization/postgresql_tokenize_query.go", "		if index < 0 || index >= len(values) {", "		if index >= len(values) {", "R10.7", "OnBind")
}

// ---- R10.9: a record is read, changed and written back inside one bolt write transaction.
// Every Bucket.Put in the BoltDB token store writes a value that does not derive from a read (Bucket.Get, a cursor)
// made in another transaction closure: such a value is stale by the time it is written and silently undoes whatever
// was committed in between (a token disabled or removed by maintenance comes back).
func ruleR109(p *Program, r *Report) {
	const file = "pseudonymization/storage/boltdb.go"
	isBolt := func(c *ssa.Call, names ...string) bool {
		co := calleeOfCommon(c.Common())
		if co == nil || co.Pkg() == nil || !strings.HasSuffix(co.Pkg().Path(), "bbolt") {
			return false
		}
		for _, n := range names {
			if co.Name() == n {
				return true
			}
		}
		return false
	}
	// txRead: v derives, inside its own function, from a bolt read
	txRead := func(v ssa.Value) bool {
		for x := range backClosure(v) {
			if c, ok := x.(*ssa.Call); ok && isBolt(c, "Get", "First", "Next", "Last", "Prev", "Seek") {
				return true
			}
		}
		return false
	}
	n := 0
	for _, fn := range p.srcFns {
		if p.FileOf(fn.Pos()) != file {
			continue
		}
		for _, b := range fn.Blocks {
			for _, in := range b.Instrs {
				c, ok := in.(*ssa.Call)
				if !ok || !isBolt(c, "Put") || len(c.Call.Args) < 3 {
					continue
				}
				n++
				bad := ""
				for x := range backClosure(c.Call.Args[2]) {
					fv, ok := x.(*ssa.FreeVar)
					if !ok || fn.Parent() == nil {
						continue
					}
					cell := bindingOf(fn, fv)
					al, isCell := cell.(*ssa.Alloc)
					if !isCell {
						continue
					}
					// every other closure of the parent that captures the same cell and stores into it
					for _, pb := range fn.Parent().Blocks {
						for _, pin := range pb.Instrs {
							mc, ok := pin.(*ssa.MakeClosure)
							if !ok {
								continue
							}
							g := mc.Fn.(*ssa.Function)
							if g == fn {
								continue
							}
							for j, bnd := range mc.Bindings {
								if bnd != ssa.Value(al) || j >= len(g.FreeVars) {
									continue
								}
								for _, gb := range g.Blocks {
									for _, gin := range gb.Instrs {
										if st, ok := gin.(*ssa.Store); ok && st.Addr == ssa.Value(g.FreeVars[j]) && txRead(st.Val) {
											bad = "the value written derives from `" + fv.Name() + "`, which " + fnName(g) + " (another transaction) computed from a record it read at " + p.Pos(st.Pos()) + ": anything committed in between (disable, remove) is overwritten with the older state"
										}
									}
								}
							}
						}
					}
				}
				r.Check(bad == "", "R10.9", fnName(fn), "Put writes a record read in the same transaction", p.Pos(c.Pos()), "the written value derives from the method's arguments and from reads of this transaction only", bad)
			}
		}
	}
	if n < 4 {
		r.Bad("R10.9", file, "Put call sites", "-", fmt.Sprintf("%d Bucket.Put call sites found, 4 confirmed by reading (Save, Get, visitBucket x2)", n))
	}
}

// bindingOf: the value the parent binds to free variable fv when it creates closure fn.
func bindingOf(fn *ssa.Function, fv *ssa.FreeVar) ssa.Value {
	idx := -1
	for i, f := range fn.FreeVars {
		if f == fv {
			idx = i
		}
	}
	if idx < 0 || fn.Parent() == nil {
		return nil
	}
	for _, b := range fn.Parent().Blocks {
		for _, in := range b.Instrs {
			if mc, ok := in.(*ssa.MakeClosure); ok && mc.Fn == ssa.Value(fn) && idx < len(mc.Bindings) {
				return mc.Bindings[idx]
			}
		}
	}
	return nil
}

func init() {
	mut("C10", "bolt Get writes back the record it read in the earlier read-only transaction (original defect)", "pseudonymization/storage/boltdb.go",
		"\tvar accessTimeUpdate bool\n\tvar now time.Time\n\tctx := common.AggregateTokenContextToBytes(context)\n\terr := b.db.View(func(tx *bolt.Tx) error {\n\t\tbucket := tx.Bucket(tokenBucket)\n\t\tif bucket == nil {\n\t\t\treturn common.ErrTokenNotFound\n\t\t}\n\t\tctxBucket := bucket.Bucket(ctx)\n\t\tif ctxBucket == nil {\n\t\t\treturn common.ErrTokenNotFound\n\t\t}\n\t\tencoded := ctxBucket.Get(id)\n\t\tif encoded == nil {\n\t\t\treturn common.ErrTokenNotFound\n\t\t}\n\t\tdata, metadata, err := common.ExtractMetadata(encoded)\n\t\tif err != nil {\n\t\t\treturn err\n\t\t}\n\t\t// If the token is disabled, pretend that it's not there. (Don't update last access time either.)\n\t\tif metadata.Disabled {\n\t\t\treturn common.ErrTokenDisabled\n\t\t}\n\t\t// Keep last access time updated, but don't update it more often than specified granularity.\n\t\tnow = time.Now().UTC()\n\t\taccessTimeUpdate = metadata.AccessedBefore(now, b.accessGranularity)\n\t\tvalue = data\n\t\treturn nil\n\t})\n\tif err != nil {\n\t\treturn nil, err\n\t}\n\t// If metadata update is needed, open a separate writeable transaction to perform it.\n\tif accessTimeUpdate {\n\t\terr := b.db.Update(func(tx *bolt.Tx) error {\n\t\t\tbucket := tx.Bucket(tokenBucket)\n\t\t\tif bucket == nil {\n\t\t\t\treturn common.ErrTokenNotFound\n\t\t\t}\n\t\t\tctxBucket := bucket.Bucket(ctx)\n\t\t\tif ctxBucket == nil {\n\t\t\t\treturn common.ErrTokenNotFound\n\t\t\t}\n\t\t\t// The token may have been disabled or removed since it was read: look again,\n\t\t\t// so that the access time update never brings an older state of the entry back.\n\t\t\tencoded := ctxBucket.Get(id)\n\t\t\tif encoded == nil {\n\t\t\t\treturn common.ErrTokenNotFound\n\t\t\t}\n\t\t\tdata, metadata, err := common.ExtractMetadata(encoded)\n\t\t\tif err != nil {\n\t\t\t\treturn err\n\t\t\t}\n\t\t\tif metadata.Disabled {\n\t\t\t\treturn common.ErrTokenDisabled\n\t\t\t}\n\t\t\tmetadata.Accessed = now\n\t\t\treturn ctxBucket.Put(id, common.EmbedMetadata(data, metadata))\n",
		"\tvar updatedMetadata []byte\n\tctx := common.AggregateTokenContextToBytes(context)\n\terr := b.db.View(func(tx *bolt.Tx) error {\n\t\tbucket := tx.Bucket(tokenBucket)\n\t\tif bucket == nil {\n\t\t\treturn common.ErrTokenNotFound\n\t\t}\n\t\tctxBucket := bucket.Bucket(ctx)\n\t\tif ctxBucket == nil {\n\t\t\treturn common.ErrTokenNotFound\n\t\t}\n\t\tencoded := ctxBucket.Get(id)\n\t\tif encoded == nil {\n\t\t\treturn common.ErrTokenNotFound\n\t\t}\n\t\tdata, metadata, err := common.ExtractMetadata(encoded)\n\t\tif err != nil {\n\t\t\treturn err\n\t\t}\n\t\t// If the token is disabled, pretend that it's not there. (Don't update last access time either.)\n\t\tif metadata.Disabled {\n\t\t\treturn common.ErrTokenDisabled\n\t\t}\n\t\t// Keep last access time updated, but don't update it more often than specified granularity.\n\t\tnow := time.Now().UTC()\n\t\tif metadata.AccessedBefore(now, b.accessGranularity) {\n\t\t\tmetadata.Accessed = now\n\t\t\tupdatedMetadata = common.EmbedMetadata(data, metadata)\n\t\t}\n\t\tvalue = data\n\t\treturn nil\n\t})\n\tif err != nil {\n\t\treturn nil, err\n\t}\n\t// If metadata update is needed, open a separate writeable transaction to perform it.\n\tif updatedMetadata != nil {\n\t\terr := b.db.Update(func(tx *bolt.Tx) error {\n\t\t\tbucket := tx.Bucket(tokenBucket)\n\t\t\tif bucket == nil {\n\t\t\t\treturn common.ErrTokenNotFound\n\t\t\t}\n\t\t\tctxBucket := bucket.Bucket(ctx)\n\t\t\tif ctxBucket == nil {\n\t\t\t\treturn common.ErrTokenNotFound\n\t\t\t}\n\t\t\treturn ctxBucket.Put(id, updatedMetadata)\n", "R10.9", "Get$")
}

// ---- R10.10: what is wrapped again is the payload, not the container.
// Every common.EmbedMetadata call of the token stores wraps either the data the method was given (Save) or the
// payload that common.ExtractMetadata returned for the stored record; wrapping the stored record itself nests the
// container, and every later read returns the inner container instead of the original value.
func ruleR1010(p *Program, r *Report) {
	embed := p.FuncObj("pseudonymization/common.EmbedMetadata")
	extract := p.FuncObj("pseudonymization/common.ExtractMetadata")
	if embed == nil || extract == nil {
		r.Anchor("R10.10", "common.EmbedMetadata / ExtractMetadata")
		return
	}
	for _, fn := range p.srcFns {
		if !strings.HasPrefix(p.FileOf(fn.Pos()), "pseudonymization/storage/") {
			continue
		}
		for _, b := range fn.Blocks {
			for _, in := range b.Instrs {
				c, ok := in.(*ssa.Call)
				if !ok || calleeOfCommon(c.Common()) != embed {
					continue
				}
				arg := c.Call.Args[0]
				ok2, how := false, "the wrapped value is neither the method's argument nor the payload returned by ExtractMetadata"
				switch x := arg.(type) {
				case *ssa.Parameter, *ssa.FreeVar:
					ok2, how = true, "wraps the data handed to the method"
				case *ssa.UnOp:
					// a parameter of the method captured by reference (its cell holds nothing but the parameter)
					if fv, isFV := x.X.(*ssa.FreeVar); isFV && x.Op == token.MUL {
						if al, isAl := bindingOf(fn, fv).(*ssa.Alloc); isAl && al.Referrers() != nil {
							n, onlyParam := 0, true
							for _, rf := range *al.Referrers() {
								if st, isSt := rf.(*ssa.Store); isSt && st.Addr == ssa.Value(al) {
									n++
									if _, isP := st.Val.(*ssa.Parameter); !isP {
										onlyParam = false
									}
								}
							}
							if n > 0 && onlyParam {
								ok2, how = true, "wraps the data handed to the method"
							}
						}
					}
				case *ssa.Extract:
					if tc, isC := x.Tuple.(*ssa.Call); isC && calleeOfCommon(tc.Common()) == extract && x.Index == 0 {
						ok2, how = true, "wraps the payload ExtractMetadata returned"
					}
				}
				r.Check(ok2, "R10.10", fnName(fn), "EmbedMetadata wraps the payload", p.Pos(c.Pos()), how, how+" ("+exprTextOf(p, arg)+"): a stored record wrapped again nests the container, and every later Get returns the inner container instead of the value")
			}
		}
	}
}

func init() {
	mut("C10", "bolt Get refreshes the access time by wrapping the stored record again", "pseudonymization/storage/boltdb.go", "			return ctxBucket.Put(id, common.EmbedMetadata(data, metadata))", "			_ = data\n			return ctxBucket.Put(id, common.EmbedMetadata(encoded, metadata))", "R10.10", "Get")
	mut("C10", "bolt maintenance re-wraps the stored record when disabling", "pseudonymization/storage/boltdb.go", "				metadata.Disabled = true\n				value := common.EmbedMetadata(data, metadata)", "				metadata.Disabled = true\n				value := common.EmbedMetadata(v, metadata)", "R10.10", "visitBucket")
}

// ---- R10.11: a disabled token is not handed out by any store.
// Every TokenStorage.Get that reads a record itself (not a wrapper delegating to another store) tests the Disabled
// flag of the record's metadata and leaves with ErrTokenDisabled on that edge; no success return (nil error) is
// reachable from the 'disabled' edge.
func ruleR1011(p *Program, r *Report) {
	iface := p.Type("pseudonymization/common.TokenStorage")
	errDisabled := p.Lookup("pseudonymization/common.ErrTokenDisabled")
	if iface == nil || errDisabled == nil {
		r.Anchor("R10.11", "common.TokenStorage / ErrTokenDisabled")
		return
	}
	it := iface.Type().Underlying().(*types.Interface)
	n := 0
	for _, pk := range p.Acra {
		if strings.Contains(pk.PkgPath, "/mocks") {
			continue
		}
		for _, name := range pk.Types.Scope().Names() {
			tn, ok := pk.Types.Scope().Lookup(name).(*types.TypeName)
			if !ok || tn.IsAlias() {
				continue
			}
			if _, isI := tn.Type().Underlying().(*types.Interface); isI {
				continue
			}
			pt := types.NewPointer(tn.Type())
			if !types.Implements(pt, it) && !types.Implements(tn.Type(), it) {
				continue
			}
			obj, _, _ := types.LookupFieldOrMethod(pt, true, pk.Types, "Get")
			mf, _ := obj.(*types.Func)
			if mf == nil {
				continue
			}
			fn := p.Func2(mf)
			if fn == nil || fn.Blocks == nil {
				r.Anchor("R10.11", tn.Name()+".Get")
				continue
			}
			// a wrapper: delegates to another TokenStorage.Get
			delegates := false
			fns := []*ssa.Function{fn}
			fns = append(fns, fn.AnonFuncs...)
			for _, f := range fns {
				for _, cs := range callsIn(f) {
					if cs.Instr.Common().IsInvoke() && cs.Instr.Common().Method.Name() == "Get" && types.Implements(cs.Instr.Common().Value.Type(), it) {
						delegates = true
					}
				}
			}
			n++
			if delegates {
				r.OK("R10.11", fnName(fn), "disabled token is refused", p.Pos(fn.Pos()), "delegates to the wrapped store's Get")
				continue
			}
			// in the method or its closures: an If on a load of field Disabled whose true edge returns ErrTokenDisabled only
			tests, okAll := 0, true
			for _, f := range fns {
				errIdx := f.Signature.Results().Len() - 1
				if errIdx < 0 || !isErrorType(f.Signature.Results().At(errIdx).Type()) {
					continue
				}
				for _, b := range f.Blocks {
					iff, ok := b.Instrs[len(b.Instrs)-1].(*ssa.If)
					if !ok {
						continue
					}
					isDisabled := false
					if _, fld, ok := fieldOfLoad(iff.Cond); ok && fld == "Disabled" {
						isDisabled = true
					}
					if !isDisabled {
						continue
					}
					tests++
					if !allReturns(b.Succs[0], nil, func(ret *ssa.Return) bool { return loadsGlobal(retValue(ret, errIdx), errDisabled) }) {
						okAll = false
					}
				}
			}
			r.Check(tests > 0 && okAll, "R10.11", fnName(fn), "disabled token is refused", p.Pos(fn.Pos()), fmt.Sprintf("%d test(s) of metadata.Disabled, each leaving with ErrTokenDisabled", tests), "Get does not test the Disabled flag of the record, or its 'disabled' edge can end without ErrTokenDisabled: a token that maintenance disabled is still resolved to the original value")
		}
	}
	if n < 4 {
		r.Bad("R10.11", "pseudonymization/storage", "TokenStorage.Get implementations", "-", "fewer Get implementations found than the four confirmed by reading (memory, BoltDB, Redis, encrypting wrapper)")
	}
}

func init() {
	mut("C10", "memory store hands out disabled tokens", "pseudonymization/storage/memory.go", "	if value.metadata.Disabled {\n		return nil, common.ErrTokenDisabled\n	}\n", "", "R10.11", "MemoryTokenStorage")
	mut("C10", "bolt store: disabled token only logged on the write-back", "pseudonymization/storage/boltdb.go", "			if metadata.Disabled {\n				return common.ErrTokenDisabled\n			}\n			metadata.Accessed = now", "			if metadata.Disabled {\n				return nil\n			}\n			metadata.Accessed = now", "R10.11", "boltdbStorage")
}
