package main

import (
	"go/token"
	"fmt"
	"go/ast"
	"go/types"
	"os"
	"sort"
	"strings"

	"golang.org/x/tools/go/packages"
	"golang.org/x/tools/go/ssa"
)

// ---- shared sqlparser AST model (used by C13 and C16) ----------------------

type sqlAST struct {
	pk       *packages.Package
	sqlNode  *types.Interface
	sqlVal   *types.Named
	named    []*types.TypeName // all named types implementing SQLNode (T or *T)
	litCache map[types.Type]bool
	mayHold  func(types.Type) bool
}

func newSQLAST(p *Program, r *Report, rule string) *sqlAST {
	pk := p.Pkg("sqlparser")
	if pk == nil {
		r.Anchor(rule, "package sqlparser")
		return nil
	}
	nodeTN := p.Type("sqlparser.SQLNode")
	valTN := p.Type("sqlparser.SQLVal")
	if nodeTN == nil || valTN == nil {
		r.Anchor(rule, "sqlparser.SQLNode / sqlparser.SQLVal")
		return nil
	}
	iface, _ := nodeTN.Type().Underlying().(*types.Interface)
	if iface == nil {
		r.Anchor(rule, "sqlparser.SQLNode is not an interface")
		return nil
	}
	a := &sqlAST{pk: pk, sqlNode: iface, sqlVal: valTN.Type().(*types.Named)}
	sc := pk.Types.Scope()
	for _, n := range sc.Names() {
		tn, ok := sc.Lookup(n).(*types.TypeName)
		if !ok || tn.IsAlias() {
			continue
		}
		if _, isIface := tn.Type().Underlying().(*types.Interface); isIface {
			continue
		}
		if types.Implements(tn.Type(), iface) || types.Implements(types.NewPointer(tn.Type()), iface) {
			a.named = append(a.named, tn)
		}
	}
	a.computeLiteralTypes()
	return a
}

// computeLiteralTypes: least fixpoint of "a value of this type may (transitively) hold a *SQLVal".
func (a *sqlAST) computeLiteralTypes() {
	a.litCache = map[types.Type]bool{}
	lit := map[*types.TypeName]bool{a.sqlVal.Obj(): true}
	var may func(t types.Type, depth int) bool
	may = func(t types.Type, depth int) bool {
		if depth > 12 {
			return false
		}
		switch t := t.(type) {
		case *types.Named:
			if lit[t.Obj()] {
				return true
			}
			if t.Obj().Pkg() != a.pk.Types {
				return false
			}
			if _, ok := t.Underlying().(*types.Interface); ok {
				return may(t.Underlying(), depth+1)
			}
			isNode := false
			for _, tn := range a.named {
				if tn == t.Obj() {
					isNode = true
				}
			}
			if !isNode {
				// a plain helper struct of the package (ShowTablesOpt): it holds whatever its fields hold
				return may(t.Underlying(), depth+1)
			}
			return false // decided by the fixpoint over named types
		case *types.Pointer:
			return may(t.Elem(), depth+1)
		case *types.Slice:
			return may(t.Elem(), depth+1)
		case *types.Array:
			return may(t.Elem(), depth+1)
		case *types.Map:
			return may(t.Elem(), depth+1)
		case *types.Struct:
			for i := 0; i < t.NumFields(); i++ {
				if may(t.Field(i).Type(), depth+1) {
					return true
				}
			}
		case *types.Interface:
			if t.NumMethods() == 0 {
				return false
			}
			for _, tn := range a.named {
				if !lit[tn] {
					continue
				}
				if types.Implements(tn.Type(), t) || types.Implements(types.NewPointer(tn.Type()), t) {
					return true
				}
			}
		}
		return false
	}
	for changed := true; changed; {
		changed = false
		for _, tn := range a.named {
			if lit[tn] {
				continue
			}
			if may(tn.Type().Underlying(), 0) {
				lit[tn] = true
				changed = true
			}
		}
	}
	a.litCache = map[types.Type]bool{}
	for tn := range lit {
		a.litCache[tn.Type()] = true
	}
	// final closure used by queries
	a.mayHold = func(t types.Type) bool { return may(t, 0) }
}

func (a *sqlAST) mayHoldLiteral(t types.Type) bool { return a.mayHold(t) }

func init() {
	register(&Property{ID: "C16", Patterns: []string{"./..."}, Run: runC16})
}

func runC16(p *Program, r *Report) {
	r.Rule("R16.1", "E4", 1, "normalizer.sqlToBindvar converts every SQLVal kind that carries statement data (all ValType constants except the placeholder kinds ValArg, PgPlaceholder and the wrapper UnknownVal), and never abandons the conversion of such a kind (no `return nil` on a data-carrying case): a kind left out or abandoned is printed verbatim in the redacted statement")
	r.Rule("R16.2", "E4", 40, "for every AST struct type, each field that may (transitively) hold a literal and that Format prints is handed to Walk by walkSubtree; a printed-but-unwalked field keeps its literals in the redacted text")
	r.Rule("R16.3", "E2", 300, "no raw statement text (GetSimpleQuery, Parse QueryString, mysql command payload, OnQueryObject.Query, HandleQuery's rawQuery, HandleRawSQLQuery result 0, sqlparser.String of a tree) reaches a logrus formatting argument or field value; result 1 of HandleRawSQLQuery / RedactSQLQuery output is the sanitizer; the operator-configured capture file writer is the only raw sink allowed")
	r.Rule("R16.4", "E3", 2, "the functions producing the redacted text (HandleRawSQLQuery, RedactSQLQuery) never print a NotParsedStatement (whose Format echoes the raw input): the statement handed to String comes from a parser constructed strict in the same function, or a type test for NotParsedStatement dominates the print on its false edge")
	r.Rule("R16.5", "E4", 2, "the redaction walk never prunes: a visitor function that Normalize hands to Walk returns kontinue=false only right after delegating the same node to another Walk (mode switch); any other 'false' skips a subtree whose literals then stay in the redacted text")
	r.Rule("R16.6", "E2", 3, "the parser and the query-capture helpers do not log what they are given: inside sqlparser (which the taint rule R16.3 models as text in / tree out and does not enter) and in acra-censor/common, no logrus call has an operand that derives from a string or []byte parameter of the enclosing function or from a line read back from the capture file; an error built from such text counts as the text")
	a := newSQLAST(p, r, "R16.1")
	if a == nil {
		return
	}
	ruleR166(p, r)
	r.Rule("R16.7", "E4", 30, "literals kept as plain strings are redacted too: every string-typed field of a data-statement AST type that Format prints is classified (frozen table: keyword/operator text, identifier, or literal text); a field that holds literal text is overwritten by a method of the normalizer; an unclassified field is a violation (a new place where the grammar may keep a literal outside SQLVal)")
	ruleR167(p, r, a)
	ruleR161(p, r, a)
	ruleR162(p, r, a)
	ruleR163(p, r)
	ruleR164(p, r)
	ruleR165(p, r)
}

func ruleR161(p *Program, r *Report, a *sqlAST) {
	const fnSpec = "sqlparser.(*normalizer).sqlToBindvar"
	obj := p.FuncObj(fnSpec)
	fd, pk := p.FuncDecl(obj)
	if fd == nil {
		r.Anchor("R16.1", fnSpec)
		return
	}
	valType := p.Type("sqlparser.ValType")
	if valType == nil {
		r.Anchor("R16.1", "sqlparser.ValType")
		return
	}
	exempt := map[string]string{"ValArg": "placeholder, carries no statement data", "PgPlaceholder": "placeholder, carries no statement data", "UnknownVal": "wrapper around a cast expression: holds no bytes itself, its operand is covered by R16.2 (field unknown)"}
	var sw *ast.SwitchStmt
	ast.Inspect(fd.Body, func(n ast.Node) bool {
		if s, ok := n.(*ast.SwitchStmt); ok && s.Tag != nil {
			if tv, ok := pk.TypesInfo.Types[s.Tag]; ok && types.Identical(tv.Type, valType.Type()) {
				sw = s
			}
		}
		return true
	})
	if sw == nil {
		// accepted alternative: no switch at all and no kind test => every kind converted alike
		r.Bad("R16.1", "sqlparser.normalizer.sqlToBindvar", "switch on ValType", p.Pos(fd.Pos()), "no switch over the literal kind found; the rule cannot see which kinds are converted")
		return
	}
	cases, def := switchCaseConsts(pk.TypesInfo, sw)
	defConverts := def != nil && !clauseReturnsNil(pk.TypesInfo, def)
	for _, c := range constsOfType(pk.Types, valType.Type()) {
		construct := "kind " + c.Name()
		if why, ok := exempt[c.Name()]; ok {
			r.Confirmed("R16.1", "sqlparser.normalizer.sqlToBindvar", construct, p.Pos(sw.Pos()), why)
			continue
		}
		cc := cases[c]
		if cc == nil {
			if defConverts {
				r.OK("R16.1", "sqlparser.normalizer.sqlToBindvar", construct, p.Pos(def.Pos()), "converted by the default clause")
			} else {
				r.Bad("R16.1", "sqlparser.normalizer.sqlToBindvar", construct, p.Pos(sw.Pos()), fmt.Sprintf("literal kind %s has no case: it falls to `default: return nil`, so Normalize leaves it in place and RedactSQLQuery/HandleRawSQLQuery print it verbatim", c.Name()))
			}
			continue
		}
		if clauseReturnsNil(pk.TypesInfo, cc) {
			r.Bad("R16.1", "sqlparser.normalizer.sqlToBindvar", construct, p.Pos(cc.Pos()), "case returns nil: literal left unredacted")
		} else {
			r.OK("R16.1", "sqlparser.normalizer.sqlToBindvar", construct, p.Pos(cc.Pos()), "has a converting case")
		}
	}
	// No abandonment: a `return nil` after the switch but inside the *SQLVal branch (the err != nil exit)
	// leaves a data-carrying literal unredacted (e.g. an integer literal beyond int64).
	var ifSQLVal *ast.IfStmt
	ast.Inspect(fd.Body, func(n ast.Node) bool {
		if is, ok := n.(*ast.IfStmt); ok && ifSQLVal == nil && is.Init != nil {
			ifSQLVal = is
		}
		return ifSQLVal == nil
	})
	abandon := 0
	if ifSQLVal != nil {
		ast.Inspect(ifSQLVal.Body, func(n ast.Node) bool {
			if n == ast.Node(sw) {
				return false
			}
			if rs, ok := n.(*ast.ReturnStmt); ok && len(rs.Results) == 1 && isNilIdent(pk.TypesInfo, ast.Unparen(rs.Results[0])) {
				abandon++
				r.Bad("R16.1", "sqlparser.normalizer.sqlToBindvar", "return nil on conversion error", p.Pos(rs.Pos()), "a literal of a data-carrying kind whose bytes the value constructor rejects (integer literal outside int64, float out of range) is returned as nil => left in place => printed verbatim in the redacted statement")
			}
			return true
		})
	}
	if abandon == 0 {
		r.OK("R16.1", "sqlparser.normalizer.sqlToBindvar", "return nil on conversion error", p.Pos(fd.Pos()), "no abandoning return inside the *SQLVal branch")
	}
}

func clauseReturnsNil(info *types.Info, cc *ast.CaseClause) bool {
	ret := false
	for _, s := range cc.Body {
		if rs, ok := s.(*ast.ReturnStmt); ok && len(rs.Results) == 1 && isNilIdent(info, ast.Unparen(rs.Results[0])) {
			ret = true
		}
	}
	return ret
}

// structFieldUse computes, for an AST struct type, which fields Format prints and which walkSubtree walks.
func (a *sqlAST) structFieldUse(tn *types.TypeName) (st *types.Struct, printed, walked map[*types.Var]bool, fmtDecl, walkDecl *ast.FuncDecl) {
	st, _ = tn.Type().Underlying().(*types.Struct)
	if st == nil {
		return
	}
	ms := methodDecls(a.pk, tn)
	fmtDecl, walkDecl = ms["Format"], ms["walkSubtree"]
	printed, walked = map[*types.Var]bool{}, map[*types.Var]bool{}
	if fmtDecl != nil {
		for f := range fieldsReadOffReceiver(a.pk, tn, fmtDecl, ms) {
			printed[f] = true
		}
	}
	if walkDecl != nil {
		for f := range fieldsPassedToWalk(a.pk, tn, walkDecl, ms) {
			walked[f] = true
		}
	}
	return
}

// fieldsPassedToWalk: the receiver's fields that walkSubtree (or a method of the same receiver it calls) hands to
// Walk: the field, or something selected from it, appears in an argument of a call of Walk / a visit function, or
// the field is ranged over in a loop whose body makes such a call. Merely reading a field (a nil test) is not walking it.
func fieldsPassedToWalk(pk *packages.Package, tn *types.TypeName, fd *ast.FuncDecl, methods map[string]*ast.FuncDecl) map[*types.Var]bool {
	out := map[*types.Var]bool{}
	seen := map[*ast.FuncDecl]bool{}
	var visit func(fd *ast.FuncDecl)
	visit = func(fd *ast.FuncDecl) {
		if fd == nil || fd.Body == nil || seen[fd] {
			return
		}
		seen[fd] = true
		recv := recvIdent(fd, pk.TypesInfo)
		if recv == nil {
			return
		}
		fieldsIn := func(e ast.Node) []*types.Var {
			var fs []*types.Var
			ast.Inspect(e, func(n ast.Node) bool {
				sel, ok := n.(*ast.SelectorExpr)
				if !ok {
					return true
				}
				if id, ok := ast.Unparen(sel.X).(*ast.Ident); ok && pk.TypesInfo.Uses[id] == recv {
					if v, ok := pk.TypesInfo.Uses[sel.Sel].(*types.Var); ok && v.IsField() {
						fs = append(fs, v)
					}
				}
				return true
			})
			return fs
		}
		isWalkCall := func(c *ast.CallExpr) bool {
			switch f := c.Fun.(type) {
			case *ast.Ident:
				return f.Name == "Walk" || f.Name == "visit"
			case *ast.SelectorExpr:
				return f.Sel.Name == "Walk" || f.Sel.Name == "walkSubtree"
			}
			return false
		}
		ast.Inspect(fd.Body, func(n ast.Node) bool {
			switch x := n.(type) {
			case *ast.CallExpr:
				if isWalkCall(x) {
					for _, arg := range x.Args {
						for _, f := range fieldsIn(arg) {
							out[f] = true
						}
					}
					if sel, ok := x.Fun.(*ast.SelectorExpr); ok {
						for _, f := range fieldsIn(sel.X) {
							out[f] = true // node.F.walkSubtree(visit)
						}
					}
				}
				if sel, ok := x.Fun.(*ast.SelectorExpr); ok {
					if id, ok := ast.Unparen(sel.X).(*ast.Ident); ok && pk.TypesInfo.Uses[id] == recv {
						if fo, ok := pk.TypesInfo.Uses[sel.Sel].(*types.Func); ok && recvNamed(fo) == tn {
							visit(methods[fo.Name()])
						}
					}
				}
			case *ast.RangeStmt:
				walks := false
				ast.Inspect(x.Body, func(m ast.Node) bool {
					if c, ok := m.(*ast.CallExpr); ok && isWalkCall(c) {
						walks = true
					}
					return true
				})
				if walks {
					for _, f := range fieldsIn(x.X) {
						out[f] = true
					}
				}
			}
			return true
		})
	}
	visit(fd)
	return out
}

// reachable returns the named AST types reachable through fields from the
// statement types implementing sqlparser.Statement, except the excluded roots.
func (a *sqlAST) reachable(p *Program, exclude map[string]bool) map[*types.TypeName]bool {
	out := map[*types.TypeName]bool{}
	stmtTN := p.Type("sqlparser.Statement")
	if stmtTN == nil {
		return nil
	}
	stmtI, _ := stmtTN.Type().Underlying().(*types.Interface)
	var visitT func(t types.Type, depth int)
	var visitN func(tn *types.TypeName)
	visitN = func(tn *types.TypeName) {
		if out[tn] {
			return
		}
		if os.Getenv("ACRAVERIFY_DEBUG_REACH") != "" {
			fmt.Fprintln(os.Stderr, "reach", tn.Name())
		}
		out[tn] = true
		visitT(tn.Type().Underlying(), 0)
	}
	visitT = func(t types.Type, depth int) {
		if depth > 12 {
			return
		}
		switch t := t.(type) {
		case *types.Named:
			if t.Obj().Pkg() != a.pk.Types {
				return
			}
			if it, ok := t.Underlying().(*types.Interface); ok {
				visitT(it, depth+1)
				return
			}
			visitN(t.Obj())
		case *types.Pointer:
			visitT(t.Elem(), depth+1)
		case *types.Slice:
			visitT(t.Elem(), depth+1)
		case *types.Array:
			visitT(t.Elem(), depth+1)
		case *types.Map:
			visitT(t.Elem(), depth+1)
		case *types.Struct:
			for i := 0; i < t.NumFields(); i++ {
				visitT(t.Field(i).Type(), depth+1)
			}
		case *types.Interface:
			if t.NumMethods() == 0 {
				return // interface{} (ColName.Metadata): not an AST edge
			}
			for _, tn := range a.named {
				if exclude[tn.Name()] {
					continue
				}
				if types.Implements(tn.Type(), t) || types.Implements(types.NewPointer(tn.Type()), t) {
					visitN(tn)
				}
			}
		}
	}
	for _, tn := range a.named {
		if exclude[tn.Name()] {
			continue
		}
		if types.Implements(tn.Type(), stmtI) || types.Implements(types.NewPointer(tn.Type()), stmtI) {
			visitN(tn)
		}
	}
	return out
}

// Schema statements carry type parameters and column options, not row data; the property's
// quantifier enumerates literal positions of data statements only.
var schemaStatements = map[string]bool{"DDL": true, "DBDDL": true}

// Type parameters (precision/scale of a CONVERT/CAST target type) are part of the statement's shape, which
// the property requires the redacted form to keep.
var r162TypeParams = map[string]string{
	"ConvertType.Length":  "precision of the target type in CONVERT/CAST: a type parameter, part of the statement shape, not a value literal",
	"ConvertType.Scale":   "scale of the target type in CONVERT/CAST: a type parameter, part of the statement shape, not a value literal",
	"ColumnType.Length":   "length of a column type (PREPARE name(varchar(10)) / column definition): a type parameter, part of the statement shape",
	"ColumnType.Scale":    "scale of a column type: a type parameter, part of the statement shape",
	"ColumnType.Default":  "set only by the column_definition production of CREATE/ALTER TABLE (schema statement); the column_type production used by PREPARE never sets it",
	"ColumnType.OnUpdate": "set only by the column_definition production of CREATE/ALTER TABLE (schema statement)",
	"ColumnType.Comment":  "set only by the column_definition production of CREATE/ALTER TABLE (schema statement)",
}

func ruleR162(p *Program, r *Report, a *sqlAST) {
	var names []string
	inScope := a.reachable(p, schemaStatements)
	if inScope == nil {
		r.Anchor("R16.2", "sqlparser.Statement")
		return
	}
	for _, tn := range a.named {
		st, printed, walked, fmtDecl, walkDecl := a.structFieldUse(tn)
		if st == nil || fmtDecl == nil || walkDecl == nil {
			continue
		}
		if !inScope[tn] {
			for i := 0; i < st.NumFields(); i++ {
				f := st.Field(i)
				if a.mayHoldLiteral(f.Type()) && printed[f] && !walked[f] {
					r.Note("R16.2 observation (not armed: %s is reachable only from schema statements DDL/DBDDL): field %s is printed but not walked", tn.Name(), f.Name())
				}
			}
			continue
		}
		names = append(names, tn.Name())
		for i := 0; i < st.NumFields(); i++ {
			f := st.Field(i)
			if !a.mayHoldLiteral(f.Type()) || !printed[f] {
				continue
			}
			fn := "sqlparser." + tn.Name() + ".walkSubtree"
			construct := "field " + f.Name()
			if walked[f] {
				r.OK("R16.2", fn, construct, p.Pos(walkDecl.Pos()), "printed by Format and walked")
			} else if why, ok := r162TypeParams[tn.Name()+"."+f.Name()]; ok {
				r.Confirmed("R16.2", fn, construct, p.Pos(walkDecl.Pos()), why)
			} else {
				r.Bad("R16.2", fn, construct, p.Pos(walkDecl.Pos()), fmt.Sprintf("%s.%s (type %s) can hold literals and is printed by Format but is not passed to Walk: Normalize never visits literals there, so they survive in the redacted statement", tn.Name(), f.Name(), types.TypeString(f.Type(), types.RelativeTo(a.pk.Types))))
			}
		}
	}
	sort.Strings(names)
	r.Extra["R16.2_struct_types"] = strings.Join(names, " ")
}

func isLogrusSink(callee *types.Func) bool {
	if callee == nil || callee.Pkg() == nil {
		return false
	}
	return callee.Pkg().Path() == "github.com/sirupsen/logrus"
}

func ruleR163(p *Program, r *Report) {
	handleRaw := p.FuncObj("sqlparser.(Parser).HandleRawSQLQuery")
	redact := p.FuncObj("sqlparser.RedactSQLQuery")
	if handleRaw == nil || redact == nil {
		r.Anchor("R16.3", "sqlparser.Parser.HandleRawSQLQuery / sqlparser.RedactSQLQuery")
		return
	}
	// functions whose *arguments* are raw statement text by contract; the same SSA values are followed forward
	rawArgOf := map[string]int{ // spec -> parameter index (receiver excluded)
		"sqlparser.(Parser).HandleRawSQLQuery":           0,
		"acra-censor.(*AcraCensor).HandleQuery":          0,
		"encryptor/postgresql.NewOnQueryObjectFromQuery": 0,
		"encryptor/mysql.NewOnQueryObjectFromQuery":      0,
	}
	rawResultOf := []string{ // functions whose result 0 is raw statement text
		"decryptor/postgresql.(*PacketHandler).GetSimpleQuery",
		"decryptor/postgresql.(*ParsePacket).QueryString",
		"sqlparser.String",
		"sqlparser.StringWithDialect",
	}
	argFns := map[*types.Func]int{}
	for spec, idx := range rawArgOf {
		o := p.FuncObj(spec)
		if o == nil {
			r.Anchor("R16.3", spec)
			continue
		}
		argFns[o] = idx
	}
	resFns := map[*types.Func]bool{}
	for _, spec := range rawResultOf {
		o := p.FuncObj(spec)
		if o == nil {
			r.Anchor("R16.3", spec)
			continue
		}
		resFns[o] = true
	}
	nSinks := 0
	wire := map[fieldKey]bool{}
	for _, spec := range []string{"decryptor/postgresql.PacketHandler.descriptionBuf", "decryptor/mysql.Packet.data"} {
		i := strings.LastIndex(spec, ".")
		tn := p.Type(spec[:i])
		if tn == nil {
			r.Anchor("R16.3", spec)
			continue
		}
		st, _ := tn.Type().Underlying().(*types.Struct)
		found := false
		for k := 0; st != nil && k < st.NumFields(); k++ {
			if st.Field(k).Name() == spec[i+1:] {
				wire[fieldKey{st, k}] = true
				found = true
			}
		}
		if !found {
			r.Anchor("R16.3", spec)
		}
	}
	sqlStructs := map[*types.Struct]bool{}
	if pk := p.Pkg("sqlparser"); pk != nil {
		for _, n := range pk.Types.Scope().Names() {
			if tn, ok := pk.Types.Scope().Lookup(n).(*types.TypeName); ok {
				if st, ok := tn.Type().Underlying().(*types.Struct); ok {
					sqlStructs[st] = true
				}
			}
		}
	}
	cfg := TaintConfig{
		Enter: func(fn *ssa.Function) bool {
			pp := fnPkgPath(fn)
			if pp == acraMod+"/sqlparser" || strings.HasPrefix(pp, acraMod+"/sqlparser/") {
				return false // the parser is modelled: text in, tree/text out
			}
			return isAcraPath(pp)
		},
		Override: func(site ssa.CallInstruction, callee *types.Func) (bool, []int) {
			switch callee {
			case handleRaw:
				return true, []int{0, 2} // normalized text and tree keep literals; result 1 is the redacted form
			case redact:
				return true, nil
			}
			return false, nil
		},
		ValueBarrier: func(v ssa.Value) bool {
			if isErrorType(v.Type()) {
				return true // error provenance is not tracked (stated limitation)
			}
			if b, ok := v.Type().Underlying().(*types.Basic); ok && b.Info()&(types.IsNumeric|types.IsBoolean) != 0 {
				return true // a number or flag cannot carry statement text
			}
			if isSQLParserType(v.Type()) {
				return true // parse trees are not followed: text leaves a tree only through sqlparser.String (a source)
			}
			return false
		},
		FieldBarrier: func(st *types.Struct, idx int) bool {
			// wire buffers are not followed: statement text re-enters at the getters listed as sources
			return wire[fieldKey{st, idx}] || sqlStructs[st]
		},
		Sink: func(site ssa.CallInstruction, callee *types.Func, argIdx int, arg ssa.Value) string {
			if !isLogrusSink(callee) {
				return ""
			}
			if recv := callee.Type().(*types.Signature).Recv(); recv != nil && argIdx == 0 && !site.Common().IsInvoke() {
				return "" // receiver (an Entry built from tainted fields is reported at the WithField call)
			}
			return "logrus." + callee.Name()
		},
	}
	t := NewTaint(p, cfg)
	seeds := 0
	for _, fn := range p.srcFns {
		if !cfg.Enter(fn) {
			continue
		}
		for _, b := range fn.Blocks {
			for _, in := range b.Instrs {
				site, ok := in.(ssa.CallInstruction)
				if !ok {
					continue
				}
				c := site.Common()
				if isLogrusSink(calleeOfCommon(c)) {
					nSinks++
				}
				co := calleeOfCommon(c)
				if co == nil {
					continue
				}
				if idx, ok := argFns[co]; ok {
					ai := idx
					if !c.IsInvoke() && co.Type().(*types.Signature).Recv() != nil {
						ai++
					}
					if ai < len(c.Args) {
						if _, isConst := c.Args[ai].(*ssa.Const); !isConst {
							t.Seed(c.Args[ai], "raw statement passed to "+co.Name())
							seeds++
						}
					}
				}
				if resFns[co] {
					if cv := site.Value(); cv != nil {
						if co.Type().(*types.Signature).Results().Len() == 1 {
							t.Seed(cv, "raw statement returned by "+co.Name())
						} else if refs := cv.Referrers(); refs != nil {
							for _, rf := range *refs {
								if ex, ok := rf.(*ssa.Extract); ok && ex.Index == 0 {
									t.Seed(ex, "raw statement returned by "+co.Name())
								}
							}
						}
						seeds++
					}
				}
			}
		}
	}
	// the parameters themselves (callers outside the analysed set, interface dispatch)
	for o, idx := range argFns {
		if fn := p.Func2(o); fn != nil && fn.Blocks != nil && cfg.Enter(fn) {
			pi := idx
			if fn.Signature.Recv() != nil {
				pi++
			}
			if pi < len(fn.Params) {
				t.Seed(fn.Params[pi], "raw statement parameter of "+o.Name())
				seeds++
			}
		}
	}
	t.Run()
	r.Extra["R16.3_seeds"] = seeds
	r.Extra["R16.3_log_call_sites_scanned"] = nSinks
	r.Extra["R16.3_values_reached"] = len(t.tainted)
	reported := map[ssa.Instruction]bool{}
	for _, s := range t.Sinks {
		reported[s.Instr] = true
		fn := fnName(s.Fn)
		r.Bad("R16.3", fn, s.What+"("+operandText(p, s.Instr)+")", p.Pos(s.Instr.Pos()), "raw statement text reaches a log call: "+t.PathString(s.Path, 14))
	}
	// every log call in the packages that handle statements is an obligation
	for _, fn := range p.srcFns {
		pp := strings.TrimPrefix(fnPkgPath(fn), acraMod+"/")
		if !(strings.HasPrefix(pp, "acra-censor") || strings.HasPrefix(pp, "decryptor/") || strings.HasPrefix(pp, "encryptor/") || strings.HasPrefix(pp, "hmac/decryptor") || strings.HasPrefix(pp, "pseudonymization") || strings.HasPrefix(pp, "masking")) {
			continue
		}
		for _, b := range fn.Blocks {
			for _, in := range b.Instrs {
				site, ok := in.(ssa.CallInstruction)
				if !ok || !isLogrusSink(calleeOfCommon(site.Common())) || reported[in] {
					continue
				}
				nargs := len(site.Common().Args)
				if nargs == 0 || (nargs == 1 && !site.Common().IsInvoke() && calleeOfCommon(site.Common()).Type().(*types.Signature).Recv() != nil) {
					continue // no data operand
				}
				r.OK("R16.3", fnName(fn), "logrus."+calleeOfCommon(site.Common()).Name()+"("+operandText(p, in)+")", p.Pos(in.Pos()), "no operand derives from raw statement text")
			}
		}
	}
}

func calleeOfCommon(c *ssa.CallCommon) *types.Func {
	if c.IsInvoke() {
		return c.Method
	}
	if sc := c.StaticCallee(); sc != nil {
		if o, ok := sc.Object().(*types.Func); ok {
			return o
		}
		if sc.Origin() != nil {
			o, _ := sc.Origin().Object().(*types.Func)
			return o
		}
	}
	return nil
}

// operandText renders the source text of the call's arguments (for stable, line-free keys).
func operandText(p *Program, in ssa.Instruction) string {
	site, ok := in.(ssa.CallInstruction)
	if !ok {
		return ""
	}
	pos := site.Pos()
	if !pos.IsValid() {
		return ""
	}
	call := p.callExprAt(pos)
	if call == nil {
		return ""
	}
	var parts []string
	for _, a := range call.Args {
		parts = append(parts, types.ExprString(a))
	}
	s := strings.Join(parts, ", ")
	if len(s) > 90 {
		s = s[:90] + "…"
	}
	return s
}

func isSQLParserType(t types.Type) bool {
	for {
		switch x := t.(type) {
		case *types.Pointer:
			t = x.Elem()
			continue
		case *types.Slice:
			t = x.Elem()
			continue
		case *types.Named:
			return x.Obj().Pkg() != nil && x.Obj().Pkg().Path() == acraMod+"/sqlparser"
		}
		return false
	}
}

func ruleR164(p *Program, r *Report) {
	strFn := p.FuncObj("sqlparser.String")
	parse := p.FuncObj("sqlparser.(Parser).Parse")
	newFn := p.FuncObj("sqlparser.New")
	echoTN := p.Type("sqlparser.NotParsedStatement")
	strict, _ := p.Lookup("sqlparser.ModeStrict").(*types.Const)
	if strFn == nil || parse == nil || newFn == nil || echoTN == nil || strict == nil {
		r.Anchor("R16.4", "sqlparser.String / Parser.Parse / New / NotParsedStatement / ModeStrict")
		return
	}
	for _, spec := range []string{"sqlparser.(Parser).HandleRawSQLQuery", "sqlparser.RedactSQLQuery"} {
		fn := p.Func(spec)
		if fn == nil || fn.Blocks == nil {
			r.Anchor("R16.4", spec)
			continue
		}
		name := fnName(fn)
		for _, sc := range callsTo(fn, strFn) {
			arg := stripConv(sc.Instr.Common().Args[0])
			ex, ok := arg.(*ssa.Extract)
			var pcall *ssa.Call
			if ok {
				pcall, _ = ex.Tuple.(*ssa.Call)
			}
			construct := "String(" + operandText(p, sc.Instr) + ")"
			if pcall == nil || calleeOfCommon(pcall.Common()) != parse {
				r.Bad("R16.4", name, construct, p.Pos(sc.Instr.Pos()), "printed statement does not come directly from Parser.Parse; provenance undecided")
				continue
			}
			// idiom 1: receiver built by New(ModeStrict) in this function
			recv := pcall.Common().Args[0]
			if u, ok := recv.(*ssa.UnOp); ok {
				recv = u.X
			}
			if nc, ok := recv.(*ssa.Call); ok && calleeOfCommon(nc.Common()) == newFn {
				if c, ok := nc.Common().Args[0].(*ssa.Const); ok && constValueEq(c.Value, strict.Val()) {
					r.OK("R16.4", name, construct, p.Pos(sc.Instr.Pos()), "parser constructed with ModeStrict: Parse returns an error, never NotParsedStatement")
					continue
				}
			}
			// idiom 2: type test on the same value, print only on its false edge
			okFound := false
			if refs := ex.Referrers(); refs != nil {
				for _, rf := range *refs {
					ta, isTA := rf.(*ssa.TypeAssert)
					if !isTA || !ta.CommaOk || !types.Identical(ta.AssertedType, echoTN.Type()) {
						continue
					}
					okv := extractOf(ta, 1)
					if okv == nil {
						continue
					}
					for _, ifi := range ifsOn(okv) {
						tb, fb := ifi.Block().Succs[0], ifi.Block().Succs[1]
						if fb.Dominates(sc.Block) && !reaches(tb, sc.Block, nil) {
							okFound = true
						}
					}
				}
			}
			if okFound {
				r.OK("R16.4", name, construct, p.Pos(sc.Instr.Pos()), "NotParsedStatement test dominates the print on its false edge")
			} else {
				r.Bad("R16.4", name, construct, p.Pos(sc.Instr.Pos()), "the statement printed as redacted text may be a NotParsedStatement (tolerant parse mode), whose Format echoes the raw, unparseable input into the log text")
			}
		}
	}
}

func init() {
	mut("C16", "drop PgEscapeString from the redaction switch", "sqlparser/normalizer.go", "case StrVal, HexVal, BitVal, PgEscapeString:", "case StrVal, HexVal, BitVal:", "R16.1", "kind PgEscapeString")
	mut("C16", "stop walking Select.Having", "sqlparser/ast_methods.go", "		node.GroupBy,\n		node.Having,\n		node.OrderBy,\n		node.Limit,\n	)\n}\n\n// Format formats the node.\nfunc (node *ParenSelect)", "		node.GroupBy,\n		node.OrderBy,\n		node.Limit,\n	)\n}\n\n// Format formats the node.\nfunc (node *ParenSelect)", "R16.2", "Select.walkSubtree|field Having")
	mut("C16", "log the raw query in the PostgreSQL proxy", "decryptor/postgresql/pg_decryptor.go", `log := logger.WithField("sql", queryWithHiddenValues)`, `log := logger.WithField("sql", query)`, "R16.3", "handleQueryPacket")
	mut("C16", "censor logs the raw query when denying", "acra-censor/acra-censor_implementation.go", "acraCensor.logDeniedQuery(queryWithHiddenValues, handler, parsedQuery)", "acraCensor.logDeniedQuery(rawQuery, handler, parsedQuery)", "R16.3", "logDeniedQuery")
	mut("C16", "mysql proxy logs the re-serialised statement", "decryptor/mysql/response_proxy.go", `clientLog.WithError(err).WithField(logging.FieldKeyEventCode, logging.EventCodeErrorEncryptQueryData).Errorln("Error occurred on query handler")`, `clientLog.WithError(err).WithField("q", queryObj.Query()).Errorln("Error occurred on query handler")`, "R16.3", "ProxyClientConnection")
	mut("C16", "echo unparsed statements as redacted text again", "sqlparser/ast_methods.go", "if _, notParsed := stmt.(NotParsedStatement); notParsed {", "if _, notParsed := stmt.(NotParsedStatement); notParsed && false {", "R16.4", "HandleRawSQLQuery")
}

func ruleR165(p *Program, r *Report) {
	pk := p.Pkg("sqlparser")
	walk := p.FuncObj("sqlparser.Walk")
	norm := p.FuncObj("sqlparser.Normalize")
	if pk == nil || walk == nil || norm == nil {
		r.Anchor("R16.5", "sqlparser.Walk / sqlparser.Normalize")
		return
	}
	decls := funcDeclsOf(pk)
	// visitors: functions passed as first argument to Walk, transitively from Normalize
	visitors := map[*types.Func]bool{}
	var scan func(fd *ast.FuncDecl)
	seen := map[*ast.FuncDecl]bool{}
	scan = func(fd *ast.FuncDecl) {
		if fd == nil || fd.Body == nil || seen[fd] {
			return
		}
		seen[fd] = true
		ast.Inspect(fd.Body, func(n ast.Node) bool {
			call, ok := n.(*ast.CallExpr)
			if !ok || calleeObj(pk.TypesInfo, call) != walk || len(call.Args) == 0 {
				return true
			}
			var vf *types.Func
			switch a := ast.Unparen(call.Args[0]).(type) {
			case *ast.SelectorExpr:
				vf, _ = pk.TypesInfo.Uses[a.Sel].(*types.Func)
			case *ast.Ident:
				vf, _ = pk.TypesInfo.Uses[a].(*types.Func)
			}
			if vf != nil && !visitors[vf] {
				visitors[vf] = true
				scan(decls[vf])
			}
			return true
		})
	}
	scan(decls[norm])
	if len(visitors) == 0 {
		r.Bad("R16.5", "sqlparser.Normalize", "visitor functions", p.Pos(norm.Pos()), "Normalize no longer hands a named visitor to Walk; the rule cannot see the traversal")
		return
	}
	for vf := range visitors {
		fd := decls[vf]
		if fd == nil || fd.Body == nil {
			continue
		}
		name := funcFullName(vf)
		n := 0
		var inspectList func(list []ast.Stmt)
		check := func(list []ast.Stmt, i int, rs *ast.ReturnStmt) {
			if len(rs.Results) == 0 {
				return
			}
			if id, ok := ast.Unparen(rs.Results[0]).(*ast.Ident); ok && id.Name == "true" {
				n++
				r.OK("R16.5", name, "return true", p.Pos(rs.Pos()), "descends")
				return
			}
			n++
			delegated := false
			if i > 0 {
				var call *ast.CallExpr
				switch st := list[i-1].(type) {
				case *ast.ExprStmt:
					call, _ = st.X.(*ast.CallExpr)
				case *ast.AssignStmt:
					if len(st.Rhs) == 1 {
						call, _ = st.Rhs[0].(*ast.CallExpr)
					}
				}
				if call != nil && calleeObj(pk.TypesInfo, call) == walk && len(call.Args) >= 2 {
					delegated = true
				}
			}
			r.Check(delegated, "R16.5", name, "return "+types.ExprString(rs.Results[0]), p.Pos(rs.Pos()), "subtree delegated to another Walk immediately before", "the visitor stops the descent without walking the subtree itself: literals below this node are never replaced and appear in the redacted statement")
		}
		inspectList = func(list []ast.Stmt) {
			for i, st := range list {
				switch x := st.(type) {
				case *ast.ReturnStmt:
					check(list, i, x)
				case *ast.BlockStmt:
					inspectList(x.List)
				case *ast.IfStmt:
					inspectList(x.Body.List)
					if eb, ok := x.Else.(*ast.BlockStmt); ok {
						inspectList(eb.List)
					} else if ei, ok := x.Else.(*ast.IfStmt); ok {
						inspectList([]ast.Stmt{ei})
					}
				case *ast.SwitchStmt:
					for _, c := range x.Body.List {
						inspectList(c.(*ast.CaseClause).Body)
					}
				case *ast.TypeSwitchStmt:
					for _, c := range x.Body.List {
						inspectList(c.(*ast.CaseClause).Body)
					}
				case *ast.ForStmt:
					inspectList(x.Body.List)
				case *ast.RangeStmt:
					inspectList(x.Body.List)
				}
			}
		}
		inspectList(fd.Body.List)
		if n == 0 {
			r.Bad("R16.5", name, "returns", p.Pos(fd.Pos()), "no return statements found in visitor")
		}
	}
}

// ---- R16.6
func ruleR166(p *Program, r *Report) {
	n := 0
	for _, fn := range p.srcFns {
		pp := strings.TrimPrefix(fnPkgPath(fn), acraMod+"/")
		if !(pp == "sqlparser" || pp == "acra-censor/common") {
			continue
		}
		for _, b := range fn.Blocks {
			for _, in := range b.Instrs {
				site, ok := in.(ssa.CallInstruction)
				if !ok || !isLogrusSink(calleeOfCommon(site.Common())) {
					continue
				}
				co := calleeOfCommon(site.Common())
				args := site.Common().Args
				if !site.Common().IsInvoke() && co.Type().(*types.Signature).Recv() != nil && len(args) > 0 {
					args = args[1:]
				}
				if len(args) == 0 {
					continue
				}
				n++
				bad := ""
				for _, a := range args {
					if why := textOrigin(p, a, pp == "sqlparser", 0, map[ssa.Value]bool{}); why != "" {
						bad = "operand derives from " + why
					}
				}
				r.Check(bad == "", "R16.6", fnName(fn), "logrus."+co.Name()+"("+operandText(p, in)+")", p.Pos(in.Pos()), "no operand derives from text handed to the function", bad+": statement text (with its literals) is written to the log")
			}
		}
	}
	if n == 0 {
		r.Bad("R16.6", "sqlparser", "log call sites", "-", "no log call with operands found in sqlparser / acra-censor/common")
	}
}

// textOrigin: where the text in v comes from, when that is text handed to the function: a string/[]byte parameter
// (only when params is set), or a line read back through bufio. Follows phis, conversions, concatenation, local
// variables, the formatting/transforming functions of fmt, errors, strings, bytes, strconv, and - up to three levels -
// results of acra functions (their returned values, with the callee's parameters mapped back to the arguments).
// Loads of fields of non-local objects and results of other calls are not text handed to the function.
func textOrigin(p *Program, v ssa.Value, params bool, depth int, seen map[ssa.Value]bool) string {
	if v == nil || seen[v] || depth > 3 {
		return ""
	}
	seen[v] = true
	textual := func(t types.Type) bool {
		if b, ok := t.Underlying().(*types.Basic); ok {
			return b.Info()&types.IsString != 0
		}
		if sl, ok := t.Underlying().(*types.Slice); ok {
			if b, ok := sl.Elem().Underlying().(*types.Basic); ok {
				return b.Kind() == types.Byte
			}
		}
		return false
	}
	first := func(vs ...ssa.Value) string {
		for _, x := range vs {
			if w := textOrigin(p, x, params, depth, seen); w != "" {
				return w
			}
		}
		return ""
	}
	switch x := v.(type) {
	case *ssa.Parameter:
		if params && textual(x.Type()) {
			return "parameter " + x.Name() + " (" + x.Type().String() + ") of " + fnName(x.Parent())
		}
	case *ssa.Phi:
		return first(x.Edges...)
	case *ssa.Convert:
		return first(x.X)
	case *ssa.ChangeType:
		return first(x.X)
	case *ssa.ChangeInterface:
		return first(x.X)
	case *ssa.MakeInterface:
		return first(x.X)
	case *ssa.Slice:
		return first(x.X)
	case *ssa.BinOp:
		return first(x.X, x.Y)
	case *ssa.Extract:
		if c, ok := x.Tuple.(*ssa.Call); ok {
			return callTextOrigin(p, c, x.Index, params, depth, seen)
		}
	case *ssa.Call:
		return callTextOrigin(p, x, 0, params, depth, seen)
	case *ssa.Alloc:
		// a local array/variable: whatever is stored into it (varargs of a formatting call)
		var vals []ssa.Value
		var scan func(addr ssa.Value, d int)
		scan = func(addr ssa.Value, d int) {
			if refs := addr.Referrers(); refs != nil && d < 4 {
				for _, rf := range *refs {
					switch y := rf.(type) {
					case *ssa.Store:
						if y.Addr == addr {
							vals = append(vals, y.Val)
						}
					case *ssa.IndexAddr:
						if y.X == addr {
							scan(y, d+1)
						}
					case *ssa.FieldAddr:
						if y.X == addr {
							scan(y, d+1)
						}
					}
				}
			}
		}
		scan(x, 0)
		return first(vals...)
	case *ssa.UnOp:
		if x.Op == token.MUL {
			switch a := x.X.(type) {
			case *ssa.Alloc:
				return first(a)
			case *ssa.IndexAddr:
				return first(a.X) // an element of a slice of text (a line of a split buffer)
			}
		}
	case *ssa.Index:
		return first(x.X)
	}
	return ""
}

func callTextOrigin(p *Program, c *ssa.Call, resIdx int, params bool, depth int, seen map[ssa.Value]bool) string {
	co := calleeOfCommon(c.Common())
	if co == nil || co.Pkg() == nil {
		return ""
	}
	if (co.Name() == "ReadAll" || co.Name() == "ReadFile") && resIdx == 0 {
		if pth := co.Pkg().Path(); pth == "io" || pth == "io/ioutil" || pth == "os" || strings.HasSuffix(pth, "/acra-censor/common") {
			return "content read back from a file by " + co.Name()
		}
	}
	switch co.Pkg().Path() {
	case "bufio":
		switch co.Name() {
		case "Text", "Bytes", "ReadString", "ReadBytes", "ReadLine":
			if resIdx == 0 {
				return "a line read by bufio." + co.Name()
			}
		}
		return ""
	case "fmt", "errors", "strings", "bytes", "strconv":
		for _, a := range c.Call.Args {
			if w := textOrigin(p, a, params, depth, seen); w != "" {
				return w
			}
		}
		return ""
	}
	callee := c.Call.StaticCallee()
	if callee == nil || callee.Blocks == nil || !isAcraPath(fnPkgPath(callee)) {
		return ""
	}
	// what the callee returns at this index, expressed in the callee's own parameters, mapped back to the arguments
	for _, ret := range returnsOf(callee) {
		if resIdx >= len(ret.Results) {
			continue
		}
		inner := map[ssa.Value]bool{}
		var hit *ssa.Parameter
		var find func(v ssa.Value, d int)
		find = func(v ssa.Value, d int) {
			if v == nil || inner[v] || d > 12 || hit != nil {
				return
			}
			inner[v] = true
			if pr, ok := v.(*ssa.Parameter); ok {
				hit = pr
				return
			}
			if in, ok := v.(ssa.Instruction); ok {
				switch y := v.(type) {
				case *ssa.Call:
					cc := calleeOfCommon(y.Common())
					if cc != nil && cc.Pkg() != nil {
						switch cc.Pkg().Path() {
						case "fmt", "errors", "strings", "bytes", "strconv":
							for _, a := range y.Call.Args {
								find(a, d+1)
							}
						}
					}
					return
				case *ssa.UnOp:
					if y.Op == token.MUL {
						if _, isAl := y.X.(*ssa.Alloc); !isAl {
							return // field of a non-local object
						}
					}
				}
				for _, op := range in.Operands(nil) {
					if *op != nil {
						find(*op, d+1)
					}
				}
				if al, ok := v.(*ssa.Alloc); ok {
					var scan func(addr ssa.Value, dd int)
					scan = func(addr ssa.Value, dd int) {
						if refs := addr.Referrers(); refs != nil && dd < 4 {
							for _, rf := range *refs {
								switch z := rf.(type) {
								case *ssa.Store:
									if z.Addr == addr {
										find(z.Val, d+1)
									}
								case *ssa.IndexAddr:
									if z.X == addr {
										scan(z, dd+1)
									}
								}
							}
						}
					}
					scan(al, 0)
				}
			}
		}
		find(ret.Results[resIdx], 0)
		if w := textOrigin(p, ret.Results[resIdx], false, depth+1, map[ssa.Value]bool{}); w != "" {
			return w + " (in " + fnName(callee) + ")"
		}
		if hit != nil {
			idx := paramIndex(callee, hit)
			if idx >= 0 && idx < len(c.Call.Args) {
				if w := textOrigin(p, c.Call.Args[idx], params, depth+1, seen); w != "" {
					return w + " (through " + fnName(callee) + ")"
				}
			}
		}
	}
	return ""
}

func init() {
	mut("C16", "partially parsed DDL logged with its text again (original defect)", "sqlparser/ast_methods.go", "			log.Printf(\"ignoring error parsing DDL: %v\", tokenizer.LastError)", "			log.Printf(\"ignoring error parsing DDL '%s': %v\", sql, tokenizer.LastError)", "R16.6", "ParseWithDialect")
	mut("C16", "a damaged capture-file entry is quoted in the error that is logged", "acra-censor/common/logging_logic.go", "			if err = json.Unmarshal(line, &oneQuery); err != nil {\n				return nil, err\n			}", "			if err = json.Unmarshal(line, &oneQuery); err != nil {\n				return nil, &os.PathError{Op: \"malformed entry\", Path: string(line), Err: err}\n			}", "R16.6", "readStoredQueries")
	mut("C16", "unparsable statement attached to the debug line", "sqlparser/ast_methods.go", "			log.WithError(err).Debugln(\"ignoring error of non parsed sql statement\")", "			log.WithError(err).WithField(\"statement\", sql).Debugln(\"ignoring error of non parsed sql statement\")", "R16.6", "Parse")
}

// ---- R16.7
// class of every printed string field of the data-statement AST types, by reading the grammar actions that fill them
var r167Fields = map[string]string{
	"BinaryExpr.Operator":       "keyword: operator token",
	"ColIdent.val":              "identifier",
	"ColIdent.lowered":          "identifier",
	"CollateExpr.Charset":       "identifier: collation name",
	"ColumnType.Type":           "keyword: type name",
	"ColumnType.Charset":        "identifier: charset name",
	"ColumnType.Collate":        "identifier: collation name",
	"ComparisonExpr.Operator":   "keyword: operator token",
	"ConvertType.Type":          "keyword: type name",
	"ConvertType.Operator":      "keyword",
	"ConvertType.Charset":       "identifier: charset name",
	"ConvertUsingExpr.Type":     "identifier: charset name",
	"Default.ColName":           "identifier",
	"GroupConcatExpr.Distinct":  "keyword",
	"GroupConcatExpr.Separator": "literal",
	"IndexHints.Type":           "keyword",
	"Insert.Action":             "keyword",
	"Insert.Ignore":             "keyword",
	"IntervalExpr.Unit":         "keyword: unit name",
	"IsExpr.Operator":           "keyword",
	"JoinTableExpr.Join":        "keyword",
	"MatchExpr.Option":          "keyword",
	"NotParsedStatement.Query":  "raw statement: never printed into the redacted form (decided by R16.4)",
	"Order.Direction":           "keyword",
	"RangeCond.Operator":        "keyword",
	"Select.Cache":              "keyword",
	"Select.Distinct":           "keyword",
	"Select.Hints":              "keyword",
	"Select.Lock":               "keyword",
	"Set.Scope":                 "keyword",
	"Show.Type":                 "keyword or identifier: what is shown",
	"Show.Scope":                "keyword",
	"ShowFilter.Like":           "literal",
	"TableIdent.v":              "identifier",
	"UnaryExpr.Operator":        "keyword",
	"Union.Type":                "keyword",
	"Union.Lock":                "keyword",
	"Where.Type":                "keyword",
}

func ruleR167(p *Program, r *Report, a *sqlAST) {
	inScope := a.reachable(p, schemaStatements)
	if inScope == nil {
		r.Anchor("R16.7", "sqlparser.Statement")
		return
	}
	// fields the normalizer's own methods assign
	assigned := map[string]bool{}
	for _, fn := range p.srcFns {
		if fnPkgPath(fn) != acraMod+"/sqlparser" || fn.Signature.Recv() == nil || !strings.HasSuffix(fn.Signature.Recv().Type().String(), "sqlparser.normalizer") {
			continue
		}
		for _, b := range fn.Blocks {
			for _, in := range b.Instrs {
				st, ok := in.(*ssa.Store)
				if !ok {
					continue
				}
				if fa, ok := st.Addr.(*ssa.FieldAddr); ok {
					if pt, ok := fa.X.Type().Underlying().(*types.Pointer); ok {
						if nt, ok := pt.Elem().(*types.Named); ok {
							if stt, ok := nt.Underlying().(*types.Struct); ok {
								assigned[nt.Obj().Name()+"."+stt.Field(fa.Field).Name()] = true
							}
						}
					}
				}
			}
		}
	}
	for _, tn := range a.named {
		st, printed, _, fmtDecl, _ := a.structFieldUse(tn)
		if st == nil || fmtDecl == nil || !inScope[tn] {
			continue
		}
		for i := 0; i < st.NumFields(); i++ {
			f := st.Field(i)
			b, ok := f.Type().Underlying().(*types.Basic)
			if !ok || b.Info()&types.IsString == 0 || !printed[f] {
				continue
			}
			key := tn.Name() + "." + f.Name()
			class, known := r167Fields[key]
			pos := p.Pos(f.Pos())
			switch {
			case !known:
				r.Bad("R16.7", "sqlparser."+tn.Name(), "string field "+f.Name(), pos, "a string field that Format prints and that is not classified: if the grammar stores literal text in it (as it does for the group_concat separator and SHOW ... LIKE) the normalizer never sees it and it survives in the redacted statement")
			case class == "literal":
				r.Check(assigned[key], "R16.7", "sqlparser."+tn.Name(), "string field "+f.Name(), pos, "holds literal text; a method of the normalizer overwrites it", "holds literal text as a plain string and no method of the normalizer assigns it: the literal survives in the redacted statement")
			default:
				r.Confirmed("R16.7", "sqlparser."+tn.Name(), "string field "+f.Name(), pos, class)
			}
		}
	}
}

func init() {
	mut("C16", "group_concat separator no longer replaced by the normalizer (original defect)", "sqlparser/normalizer.go", "	node.Separator = \" separator ':\" + bvname + \"'\"", "	_ = bvname", "R16.7", "Separator")
	mut("C16", "SHOW ... LIKE pattern no longer replaced by the normalizer (original defect)", "sqlparser/normalizer.go", "	node.Like = \":\" + bvname", "	_ = bvname", "R16.7", "Like")
	mut("C16", "SHOW does not walk its filter (original defect)", "sqlparser/ast_methods.go", "	return Walk(visit, node.ShowTablesOpt.Filter)\n}", "	return nil\n}", "R16.2", "ShowTablesOpt")
}
