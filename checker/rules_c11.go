package main

import (
	"go/token"
	"strings"

	"golang.org/x/tools/go/ssa"
)

func init() {
	register(&Property{ID: "C11", Patterns: []string{"./..."}, Run: runC11})
}

var r112Confirmed = map[string]string{
	"R14.1|(*masking.masker).Mask|slice data[0:len(data)-plaintextLength]":   "masker.Mask has no caller in the repository; a negative plaintextLength can only come from a caller, and the property ranges over window lengths >= 0 (the guard plaintextLength > len(data) is present)",
	"R14.1|(*masking.masker).Mask|slice data[len(data)-plaintextLength:]":    "same: dead API, window length >= 0 by the property's quantifier",
	"R14.1|(*masking.masker).Unmask|slice data[0:len(data)-plaintextLength]": "same: dead API, window length >= 0 by the property's quantifier",
	"R14.1|(*masking.masker).Unmask|slice data[len(data)-plaintextLength:]":  "same: dead API, window length >= 0 by the property's quantifier",
}

func runC11(p *Program, r *Report) {
	r.Rule("R11.1", "E2", 2, "masked branch non-interference: in masking.Processor.Process the value returned when decryption fails or changes nothing derives only from the configured masking pattern (never from the stored value or the decryption result), with a nil error; the decrypted value is returned only when decryption succeeded and changed the data")
	ruleR111(p, r)
	r.Rule("R11.2", "E1", 4, "window split guarded: every len(data)-n / n bound used to split a value into clear window and protected remainder is proven in range (n <= len(data) from the guard, n >= 0 from configuration validation, R11.4); a value not longer than the window is protected in full")
	boundsRuleK(p, r, "R11.2", []string{"masking/dataEncryptor.go", "masking/masker.go"}, r112Confirmed, false)
	ruleR112Full(p, r)
	r.Rule("R11.3", "E3", 2, "factory wiring: in both proxy factories the decrypt handler is built over the masking processor when the masking flag is set, and the masking encryptor joins the encryptor chain")
	ruleR113(p, r)
	r.Rule("R11.4", "E3", 3, "validation: a masked column setting is accepted only after ValidateMaskingParams succeeded, which rejects an empty pattern and a negative plaintext length")
	ruleR114(p, r)
	r.Rule("R11.5", "E3", 4, "the masked envelope inside a value is found wherever it starts: the inline scanner advances to the found tag, by one byte, or by the replaced envelope's length, so a clear window ending in tag bytes cannot hide the envelope from the masking processor")
	ruleScanAdvance(p, r, "R11.5")
}

func ruleR111(p *Program, r *Report) {
	fn := p.Func("masking.(*Processor).Process")
	if fn == nil || fn.Blocks == nil {
		r.Anchor("R11.1", "masking.(*Processor).Process")
		return
	}
	name := fnName(fn)
	data := paramByName(fn, "data")
	var patternRets, plainRets []*ssa.Return
	var procCalls []*ssa.Call
	for _, cs := range callsIn(fn) {
		if c, ok := cs.Instr.(*ssa.Call); ok && c.Common().IsInvoke() && c.Common().Method.Name() == "Process" {
			procCalls = append(procCalls, c)
		}
	}
	isProcResult := func(v ssa.Value) *ssa.Call {
		for _, c := range procCalls {
			if v == ssa.Value(extractOf(c, 0)) || v == ssa.Value(c) {
				return c
			}
		}
		return nil
	}
	for _, ret := range returnsOf(fn) {
		if isRecoverBlock(ret.Block()) {
			continue
		}
		cl := backClosure(retValue(ret, 0))
		fromPattern := false
		for v := range cl {
			if c, ok := v.(*ssa.Call); ok && c.Common().IsInvoke() && c.Common().Method.Name() == "GetMaskingPattern" {
				fromPattern = true
			}
		}
		if fromPattern {
			patternRets = append(patternRets, ret)
			leak := ""
			for v := range cl {
				if v == ssa.Value(data) {
					leak = "the stored value (data)"
				}
				if isProcResult(v) != nil {
					leak = "the decryption result"
				}
			}
			r.Check(leak == "" && isNilConst(retValue(ret, 1)), "R11.1", name, "masked exit "+retText(p, ret), p.Pos(ret.Pos()), "returns the pattern only, nil error", "the value handed to a reader who cannot decrypt depends on "+leak+": ciphertext or hidden plaintext bytes reach that reader")
		} else if c := isProcResult(retValue(ret, 0)); c != nil && len(ret.Results) == 2 && retValue(ret, 1) != ssa.Value(extractOf(c, 1)) {
			plainRets = append(plainRets, ret)
		}
	}
	if len(patternRets) == 0 {
		r.Bad("R11.1", name, "masked exit", p.Pos(fn.Pos()), "no exit returns the masking pattern: an unauthorised reader gets the stored bytes")
		return
	}
	// on the masking path (after the decryption attempt that a pattern exit follows) nothing but the pattern or the
	// decryption result leaves the function: handing back the stored value there - with or without an error, which
	// the decrypt handler above swallows - delivers the ciphertext to the reader
	for _, c := range procCalls {
		masking := false
		for _, pr := range patternRets {
			if c.Block().Dominates(pr.Block()) {
				masking = true
			}
		}
		if !masking {
			continue
		}
		for _, ret := range returnsOf(fn) {
			if isRecoverBlock(ret.Block()) || !c.Block().Dominates(ret.Block()) {
				continue
			}
			fromPattern := false
			for v := range backClosure(retValue(ret, 0)) {
				if cc, ok := v.(*ssa.Call); ok && cc.Common().IsInvoke() && cc.Common().Method.Name() == "GetMaskingPattern" {
					fromPattern = true
				}
			}
			if fromPattern || isProcResult(retValue(ret, 0)) != nil {
				continue
			}
			r.Bad("R11.1", name, "masking path exit "+retText(p, ret), p.Pos(ret.Pos()), "an exit of the masking path returns something that is neither the pattern nor the decryption result (the stored value, whatever the error beside it): the decrypt handler answers an error by passing the container on, so the reader receives the ciphertext")
		}
	}
	// the decrypted value is returned only when err == nil and !bytes.Equal(newData, data)
	for _, ret := range plainRets {
		c := isProcResult(retValue(ret, 0))
		errv := extractOf(c, 1)
		bad := ""
		if errv != nil {
			if refs := errv.Referrers(); refs != nil {
				for _, rf := range *refs {
					if bo, ok := rf.(*ssa.BinOp); ok {
						for _, i := range ifsOn(bo) {
							if _, nonNil, ok := nilBranches(i, errv); ok && reaches(nonNil, ret.Block(), nil) {
								bad = "reachable from the decryption-error edge"
							}
						}
					}
				}
			}
		}
		eqSeen := false
		for _, cs := range callsIn(fn) {
			if cs.Callee != nil && cs.Callee.FullName() == "bytes.Equal" {
				if ec, ok := cs.Instr.(*ssa.Call); ok {
					eqSeen = true
					for _, i := range ifsOn(ec) {
						if reaches(i.Block().Succs[0], ret.Block(), nil) {
							bad = "reachable from the 'decryption changed nothing' edge"
						}
					}
				}
			}
		}
		if !eqSeen {
			bad = "no comparison of the decryption result with the stored value"
		}
		r.Check(bad == "", "R11.1", name, "plain exit "+retText(p, ret), p.Pos(ret.Pos()), "only after a successful decryption that changed the data", "the decryption result is returned although the reader could not decrypt ("+bad+"): the stored ciphertext is delivered instead of the pattern")
	}
}

// ruleR112Full: "values not longer than the window are protected in full": the n >= len(data) edge passes the whole data to the encryptor.
func ruleR112Full(p *Program, r *Report) {
	fn := p.Func("masking.(*DataEncryptor).encryptByFunction")
	if fn == nil || fn.Blocks == nil {
		r.Anchor("R11.2", "masking.(*DataEncryptor).encryptByFunction")
		return
	}
	data := paramByName(fn, "data")
	ok := false
	for _, b := range fn.Blocks {
		for _, in := range b.Instrs {
			bo, isBo := in.(*ssa.BinOp)
			if !isBo || (bo.Op != token.GEQ && bo.Op != token.GTR) {
				continue
			}
			if op, isLen := isLenCall(bo.Y); !isLen || op != ssa.Value(data) {
				continue
			}
			for _, i := range ifsOn(bo) {
				tb := i.Block().Succs[0]
				// the true edge calls the encryption function with data itself and returns its result
				for _, cs := range callsIn(fn) {
					if cs.Block != tb {
						continue
					}
					for _, a := range cs.Instr.Common().Args {
						if a == ssa.Value(data) {
							ok = true
						}
					}
				}
			}
		}
	}
	r.Check(ok, "R11.2", fnName(fn), "window >= value length protects the whole value", p.Pos(fn.Pos()), "partialPlaintextLen >= len(data) edge encrypts data as a whole", "a value not longer than the clear window is no longer protected in full")
}

func ruleR113(p *Program, r *Report) {
	newProc := p.FuncObj("masking.NewProcessor")
	newDec := p.FuncObj("crypto.NewDecryptHandler")
	newMaskEnc := p.FuncObj("masking.NewMaskingDataEncryptor")
	if newProc == nil || newDec == nil || newMaskEnc == nil {
		r.Anchor("R11.3", "masking.NewProcessor / crypto.NewDecryptHandler / masking.NewMaskingDataEncryptor")
		return
	}
	for _, spec := range proxyFactories {
		fn := p.Func(spec)
		if fn == nil || fn.Blocks == nil {
			r.Anchor("R11.3", spec)
			continue
		}
		ok := false
		for _, cs := range callsTo(fn, newDec) {
			for _, leaf := range leavesOf(cs.Instr.Common().Args[1], leafOpts{}) {
				if isCallResult(leaf, newProc, 0) {
					ok = true
				}
			}
		}
		r.Check(ok, "R11.3", fnName(fn), "decrypt handler built over the masking processor", p.Pos(fn.Pos()), "NewDecryptHandler(keystore, masking.NewProcessor(…)) on the masking edge", "with masking configured the decrypt handler still wraps the plain registry handler: an unauthorised reader receives the stored bytes instead of the pattern")
		// masking encryptor appended to the chain
		chained := false
		for _, cs := range callsTo(fn, newMaskEnc) {
			ex := extractOf(cs.Instr.Value(), 0)
			if ex == nil {
				continue
			}
			if refs := ex.Referrers(); refs != nil {
				for _, rf := range *refs {
					if _, isMI := rf.(*ssa.MakeInterface); isMI {
						chained = true
					}
				}
			}
		}
		r.Check(chained, "R11.3", fnName(fn), "masking encryptor joins the chain", p.Pos(fn.Pos()), "result of NewMaskingDataEncryptor is appended to the chain encryptors", "the masking encryptor is built but never used")
	}
}

func ruleR114(p *Program, r *Report) {
	val := p.FuncObj("masking/common.ValidateMaskingParams")
	fn := p.Func("encryptor/base/config.(*BasicColumnEncryptionSetting).Init")
	if val == nil || fn == nil || fn.Blocks == nil {
		r.Anchor("R11.4", "ValidateMaskingParams / BasicColumnEncryptionSetting.Init")
		return
	}
	calls := callsTo(fn, val)
	if len(calls) == 0 {
		r.Bad("R11.4", fnName(fn), "ValidateMaskingParams", p.Pos(fn.Pos()), "masking parameters are no longer validated when a column setting is initialised")
	}
	for _, cs := range calls {
		errv := cs.Instr.Value()
		ok := false
		if refs := errv.Referrers(); refs != nil {
			for _, rf := range *refs {
				if bo, isBo := rf.(*ssa.BinOp); isBo {
					for _, i := range ifsOn(bo) {
						if _, nonNil, isN := nilBranches(i, errv); isN {
							ok = allReturns(nonNil, nil, func(ret *ssa.Return) bool { return !isNilConst(retValue(ret, 0)) })
						}
					}
				}
			}
		}
		r.Check(ok, "R11.4", fnName(fn), "validation error rejects the setting", p.Pos(cs.Instr.Pos()), "err != nil edge returns an error", "a masking configuration that failed validation is accepted")
	}
	// the validator itself
	vf := p.Func2(val)
	if vf == nil || vf.Blocks == nil {
		r.Anchor("R11.4", "ValidateMaskingParams body")
		return
	}
	lenParam := paramByName(vf, "plaintextLength")
	pat := paramByName(vf, "pattern")
	negOK, emptyOK := false, false
	for _, b := range vf.Blocks {
		for _, in := range b.Instrs {
			bo, isBo := in.(*ssa.BinOp)
			if !isBo {
				continue
			}
			for _, i := range ifsOn(bo) {
				errEdge := i.Block().Succs[0]
				rejects := allReturns(errEdge, nil, func(ret *ssa.Return) bool { return !isNilConst(retValue(ret, 0)) })
				if bo.Op == token.LSS && bo.X == ssa.Value(lenParam) {
					if c, ok := intConst(bo.Y); ok && c == 0 && rejects {
						negOK = true
					}
				}
				if bo.Op == token.EQL {
					if op, isLen := isLenCall(bo.X); isLen && op == ssa.Value(pat) && rejects {
						emptyOK = true
					}
					if bo.X == ssa.Value(pat) && rejects {
						if s, ok := constStringOf(bo.Y); ok && s == "" {
							emptyOK = true
						}
					}
				}
			}
		}
	}
	r.Check(negOK, "R11.4", fnName(vf), "negative plaintext length rejected", p.Pos(vf.Pos()), "plaintextLength < 0 returns an error", "a negative clear-window length is accepted: the window split then slices with a negative bound")
	r.Check(emptyOK, "R11.4", fnName(vf), "empty pattern rejected", p.Pos(vf.Pos()), "len(pattern) == 0 returns an error", "an empty masking pattern is accepted: the processor then treats the column as unmasked and returns stored bytes")
	_ = strings.Contains
}

func init() {
	mut("C11", "masked exit returns the stored value", "masking/dataProcessor.go", "			return []byte(setting.GetMaskingPattern()), nil", "			return append([]byte(setting.GetMaskingPattern()), data[len(data)-1:]...), nil", "R11.1", "masked exit")
	mut("C11", "decryption error falls through to the plain exit", "masking/dataProcessor.go", "		if err != nil || bytes.Equal(newData, data) {", "		if err != nil && len(data) == 0 || bytes.Equal(newData, data) {", "R11.1", "plain exit")
	mut("C11", "window guard dropped on one side", "masking/dataEncryptor.go", "		if partialPlaintextLen >= len(data) {", "		if partialPlaintextLen >= len(data) && setting.IsEndMasking() {", "R11.2", "encryptByFunction")
	mut("C11", "pg factory keeps the plain decryptor", "decryptor/postgresql/proxy.go", "		decryptorDataProcessor, err = masking.NewProcessor(registryHandler)", "		_, err = masking.NewProcessor(registryHandler)", "R11.3", "decrypt handler built over")
	mut("C11", "negative plaintext length accepted", "masking/common/patterns.go", "	if plaintextLength < 0 {\n		return ErrInvalidPlaintextLength\n	}\n", "", "R11.4", "negative plaintext length")
	mut("C11", "validation error ignored", "encryptor/base/config/encryptionSettings.go", "		if err = maskingCommon.ValidateMaskingParams(s.MaskingPattern, s.PartialPlaintextLenBytes, s.PlaintextSide, s.GetEncryptedDataType()); err != nil {\n			return err\n		}", "		if err = maskingCommon.ValidateMaskingParams(s.MaskingPattern, s.PartialPlaintextLenBytes, s.PlaintextSide, s.GetEncryptedDataType()); err != nil {\n			err = nil\n		}", "R11.4", "validation error rejects")
}

func init() {
	mut("C11", "keystore failures are reported with the stored value instead of being masked", "masking/dataProcessor.go", "		if err != nil || bytes.Equal(newData, data) {\n			logger.Debugln(\"Mask data\")", "		if err != nil && len(data) > 1<<20 {\n			return data, err\n		}\n		if err != nil || bytes.Equal(newData, data) {\n			logger.Debugln(\"Mask data\")", "R11.1", "masking path exit")
}
