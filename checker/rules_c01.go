package main

import (
	"fmt"
	"go/ast"
	"go/token"
	"go/types"
	"sort"
	"strings"

	"golang.org/x/tools/go/ssa"
)

func init() {
	register(&Property{ID: "C01", Patterns: []string{"./..."}, Run: runC01})
}

func runC01(p *Program, r *Report) {
	r.Rule("R01.1", "E2", 8, "envelope-id pairing: at every call of crypto.SerializeEncryptedData(enc, id) the id names the kind of envelope enc is: id = h.ID() with enc produced by the same handler h, or a constant id next to a value whose kind is known (acrastruct/acrablock constructor result, AcraBlock type, OnAcraStruct/OnAcraBlock argument); a mismatch makes Process pick the wrong decryptor for every value")
	r.Rule("R01.2", "E3", 6, "pass-through guard: in each encrypt entry point every call that creates an envelope is unreachable from the 'already protected' edge of a signature test on the data parameter, such a test dominates it, and the matched edge returns the data parameter itself with a nil error")
	r.Rule("R01.3", "E4", 8, "translator handler selection: each TranslatorService.{Encrypt,Decrypt}[Sym][Searchable] obtains its handler with the envelope-id constant of its own kind (AcraBlock for Sym, AcraStruct otherwise) and passes that handler to the registry call")
	r.Rule("R01.4", "E4", 20, "all entry points are one operation: every gRPC method and every HTTP handler reaches envelope code only through the ITranslatorService method of the same operation; none creates envelopes or reads keys itself")
	r.Rule("R01.5", "E3", 2, "old-container kind detection: matchOldContainer returns the AcraStruct id only on the success edge of the AcraStruct validator and the AcraBlock id only on the success edge of the AcraBlock extractor")
	r.Rule("R01.6", "E1", 8, "byte-by-byte resynchronisation: in the three tag scanners (EnvelopeDetector.OnColumn, ProcessAcraStructs, ProcessAcraBlocks) the input cursor only ever moves to a found tag position, forward by exactly one byte (nothing recognised there), or forward by an envelope length parsed from the data at the cursor; any other step (a constant > 1, the tag length) can jump over the start of a real envelope that overlaps a tag look-alike")
	r.Rule("R01.8", "E3", 25, "no key is used after it was wiped: a buffer passed to a function that overwrites it with zeros on every path (utils.Zeroize*, and every acra function that passes its parameter on to one, e.g. hmac.GenerateHMAC) is not read afterwards and is not passed again inside a loop that does not reload it (a cipher or MAC keyed with zeros protects nothing)")
	ruleUseAfterWipe(p, r, "R01.8", func(s wipeSite) bool { return true })
	r.Rule("R01.9", "E2", 8, "a searchable write of an already protected value indexes its plaintext: wherever a blind index is computed for a value that may already be an envelope, the hashed bytes are the decryption result (the reveal path re-verifies the index against the plaintext and hands back the raw stored bytes on a mismatch)")
	ruleHashedPlaintext(p, r, "R01.9")
	r.Rule("R01.10", "E3", 2, "every offered key is tried: AcraBlock.Decrypt and DecryptRotatedAcrastruct attempt the decryption inside the loop over the keys they were given, and a failed attempt moves on to the next key instead of ending the call (key ids are two bytes and may collide; rotated keys come newest first)")
	ruleR0110(p, r)
	r.Rule("R01.7", "E3", 3, "searchable-reveal state hygiene: every exit of hmac.Processor.OnColumn (re)defines the armed hash (field hashData): it is either cleared or armed for the value just seen; an exit that leaves the previous value's hash armed makes the next column of the session be verified against a stale hash (own values come back as ciphertext) or dereference a cleared matchedHash")
	ruleR011(p, r)
	ruleR012(p, r)
	ruleR013(p, r)
	ruleR014(p, r)
	ruleR015(p, r)
	ruleR016(p, r)
	ruleHmacProcessorState(p, r, "R01.7")
	r.Rule("R01.11", "E2", 3, "working state of the crypto helpers is per call: every stateful digest (hash.Hash) that the envelope, search-hash and token code writes to was created in the same function by a constructor call - never taken from a struct field, a package variable or a parameter; such an object is shared by every connection that uses the package-level helper, and interleaved Reset/Write/Sum sequences of concurrent requests produce wrong key ids and hashes (values protected then cannot be revealed)")
	ruleR0111(p, r)
}

type envKind int

const (
	kindUnknown envKind = iota
	kindStruct
	kindBlock
)

func (k envKind) String() string { return [...]string{"unknown", "AcraStruct", "AcraBlock"}[k] }

func ruleR011(p *Program, r *Report) {
	ser := p.FuncObj("crypto.SerializeEncryptedData")
	structID, _ := p.Lookup("crypto.AcraStructEnvelopeID").(*types.Const)
	blockID, _ := p.Lookup("crypto.AcraBlockEnvelopeID").(*types.Const)
	blockT := p.Type("acrablock.AcraBlock")
	if ser == nil || structID == nil || blockID == nil || blockT == nil {
		r.Anchor("R01.1", "crypto.SerializeEncryptedData / AcraStructEnvelopeID / AcraBlockEnvelopeID / acrablock.AcraBlock")
		return
	}
	kindOfValue := func(fn *ssa.Function, v ssa.Value) (envKind, string) {
		for _, leaf := range leavesOf(v, leafOpts{}) {
			if types.Identical(leaf.Type(), blockT.Type()) {
				return kindBlock, "static type acrablock.AcraBlock"
			}
			if pi := paramIndex(fn, leaf); pi >= 0 {
				switch fn.Name() {
				case "OnAcraStruct":
					return kindStruct, "argument of OnAcraStruct (acrastruct.Processor contract)"
				case "OnAcraBlock":
					return kindBlock, "argument of OnAcraBlock"
				}
			}
			var call *ssa.Call
			switch x := leaf.(type) {
			case *ssa.Extract:
				call, _ = x.Tuple.(*ssa.Call)
			case *ssa.Call:
				call = x
			}
			if call != nil {
				if co := calleeOfCommon(call.Common()); co != nil && co.Pkg() != nil {
					pk := strings.TrimPrefix(co.Pkg().Path(), acraMod+"/")
					if pk == "acrastruct" && strings.HasPrefix(co.Name(), "CreateAcrastruct") {
						return kindStruct, "result of acrastruct." + co.Name()
					}
					if pk == "acrablock" && strings.HasPrefix(co.Name(), "CreateAcraBlock") {
						return kindBlock, "result of acrablock." + co.Name()
					}
				}
			}
		}
		return kindUnknown, ""
	}
	for _, fn := range p.srcFns {
		for _, cs := range callsTo(fn, ser) {
			args := cs.Instr.Common().Args
			enc, id := args[0], args[1]
			name := fnName(fn)
			construct := "SerializeEncryptedData(" + operandText(p, cs.Instr) + ")"
			pos := p.Pos(cs.Instr.Pos())
			if c, ok := id.(*ssa.Const); ok {
				var want envKind
				switch {
				case constValueEq(c.Value, structID.Val()):
					want = kindStruct
				case constValueEq(c.Value, blockID.Val()):
					want = kindBlock
				default:
					r.Bad("R01.1", name, construct, pos, "constant envelope id that is neither AcraStructEnvelopeID nor AcraBlockEnvelopeID")
					continue
				}
				got, why := kindOfValue(fn, enc)
				switch {
				case got == want:
					r.OK("R01.1", name, construct, pos, fmt.Sprintf("id %s next to a value that is %s (%s)", want, got, why))
				case got == kindUnknown:
					r.Bad("R01.1", name, construct, pos, "constant envelope id, but the kind of the serialized value cannot be established")
				default:
					r.Bad("R01.1", name, construct, pos, fmt.Sprintf("envelope id says %s but the value is %s (%s): the container will be routed to the wrong decryptor and never decrypts", want, got, why))
				}
				continue
			}
			// id = h.ID()
			idCall, _ := id.(*ssa.Call)
			if idCall != nil && idCall.Common().IsInvoke() && idCall.Common().Method.Name() == "ID" {
				h := idCall.Common().Value
				okPair := false
				for _, leaf := range leavesOf(enc, leafOpts{}) {
					if ex, ok := leaf.(*ssa.Extract); ok {
						if c, ok := ex.Tuple.(*ssa.Call); ok && c.Common().IsInvoke() && c.Common().Method.Name() == "EncryptWithClientID" && c.Common().Value == h {
							okPair = true
						}
					}
				}
				r.Check(okPair, "R01.1", name, construct, pos, "id = h.ID() and enc = h.EncryptWithClientID(...) for the same handler value h", "the id comes from one handler but the envelope was not produced by that same handler value")
				continue
			}
			// id from a variable: accepted only inside ExtractSerializedContainer where it comes from matchOldContainer on the same data
			mo := p.FuncObj("crypto.matchOldContainer")
			okVar := false
			if mo != nil && isCallResult(id, mo, 0) {
				ex := id.(*ssa.Extract)
				c := ex.Tuple.(*ssa.Call)
				if len(c.Common().Args) == 1 && c.Common().Args[0] == enc {
					okVar = true
				}
			}
			r.Check(okVar, "R01.1", name, construct, pos, "id = matchOldContainer(data) for the same data that is serialized (kinds checked by R01.5)", "envelope id of unknown provenance")
		}
	}
}

// matchedSucc: given an If whose condition derives from signature-test call `c`, return the block taken when the data matched.
func matchedSucc(i *ssa.If, c *ssa.Call, boolResult bool) *ssa.BasicBlock {
	cond := i.Cond
	neg := false
	for {
		if u, ok := cond.(*ssa.UnOp); ok && u.Op == token.NOT {
			cond = u.X
			neg = !neg
			continue
		}
		break
	}
	blk := i.Block()
	pick := func(trueMatched bool) *ssa.BasicBlock {
		if trueMatched != neg {
			return blk.Succs[0]
		}
		return blk.Succs[1]
	}
	if boolResult {
		if cond == ssa.Value(c) {
			return pick(true)
		}
		return nil
	}
	b, ok := cond.(*ssa.BinOp)
	if !ok || (b.Op != token.EQL && b.Op != token.NEQ) {
		return nil
	}
	var e ssa.Value
	if isNilConst(b.Y) {
		e = b.X
	} else if isNilConst(b.X) {
		e = b.Y
	} else {
		return nil
	}
	isErrOf := false
	switch x := e.(type) {
	case *ssa.Extract:
		isErrOf = x.Tuple == ssa.Value(c)
	case *ssa.Call:
		isErrOf = x == c
	}
	if !isErrOf {
		return nil
	}
	return pick(b.Op == token.EQL) // err == nil  => matched
}

func ruleR012(p *Program, r *Report) {
	entries := []string{
		"crypto.(RegistryHandler).EncryptWithClientID",
		"crypto.(RegistryHandler).EncryptWithHandler",
		"crypto.(ReEncryptHandler).EncryptWithClientID",
		"crypto.(AcraBlockHandler).EncryptWithClientID",
		"crypto.(AcraStructHandler).EncryptWithClientID",
		"acrablock.(*DataEncryptor).EncryptWithClientID",
	}
	// signature tests: callee name -> result is bool (true) or error (false)
	isSigTest := func(c *ssa.Call) (bool, bool) {
		cc := c.Common()
		if cc.IsInvoke() {
			if cc.Method.Name() == "MatchDataSignature" {
				return true, true
			}
			return false, false
		}
		co := calleeOfCommon(cc)
		if co == nil {
			return false, false
		}
		switch funcFullName(co) {
		case "crypto.RegistryHandler.MatchDataSignature", "crypto.ReEncryptHandler.MatchDataSignature":
			return true, true
		case "acrablock.ExtractAcraBlockFromData", "acrastruct.ValidateAcraStructLength":
			return true, false
		}
		return false, false
	}
	isCreator := func(c ssa.CallInstruction) string {
		cc := c.Common()
		if cc.IsInvoke() {
			if cc.Method.Name() == "EncryptWithClientID" {
				return "handler.EncryptWithClientID"
			}
			return ""
		}
		co := calleeOfCommon(cc)
		if co == nil {
			return ""
		}
		n := funcFullName(co)
		switch {
		case strings.HasPrefix(n, "acrablock.CreateAcraBlock"), strings.HasPrefix(n, "acrastruct.CreateAcrastruct"), n == "crypto.SerializeEncryptedData",
			n == "crypto.RegistryHandler.EncryptWithClientID":
			return n
		}
		return ""
	}
	for _, spec := range entries {
		fn := p.Func(spec)
		if fn == nil || fn.Blocks == nil {
			r.Anchor("R01.2", spec)
			continue
		}
		name := fnName(fn)
		data := paramByName(fn, "data")
		if data == nil {
			r.Anchor("R01.2", spec+" parameter data")
			continue
		}
		// collect tests on the data parameter and their matched successors
		type test struct {
			call    *ssa.Call
			matched *ssa.BasicBlock
		}
		var tests []test
		for _, cs := range callsIn(fn) {
			c, ok := cs.Instr.(*ssa.Call)
			if !ok {
				continue
			}
			is, boolRes := isSigTest(c)
			if !is {
				continue
			}
			onData := false
			for _, a := range c.Common().Args {
				if a == ssa.Value(data) {
					onData = true
				}
			}
			if !onData {
				continue
			}
			var ifs []*ssa.If
			if boolRes {
				ifs = ifsOn(c)
			} else {
				// err result: either the call value (single result) or Extract
				cands := []ssa.Value{c}
				if refs := c.Referrers(); refs != nil {
					for _, rf := range *refs {
						if ex, ok := rf.(*ssa.Extract); ok {
							cands = append(cands, ex)
						}
					}
				}
				for _, cv := range cands {
					if refs := cv.Referrers(); refs != nil {
						for _, rf := range *refs {
							if b, ok := rf.(*ssa.BinOp); ok {
								ifs = append(ifs, ifsOn(b)...)
							}
						}
					}
				}
			}
			for _, i := range ifs {
				if m := matchedSucc(i, c, boolRes); m != nil {
					tests = append(tests, test{c, m})
				}
			}
		}
		// only tests whose matched edge hands the input back unchanged are pass-through guards;
		// other signature tests (e.g. "is this an AcraStruct to re-encrypt?") serve a different purpose
		var guards []test
		for _, t := range tests {
			if len(t.matched.Instrs) > 0 {
				if ret, ok := t.matched.Instrs[len(t.matched.Instrs)-1].(*ssa.Return); ok && len(ret.Results) == 2 && retValue(ret, 0) == ssa.Value(data) && isNilConst(retValue(ret, 1)) {
					guards = append(guards, t)
				}
			}
		}
		tests = guards
		creators := 0
		for _, cs := range callsIn(fn) {
			what := isCreator(cs.Instr)
			if what == "" {
				continue
			}
			creators++
			construct := "create " + what
			pos := p.Pos(cs.Instr.Pos())
			if len(tests) == 0 {
				r.Bad("R01.2", name, construct, pos, "no signature test on the data parameter whose matched edge returns the input unchanged (data, nil): an already protected value is wrapped a second time or altered")
				continue
			}
			dominated := false
			leak := ""
			for _, t := range tests {
				if instrBefore(t.call, cs.Instr.(ssa.Instruction)) {
					dominated = true
				}
				if reaches(t.matched, cs.Block, nil) {
					leak = fmt.Sprintf("the envelope-creating call is reachable from the matched edge of the test at %s", p.Pos(t.call.Pos()))
				}
			}
			switch {
			case !dominated:
				r.Bad("R01.2", name, construct, pos, "no signature test on the data parameter precedes this call on every path")
			case leak != "":
				r.Bad("R01.2", name, construct, pos, leak)
			default:
				r.OK("R01.2", name, construct, pos, "guarded by signature test(s) on the data parameter")
			}
		}
		if creators == 0 {
			r.Bad("R01.2", name, "create envelope", p.Pos(fn.Pos()), "entry point no longer creates an envelope through a recognised call; the rule cannot see what it guards")
		}
		// a test is a pass-through guard when its matched edge returns the data parameter itself and a nil error
		type guardT struct {
			test
			isGuard bool
		}
		_ = guardT{}
		for _, t := range tests {
			okRet := false
			if len(t.matched.Instrs) > 0 {
				if ret, ok := t.matched.Instrs[len(t.matched.Instrs)-1].(*ssa.Return); ok && len(ret.Results) == 2 && retValue(ret, 0) == ssa.Value(data) && isNilConst(retValue(ret, 1)) {
					okRet = true
				}
			}
			if !okRet {
				continue
			}
			r.OK("R01.2", name, "matched edge of "+callText(p, t.call), p.Pos(t.call.Pos()), "returns the data parameter itself and a nil error")
		}
	}
}

func callText(p *Program, c *ssa.Call) string {
	if ce := p.callExprAt(c.Pos()); ce != nil {
		return types.ExprString(ce)
	}
	return c.String()
}

func ruleR013(p *Program, r *Report) {
	getH := p.FuncObj("crypto.GetHandlerByEnvelopeID")
	structID, _ := p.Lookup("crypto.AcraStructEnvelopeID").(*types.Const)
	blockID, _ := p.Lookup("crypto.AcraBlockEnvelopeID").(*types.Const)
	if getH == nil || structID == nil || blockID == nil {
		r.Anchor("R01.3", "crypto.GetHandlerByEnvelopeID / envelope id constants")
		return
	}
	for _, m := range []string{"Encrypt", "Decrypt", "EncryptSym", "DecryptSym", "EncryptSearchable", "DecryptSearchable", "EncryptSymSearchable", "DecryptSymSearchable"} {
		spec := "cmd/acra-translator/common.(*TranslatorService)." + m
		fn := p.Func(spec)
		if fn == nil || fn.Blocks == nil {
			r.Anchor("R01.3", spec)
			continue
		}
		want, wantName := structID, "AcraStructEnvelopeID"
		if strings.Contains(m, "Sym") {
			want, wantName = blockID, "AcraBlockEnvelopeID"
		}
		name := fnName(fn)
		gets := callsTo(fn, getH)
		if len(gets) != 1 {
			r.Bad("R01.3", name, "GetHandlerByEnvelopeID", p.Pos(fn.Pos()), fmt.Sprintf("expected exactly one handler lookup, found %d", len(gets)))
			continue
		}
		c, _ := gets[0].Instr.Common().Args[0].(*ssa.Const)
		okConst := c != nil && constValueEq(c.Value, want.Val())
		r.Check(okConst, "R01.3", name, "GetHandlerByEnvelopeID("+wantName+")", p.Pos(gets[0].Instr.Pos()), "handler of the operation's own envelope kind", "the operation looks up the handler of the other envelope kind: data protected by the paired operation can no longer be revealed by this one")
		// the handler value reaches the registry call
		hv := extractOf(gets[0].Instr.Value(), 0)
		used := false
		for _, cs := range callsIn(fn) {
			co := cs.Callee
			if co == nil || (co.Name() != "EncryptWithHandler" && co.Name() != "DecryptWithHandler") {
				continue
			}
			for _, a := range cs.Instr.Common().Args {
				if hv != nil && a == ssa.Value(hv) {
					used = true
				}
			}
		}
		r.Check(used, "R01.3", name, "handler passed to registry call", p.Pos(fn.Pos()), "the looked-up handler is the one handed to EncryptWithHandler/DecryptWithHandler", "the looked-up handler is not the one used for the operation")
	}
}

// forbidden direct calls for API front ends
func isEnvelopeOrKeyCall(co *types.Func) string {
	if co == nil || co.Pkg() == nil {
		return ""
	}
	pk := strings.TrimPrefix(co.Pkg().Path(), acraMod+"/")
	n := co.Name()
	switch {
	case pk == "acrablock" && strings.HasPrefix(n, "CreateAcraBlock"),
		pk == "acrastruct" && (strings.HasPrefix(n, "CreateAcrastruct") || strings.HasPrefix(n, "Decrypt")),
		pk == "hmac" && n == "GenerateHMAC",
		pk == "crypto" && (n == "SerializeEncryptedData" || n == "EncryptWithHandler" || n == "DecryptWithHandler"):
		return pk + "." + n
	}
	if strings.HasPrefix(pk, "keystore") && (strings.HasPrefix(n, "Get") && strings.Contains(n, "Key")) {
		return "keystore " + n
	}
	return ""
}

func ruleR014(p *Program, r *Report) {
	svcI := p.Type("cmd/acra-translator/common.ITranslatorService")
	grpcSvc := p.Type("cmd/acra-translator/grpc_api.TranslatorService")
	decI := p.Type("cmd/acra-translator/grpc_api.DecryptService")
	if svcI == nil || grpcSvc == nil || decI == nil {
		r.Anchor("R01.4", "ITranslatorService / grpc_api.TranslatorService / grpc_api.DecryptService")
		return
	}
	svcIface := svcI.Type().Underlying().(*types.Interface)
	opNames := map[string]bool{}
	for i := 0; i < svcIface.NumMethods(); i++ {
		opNames[svcIface.Method(i).Name()] = true
	}
	check := func(fn *ssa.Function, op string, where string) {
		name := fnName(fn)
		delegated := false
		// include closures defined inside
		var fns []*ssa.Function
		var collect func(f *ssa.Function)
		collect = func(f *ssa.Function) {
			fns = append(fns, f)
			for _, a := range f.AnonFuncs {
				collect(a)
			}
		}
		collect(fn)
		for _, f := range fns {
			for _, cs := range callsIn(f) {
				cc := cs.Instr.Common()
				if cc.IsInvoke() && cc.Method.Name() == op && types.Identical(cc.Value.Type(), svcI.Type()) {
					delegated = true
				}
				if bad := isEnvelopeOrKeyCall(cs.Callee); bad != "" {
					r.Bad("R01.4", name, "direct call "+bad, p.Pos(cs.Instr.Pos()), where+" performs envelope/key work itself instead of going through the common service: this entry point is a different operation from its siblings (no pass-through of protected input, different container format)")
				}
			}
		}
		r.Check(delegated, "R01.4", name, "delegates to ITranslatorService."+op, p.Pos(fn.Pos()), "calls the common service method of the same operation", where+" does not call ITranslatorService."+op)
	}
	// gRPC: every method of DecryptService
	di := decI.Type().Underlying().(*types.Interface)
	var names []string
	for i := 0; i < di.NumMethods(); i++ {
		names = append(names, di.Method(i).Name())
	}
	sort.Strings(names)
	for _, m := range names {
		if !ast_IsExported(m) {
			continue // mustEmbedUnimplemented*
		}
		obj, _, _ := types.LookupFieldOrMethod(types.NewPointer(grpcSvc.Type()), true, grpcSvc.Pkg(), m)
		mf, _ := obj.(*types.Func)
		if mf == nil || recvNamed(mf) != grpcSvc {
			r.Bad("R01.4", "cmd/acra-translator/grpc_api.TranslatorService."+m, "declares "+m, p.Pos(grpcSvc.Pos()), "RPC "+m+" is not implemented by the service itself (promoted from an Unimplemented* embed)")
			continue
		}
		fn := p.Func2(mf)
		if fn == nil || fn.Blocks == nil {
			r.Anchor("R01.4", "grpc TranslatorService."+m)
			continue
		}
		if !opNames[m] {
			r.Bad("R01.4", fnName(fn), "operation "+m, p.Pos(fn.Pos()), "RPC has no ITranslatorService operation of the same name")
			continue
		}
		check(fn, m, "gRPC method "+m)
	}
	// HTTP: every method of HTTPService whose body (incl. closures) invokes an ITranslatorService method
	httpSvc := p.Type("cmd/acra-translator/http_api.HTTPService")
	if httpSvc == nil {
		r.Anchor("R01.4", "http_api.HTTPService")
		return
	}
	for _, fn := range p.SrcFuncs("cmd/acra-translator/http_api") {
		if fn.Parent() != nil || fn.Signature.Recv() == nil {
			continue
		}
		// which op does it call?
		ops := map[string]bool{}
		touches := false
		var collect func(f *ssa.Function)
		collect = func(f *ssa.Function) {
			for _, cs := range callsIn(f) {
				cc := cs.Instr.Common()
				if cc.IsInvoke() && types.Identical(cc.Value.Type(), svcI.Type()) {
					ops[cc.Method.Name()] = true
				}
				if isEnvelopeOrKeyCall(cs.Callee) != "" {
					touches = true
				}
			}
			for _, a := range f.AnonFuncs {
				collect(a)
			}
		}
		collect(fn)
		if len(ops) == 0 && !touches {
			continue
		}
		for op := range ops {
			check(fn, op, "HTTP handler "+fn.Name())
		}
		if len(ops) == 0 {
			check(fn, "<none>", "HTTP handler "+fn.Name())
		}
	}
}

func ast_IsExported(s string) bool { return s != "" && s[0] >= 'A' && s[0] <= 'Z' }

func ruleR015(p *Program, r *Report) {
	fn := p.Func("crypto.matchOldContainer")
	structID, _ := p.Lookup("crypto.AcraStructEnvelopeID").(*types.Const)
	blockID, _ := p.Lookup("crypto.AcraBlockEnvelopeID").(*types.Const)
	validS := p.FuncObj("acrastruct.ValidateAcraStructLength")
	validB := p.FuncObj("acrablock.ExtractAcraBlockFromData")
	if fn == nil || fn.Blocks == nil || structID == nil || blockID == nil || validS == nil || validB == nil {
		r.Anchor("R01.5", "crypto.matchOldContainer and validators")
		return
	}
	name := fnName(fn)
	for _, ret := range returnsOf(fn) {
		c, ok := ret.Results[0].(*ssa.Const)
		if !ok {
			r.Bad("R01.5", name, "return of non-constant id", p.Pos(ret.Pos()), "envelope id is not a constant")
			continue
		}
		var validator *types.Func
		var which string
		switch {
		case constValueEq(c.Value, structID.Val()):
			validator, which = validS, "AcraStructEnvelopeID"
		case constValueEq(c.Value, blockID.Val()):
			validator, which = validB, "AcraBlockEnvelopeID"
		default:
			// the "no match" return (id 0 with error)
			if !isNilConst(ret.Results[2]) {
				r.OK("R01.5", name, "return no-match", p.Pos(ret.Pos()), "error return")
			} else {
				r.Bad("R01.5", name, "return unknown id with nil error", p.Pos(ret.Pos()), "unknown id returned as success")
			}
			continue
		}
		ok = false
		for _, cs := range callsTo(fn, validator) {
			call := cs.Instr.(*ssa.Call)
			// error value
			var errv ssa.Value = call
			if call.Common().Signature().Results().Len() > 1 {
				errv = extractOf(call, call.Common().Signature().Results().Len()-1)
			}
			if errv == nil {
				continue
			}
			if refs := errv.Referrers(); refs != nil {
				for _, rf := range *refs {
					if b, isB := rf.(*ssa.BinOp); isB {
						for _, i := range ifsOn(b) {
							if m := matchedSucc(i, call, false); m != nil && m.Dominates(ret.Block()) {
								ok = true
							}
						}
					}
				}
			}
		}
		r.Check(ok, "R01.5", name, "return "+which, p.Pos(ret.Pos()), "dominated by the success edge of "+validator.Name(), which+" is returned without the matching validator having succeeded: old containers are labelled with the wrong kind")
	}
}

func init() {
	mut("C01", "registry serialises with the other handler's id", "crypto/registry_handler.go", "	return SerializeEncryptedData(encrypted, handler.ID())\n}\n\n// EncryptWithHandler", "	return SerializeEncryptedData(encrypted, AcraBlockEnvelopeID)\n}\n\n// EncryptWithHandler", "R01.1", "RegistryHandler).EncryptWithClientID")
	mut("C01", "poison AcraBlock labelled as AcraStruct", "poison/poison.go", "crypto.SerializeEncryptedData(acraBlock, crypto.AcraBlockEnvelopeID)", "crypto.SerializeEncryptedData(acraBlock, crypto.AcraStructEnvelopeID)", "R01.1", "CreateSymmetricPoisonRecord")
	mut("C01", "drop the pass-through guard in EncryptWithHandler", "crypto/registry_handler.go", "should not be encrypted second time\n	if handler.MatchDataSignature(data) || r.MatchDataSignature(data) {\n		return data, nil\n	}\n	encrypted, err := handler.EncryptWithClientID(id, data,", "should not be encrypted second time\n	if len(id) == 0 && (handler.MatchDataSignature(data) || r.MatchDataSignature(data)) {\n		return data, nil\n	}\n	encrypted, err := handler.EncryptWithClientID(id, data,", "R01.2", "EncryptWithHandler")
	mut("C01", "matched branch returns a re-sliced copy", "crypto/acrastruct.go", "	if err := acrastruct.ValidateAcraStructLength(data); err == nil {\n		return data, nil\n	}\n	publicKey", "	if err := acrastruct.ValidateAcraStructLength(data); err == nil {\n		return append([]byte{}, data[:len(data)-1]...), nil\n	}\n	publicKey", "R01.2", "AcraStructHandler")
	mut("C01", "DecryptSym asks for the AcraStruct handler", "cmd/acra-translator/common/service.go", "	handler, err := crypto.GetHandlerByEnvelopeID(crypto.AcraBlockEnvelopeID)\n	if err != nil {\n		return nil, ErrCantDecrypt\n	}\n\n	decrypted, err := service.handler.DecryptWithHandler(handler, acraBlock, dataContext)", "	handler, err := crypto.GetHandlerByEnvelopeID(crypto.AcraStructEnvelopeID)\n	if err != nil {\n		return nil, ErrCantDecrypt\n	}\n\n	decrypted, err := service.handler.DecryptWithHandler(handler, acraBlock, dataContext)", "R01.3", "DecryptSym")
	mut("C01", "HTTP encryptSym builds the block itself", "cmd/acra-translator/http_api/service.go", "encryptedData, err := service.service.EncryptSym(service.ctx, request.Data, connectionClientID, nil)", "encryptedData, err := service.translatorData.Keystorage.GetClientIDSymmetricKey(connectionClientID)", "R01.4", "_encryptSym")
	mut("C01", "old-container matcher swaps the ids", "crypto/registry_handler.go", "		return AcraStructEnvelopeID, acrastruct.GetDataLengthFromAcraStruct(data) + acrastruct.GetMinAcraStructLength(), nil", "		return AcraBlockEnvelopeID, acrastruct.GetDataLengthFromAcraStruct(data) + acrastruct.GetMinAcraStructLength(), nil", "R01.5", "matchOldContainer")
}

// ruleR016: cursor arithmetic of the tag scanners.
func ruleR016(p *Program, r *Report) {
	for _, spec := range []string{"crypto.(*EnvelopeDetector).OnColumn", "acrastruct.ProcessAcraStructs", "acrablock.ProcessAcraBlocks"} {
		fn := p.Func(spec)
		if fn == nil || fn.Blocks == nil {
			r.Anchor("R01.6", spec)
			continue
		}
		in := paramByName(fn, "inBuffer")
		if in == nil {
			r.Anchor("R01.6", spec+" parameter inBuffer")
			continue
		}
		name := fnName(fn)
		// cursor phis: integer phis used as the low bound of a slice of inBuffer
		cursor := map[ssa.Value]bool{}
		for _, b := range fn.Blocks {
			for _, ins := range b.Instrs {
				sl, ok := ins.(*ssa.Slice)
				if !ok || sl.X != ssa.Value(in) || sl.Low == nil {
					continue
				}
				if ph, ok := sl.Low.(*ssa.Phi); ok {
					cursor[ph] = true
				}
			}
		}
		if len(cursor) == 0 {
			r.Bad("R01.6", name, "scan cursor", p.Pos(fn.Pos()), "no cursor into inBuffer found: the scanner has changed shape and the rule cannot follow it")
			continue
		}
		// close over phis feeding each other
		for changed := true; changed; {
			changed = false
			for c := range cursor {
				ph, ok := c.(*ssa.Phi)
				if !ok {
					continue
				}
				for _, e := range ph.Edges {
					if ep, ok := e.(*ssa.Phi); ok && !cursor[ep] {
						cursor[ep] = true
						changed = true
					}
				}
			}
		}
		fromData := func(v ssa.Value) bool {
			// parsed from the input at the cursor: computed by a call that is given (a slice of) inBuffer
			for x := range backClosure(v) {
				if c, ok := x.(*ssa.Call); ok {
					if _, isB := c.Call.Value.(*ssa.Builtin); isB {
						continue
					}
					for _, a := range c.Call.Args {
						for y := range backClosure(a) {
							if y == ssa.Value(in) {
								return true
							}
						}
					}
				}
			}
			return false
		}
		seenStep := map[ssa.Value]bool{}
		var judge func(v ssa.Value)
		judge = func(v ssa.Value) {
			if seenStep[v] || cursor[v] {
				return
			}
			seenStep[v] = true
			if c, ok := v.(*ssa.Const); ok {
				r.Check(c.Int64() == 0, "R01.6", name, "cursor start "+c.String(), p.Pos(fn.Pos()), "scan starts at 0", "cursor initialised to a non-zero constant")
				return
			}
			bo, ok := v.(*ssa.BinOp)
			if !ok || bo.Op != token.ADD {
				r.Bad("R01.6", name, "cursor := "+v.String(), p.Pos(v.Pos()), "cursor is set by something other than an addition to the previous position")
				return
			}
			x, y := bo.X, bo.Y
			isCur := func(v ssa.Value) bool {
				if cursor[v] {
					return true
				}
				if b2, ok := v.(*ssa.BinOp); ok && seenStep[b2] {
					return true
				}
				return false
			}
			// found-position form: bytes.Index(inBuffer[cursor:], tag) + cursor
			if c, ok := x.(*ssa.Call); ok && isCur(y) {
				if co := calleeOfCommon(c.Common()); co != nil && co.FullName() == "bytes.Index" {
					r.OK("R01.6", name, "cursor = found tag position", p.Pos(v.Pos()), "bytes.Index offset + cursor")
					return
				}
			}
			if !isCur(x) {
				// x may itself be a step (t22 + 1)
				if xb, ok := x.(*ssa.BinOp); ok {
					judge(xb)
					if !seenStep[xb] {
						r.Bad("R01.6", name, "cursor step base", p.Pos(v.Pos()), "step is not relative to the cursor")
						return
					}
				} else {
					r.Bad("R01.6", name, "cursor step base "+x.Name(), p.Pos(v.Pos()), "step is not relative to the cursor")
					return
				}
			}
			construct := "cursor += " + stepText(p, y)
			switch yc := y.(type) {
			case *ssa.Const:
				r.Check(yc.Int64() == 1, "R01.6", name, construct, p.Pos(v.Pos()), "resynchronise one byte further", "after a failed recognition the scanner skips more than one byte: an envelope starting inside the skipped bytes (e.g. right after a run of tag-like '%' characters) is never found")
			default:
				if fromData(y) {
					r.OK("R01.6", name, construct, p.Pos(v.Pos()), "advance by a length parsed from the data at the cursor")
				} else {
					r.Bad("R01.6", name, construct, p.Pos(v.Pos()), "the scanner advances by an amount that is neither 1 nor a length parsed from the envelope at the cursor: bytes that may start a real envelope are skipped")
				}
			}
		}
		for c := range cursor {
			if ph, ok := c.(*ssa.Phi); ok {
				for _, e := range ph.Edges {
					judge(e)
				}
			}
		}
	}
}

func stepText(p *Program, v ssa.Value) string {
	if c, ok := v.(*ssa.Const); ok {
		return c.Value.String()
	}
	if c, ok := v.(*ssa.Call); ok {
		return callText(p, c)
	}
	if ex, ok := v.(*ssa.Extract); ok {
		if c, ok := ex.Tuple.(*ssa.Call); ok {
			return fmt.Sprintf("result %d of %s", ex.Index, callText(p, c))
		}
	}
	return "computed length"
}

// ruleHmacProcessorState: every exit of Processor.OnColumn defines hashData.
func ruleHmacProcessorState(p *Program, r *Report, rule string) {
	fn := p.Func("hmac.(*Processor).OnColumn")
	if fn == nil || fn.Blocks == nil {
		r.Anchor(rule, "hmac.(*Processor).OnColumn")
		return
	}
	stores := storesToRecvField(fn, "hashData")
	// stores made by callees on the same receiver (helper such as resetMatchedHash) count at the call site
	var events []ssa.Instruction
	for _, s := range stores {
		events = append(events, s)
	}
	for _, cs := range callsIn(fn) {
		callee := cs.Instr.Common().StaticCallee()
		if callee == nil || callee.Blocks == nil || len(cs.Instr.Common().Args) == 0 || cs.Instr.Common().Args[0] != ssa.Value(fn.Params[0]) {
			continue
		}
		if len(storesToRecvField(callee, "hashData")) > 0 && len(exitsWithoutEvent(callee, toInstrs(storesToRecvField(callee, "hashData")))) == 0 {
			events = append(events, cs.Instr.(ssa.Instruction))
		}
	}
	if len(events) == 0 {
		r.Bad(rule, fnName(fn), "stores to hashData", p.Pos(fn.Pos()), "the processor no longer maintains hashData here; the rule cannot follow the state")
		return
	}
	bad := exitsWithoutEvent(fn, events)
	badSet := map[*ssa.Return]bool{}
	for _, b := range bad {
		badSet[b] = true
	}
	for _, ret := range returnsOf(fn) {
		if isRecoverBlock(ret.Block()) {
			continue
		}
		construct := "exit " + retText(p, ret)
		r.Check(!badSet[ret], rule, fnName(fn), construct, p.Pos(ret.Pos()), "hashData is cleared or re-armed on every path to this exit", "this exit can be reached without touching hashData: the hash armed for the previous value stays in force for the next column")
	}
}

func toInstrs(s []*ssa.Store) []ssa.Instruction {
	var out []ssa.Instruction
	for _, x := range s {
		out = append(out, x)
	}
	return out
}

// retText renders the source text of a return statement (stable key: no line numbers).
func retText(p *Program, ret *ssa.Return) string {
	pos := ret.Pos()
	if !pos.IsValid() {
		return "return"
	}
	if p.retIdx == nil {
		p.retIdx = map[token.Pos]string{}
		for _, pk := range p.Acra {
			for _, f := range pk.Syntax {
				ast.Inspect(f, func(n ast.Node) bool {
					if rs, ok := n.(*ast.ReturnStmt); ok {
						var parts []string
						for _, e := range rs.Results {
							parts = append(parts, types.ExprString(e))
						}
						p.retIdx[rs.Return] = "return " + strings.Join(parts, ", ")
					}
					return true
				})
			}
		}
	}
	if s, ok := p.retIdx[pos]; ok {
		return s
	}
	return "return"
}

func ruleR0110(p *Program, r *Report) {
	for _, t := range []struct{ spec, keys, attempt string }{
		{"acrablock.(AcraBlock).Decrypt", "keys", "Decrypt"},
		{"acrastruct.DecryptRotatedAcrastruct", "privateKeys", "DecryptAcrastruct"},
	} {
		fn := p.Func(t.spec)
		if fn == nil || fn.Blocks == nil {
			r.Anchor("R01.10", t.spec)
			continue
		}
		keys := paramByName(fn, t.keys)
		ok, why := false, "no decryption attempt found"
		for _, c := range callsNamed(fn, t.attempt) {
			// the attempt uses an element of the keys parameter
			usesKey := false
			for _, a := range c.Common().Args {
				for v := range backClosure(a) {
					if ia, isIa := v.(*ssa.IndexAddr); isIa && ia.X == ssa.Value(keys) {
						usesKey = true
					}
				}
			}
			if !usesKey {
				continue
			}
			// inside a loop: the block can reach itself
			inLoop := false
			for _, s := range c.Block().Succs {
				if s == c.Block() || reaches(s, c.Block(), nil) {
					inLoop = true
				}
			}
			if !inLoop {
				why = "the decryption with a key from the list is attempted once, outside the loop over the keys"
				continue
			}
			// its failure edge gets back to the attempt (next key) rather than to a return only
			var errV ssa.Value
			if tup, isT := c.Type().(*types.Tuple); isT {
				errV = extractOf(c, tup.Len()-1)
			}
			cont := false
			for _, i := range allIfs(fn) {
				if _, nonNil, isN := nilBranches(i, errV); isN {
					if nonNil == c.Block() || reaches(nonNil, c.Block(), nil) {
						cont = true
					}
				}
			}
			if cont {
				ok = true
			} else {
				why = "a failed attempt ends the call instead of trying the next key"
			}
		}
		r.Check(ok, "R01.10", fnName(fn), "decryption is attempted with every key until one fits", p.Pos(fn.Pos()), "attempt inside the loop; failure continues", why+": a value protected under an older key (or under a key whose 2-byte id collides with an earlier one in the list) can no longer be revealed by its owner")
	}
}

func init() {
	mut("C01", "AcraBlock gives up after the first key with a matching id", "acrablock/acrablock.go", "			if err == nil {\n				dataEncryptionKey = decryptedKey\n				break\n			}", "			if err != nil {\n				return nil, ErrInvalidAcraBlock\n			}\n			dataEncryptionKey = decryptedKey\n			break", "R01.10", "every key")
	mut("C01", "searchable write hashes before it knows whether the value is an envelope", "hmac/dataEncryptor.go", "		var encryptedData, hash []byte\n		if e.decryptor.MatchDataSignature(data) {", "		var encryptedData, hash []byte\n		hash0 := GenerateHMAC(key, data)\n		_ = hash0\n		if e.decryptor.MatchDataSignature(data) {", "R01.9", "already protected value")
}

// ---- R01.11
func ruleR0111(p *Program, r *Report) { rulePerCallDigest(p, r, "R01.11") }

func rulePerCallDigest(p *Program, r *Report, rule string) {
	n := 0
	for _, fn := range p.srcFns {
		pp := strings.TrimPrefix(fnPkgPath(fn), acraMod+"/")
		if !(pp == "acrablock" || pp == "acrastruct" || pp == "crypto" || pp == "hmac" || strings.HasPrefix(pp, "pseudonymization") || pp == "logging" || strings.HasPrefix(pp, "keystore/v2/keystore/crypto")) {
			continue
		}
		for _, b := range fn.Blocks {
			for _, in := range b.Instrs {
				c, ok := in.(*ssa.Call)
				if !ok || !c.Call.IsInvoke() {
					continue
				}
				m := c.Call.Method.Name()
				if m != "Write" && m != "Reset" && m != "Sum" {
					continue
				}
				if !strings.HasSuffix(c.Call.Value.Type().String(), "hash.Hash") {
					continue
				}
				n++
				bad := ""
				for _, leaf := range leavesOf(c.Call.Value, leafOpts{}) {
					switch x := leaf.(type) {
					case *ssa.Call:
						continue // created here (sha256.New, hmac.New, a constructor of the package)
					case *ssa.Extract:
						_ = x
						continue
					case *ssa.Const:
						continue // nil on a path that is replaced
					}
					bad = "the digest comes from " + exprTextOf(p, leaf) + " (" + fmt.Sprintf("%T", leaf) + "), not from a constructor call in this function"
				}
				r.Check(bad == "", rule, fnName(fn), "hash."+m+" on a digest created in this call", p.Pos(c.Pos()), "receiver created by a constructor call in the function", bad+": the object outlives the call and is shared by concurrent requests, whose Reset/Write/Sum sequences interleave")
			}
		}
	}
	if n < 3 {
		r.Bad(rule, "crypto helpers", "digest uses", "-", fmt.Sprintf("%d uses of hash.Hash found, at least 3 confirmed by reading", n))
	}
}

func init() {
	mut("C01", "v2 signer keeps one HMAC state for all callers (original defect)", "keystore/v2/keystore/crypto/signature.go", "func (s *SignSha256) Sign(data, context []byte) []byte {\n	mac := hmac.New(sha256.New, s.key)", "var sharedMAC = hmac.New(sha256.New, nil)\n\nfunc (s *SignSha256) Sign(data, context []byte) []byte {\n	mac := sharedMAC\n	mac.Reset()", "R01.11", "SignSha256")
}
