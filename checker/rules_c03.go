package main

import (
	"go/token"
	"go/types"
	"strings"

	"golang.org/x/tools/go/ssa"
)

func init() {
	register(&Property{ID: "C03", Patterns: []string{"./..."}, Run: runC03})
}

var c03Files = []string{
	"acrablock/acrablock.go", "acrablock/utils.go", "acrastruct/utils.go",
	"crypto/registry_handler.go", "crypto/envelope_detector.go", "hmac/hash.go", "hmac/dataProcessor.go",
}

func runC03(p *Program, r *Report) {
	r.Rule("R03.1", "E1", 20, "never brings the handler down: in the envelope decoders (AcraBlock, AcraStruct, serialized container, hash prefix) every slice bound, index and allocation size that derives from a header field, a subtraction or a constant offset into the received value is proven in range from the dominating conditions (same prover and confirmed-table as R14.1)")
	boundsRuleK(p, r, "R03.1", c03Files, r141Confirmed, true)
	ruleContainerLengthWitness(p, r, "R03.1") // the confirmed allocation in DeserializeEncryptedData rests on this comparison
	r.Rule("R03.2", "E3", 8, "fail-closed verification: (a) AcraBlock.Decrypt decrypts the payload only with a key obtained from the key-block decryption, which runs only on the key-id match edge, both under the caller's context, and every failure returns an error; (b) every search-hash comparison (IsEqual) answers 'not equal' with a non-nil error and no nil-error return is reachable from that edge")
	ruleR032(p, r)
	r.Rule("R03.3", "E3", 3, "transparent path hands damaged values back unchanged: DecryptHandler.OnCryptoEnvelope returns the very container it was given (and no error) when decryption fails; EnvelopeDetector.OnColumn re-emits the input byte at the cursor on every edge where no callback produced plaintext; a non-decryption error aborts with the original buffer")
	ruleR033(p, r)
	r.Rule("R03.4", "E2", 1, "a buffer that was handed to the caller is never rewritten in place: the searchable-column processor returns its saved copy of the stored value (rawData) when verification fails and the proxy keeps that slice until the row is written; every in-place write into that field's backing array (copy into it, append onto a re-slice of it, element store) must follow a fresh allocation assigned to the field in the same function")
	ruleR034(p, r)
	r.Rule("R03.5", "E3", 4, "every candidate position is examined: the inline envelope scanner advances to the tag it found, by one byte when no envelope starts there, or by the length of the envelope it replaced (a damaged or foreign value next to a run of tag bytes is still found and handled)")
	ruleScanAdvance(p, r, "R03.5")
	r.Rule("R03.6", "E3", 4, "success only after the comparison: in every function that compares a search hash with the decrypted content, each nil-error return is reachable only over the 'equal' edge of IsEqual or over the edge of a nil test that there is no hash to compare - no cache of earlier verdicts, flag or length test opens another way to success")
	ruleVerifiedSuccess(p, r, "R03.6")
}

func ruleR032(p *Program, r *Report) {
	// (a) AcraBlock.Decrypt
	if fn := p.Func("acrablock.(AcraBlock).Decrypt"); fn == nil || fn.Blocks == nil {
		r.Anchor("R03.2", "acrablock.(AcraBlock).Decrypt")
	} else {
		name := fnName(fn)
		ctxParam := paramByName(fn, "context")
		var keyDec, dataDec *ssa.Call
		var eq *ssa.Call
		for _, cs := range callsIn(fn) {
			c, ok := cs.Instr.(*ssa.Call)
			if !ok {
				continue
			}
			cc := c.Common()
			if cc.IsInvoke() && cc.Method.Name() == "Decrypt" {
				if keyDec == nil {
					keyDec = c
				} else {
					dataDec = c
				}
			}
			if cs.Callee != nil && cs.Callee.FullName() == "bytes.Equal" {
				eq = c
			}
		}
		if keyDec == nil || dataDec == nil || eq == nil || ctxParam == nil {
			r.Bad("R03.2", name, "key decrypt / data decrypt / key-id comparison", p.Pos(fn.Pos()), "the two-stage decryption with a key-id comparison is no longer recognisable")
		} else {
			// order: the call whose key argument derives from the other's result is the data decryption
			if backClosure(keyDec.Common().Args[0])[extractOrSelf(dataDec, 0)] {
				keyDec, dataDec = dataDec, keyDec
			}
			dk := dataDec.Common().Args[0]
			derives := backClosure(dk)[extractOrSelf(keyDec, 0)]
			other := ""
			for _, leaf := range leavesOf(dk, leafOpts{}) {
				if isNilConst(leaf) || leaf == extractOrSelf(keyDec, 0) {
					continue
				}
				other = leaf.String()
			}
			r.Check(derives && other == "", "R03.2", name, "payload key comes from the key block", p.Pos(dataDec.Pos()), "data key derives only from the key-block decryption result", "the payload is decrypted with a key that does not come (only) from the authenticated key block: "+other)
			// key decrypt only on the key-id match edge
			onMatch := false
			for _, i := range ifsOn(eq) {
				// reachable through the match edge, and not from the mismatch edge without comparing again
				if i.Block().Succs[0].Dominates(keyDec.Block()) && !reaches(i.Block().Succs[1], keyDec.Block(), map[*ssa.BasicBlock]bool{eq.Block(): true}) {
					onMatch = true
				}
			}
			r.Check(onMatch, "R03.2", name, "key block opened only on key-id match", p.Pos(keyDec.Pos()), "dominated by the true edge of bytes.Equal(keyID, blockKeyID)", "the key block is opened without the key id of the envelope matching the key offered")
			// context binding
			ctxOK := true
			for _, c := range []*ssa.Call{keyDec, dataDec} {
				args := c.Common().Args
				if args[len(args)-1] != ssa.Value(ctxParam) {
					ctxOK = false
				}
			}
			r.Check(ctxOK, "R03.2", name, "both stages bound to the caller's context", p.Pos(fn.Pos()), "context parameter passed to key and data decryption", "a decryption stage no longer takes the caller's context as associated data")
			// data decrypt error => error return; success returns its result
			errv := extractOf(dataDec, 1)
			okErr := false
			if errv != nil {
				if refs := errv.Referrers(); refs != nil {
					for _, rf := range *refs {
						if bo, ok := rf.(*ssa.BinOp); ok {
							for _, i := range ifsOn(bo) {
								if nilS, nonNil, ok := nilBranches(i, errv); ok {
									e1 := allReturns(nonNil, nil, func(ret *ssa.Return) bool { return !isNilConst(retValue(ret, 1)) })
									e2 := allReturns(nilS, nil, func(ret *ssa.Return) bool {
										return retValue(ret, 0) == ssa.Value(extractOf(dataDec, 0)) && isNilConst(retValue(ret, 1))
									})
									okErr = e1 && e2
								}
							}
						}
					}
				}
			}
			r.Check(okErr, "R03.2", name, "payload failure is an error, success returns the decrypted payload", p.Pos(dataDec.Pos()), "err != nil edge returns an error; nil edge returns the AEAD output", "a failed payload decryption does not end in an error, or the success path returns something other than the AEAD output")
			// no nil-error return that skips the data decryption
			skip := false
			for _, ret := range returnsOf(fn) {
				if isRecoverBlock(ret.Block()) || !isNilConst(retValue(ret, 1)) {
					continue
				}
				if reaches(fn.Blocks[0], ret.Block(), map[*ssa.BasicBlock]bool{dataDec.Block(): true}) && ret.Block() != dataDec.Block() {
					skip = true
				}
			}
			r.Check(!skip, "R03.2", name, "every success passes the payload decryption", p.Pos(fn.Pos()), "no nil-error return avoids the AEAD call", "a success return can be reached without decrypting (authenticating) the payload")
		}
	}
	// (b) hash comparisons
	n := 0
	for _, fn := range p.srcFns {
		pp := strings.TrimPrefix(fnPkgPath(fn), acraMod+"/")
		if pp != "hmac" && pp != "cmd/acra-translator/common" {
			continue
		}
		for _, cs := range callsIn(fn) {
			c, ok := cs.Instr.(*ssa.Call)
			if !ok || cs.Callee == nil || cs.Callee.Name() != "IsEqual" {
				continue
			}
			if cs.Callee.Pkg() == nil || !strings.HasSuffix(cs.Callee.Pkg().Path(), "/hmac") {
				continue
			}
			n++
			name := fnName(fn)
			construct := "IsEqual(" + operandText(p, c) + ")"
			// the not-equal successor(s)
			var ne []*ssa.BasicBlock
			for _, i := range ifsOn(c) {
				ne = append(ne, i.Block().Succs[1])
			}
			if refs := c.Referrers(); refs != nil {
				for _, rf := range *refs {
					if u, ok := rf.(*ssa.UnOp); ok && u.Op == token.NOT {
						for _, i := range ifsOn(u) {
							ne = append(ne, i.Block().Succs[0])
						}
					}
				}
			}
			if len(ne) == 0 {
				r.Bad("R03.2", name, construct, p.Pos(c.Pos()), "the result of the hash comparison is not branched on")
				continue
			}
			errIdx := fn.Signature.Results().Len() - 1
			if fn.Signature.Results().Len() == 0 || !isErrorType(fn.Signature.Results().At(errIdx).Type()) {
				// IsEqual itself etc.
				continue
			}
			good := true
			for _, b := range ne {
				if !allReturns(b, nil, func(ret *ssa.Return) bool { return !isNilConst(retValue(ret, errIdx)) }) {
					good = false
				}
			}
			r.Check(good, "R03.2", name, construct, p.Pos(c.Pos()), "'not equal' edge returns a non-nil error on every path", "a value whose search hash does not match its decrypted content is handed out without an error")
		}
	}
	if n == 0 {
		r.Bad("R03.2", "hmac", "IsEqual call sites", "-", "no hash comparison found")
	}
}

func extractOrSelf(c *ssa.Call, idx int) ssa.Value {
	if c.Common().Signature().Results().Len() > 1 {
		if ex := extractOf(c, idx); ex != nil {
			return ex
		}
	}
	return c
}

func ruleR033(p *Program, r *Report) {
	if fn := p.Func("crypto.(DecryptHandler).OnCryptoEnvelope"); fn == nil || fn.Blocks == nil {
		r.Anchor("R03.3", "crypto.(DecryptHandler).OnCryptoEnvelope")
	} else {
		container := paramByName(fn, "container")
		ok := false
		for _, cs := range callsIn(fn) {
			cc := cs.Instr.Common()
			if !cc.IsInvoke() || cc.Method.Name() != "Process" {
				continue
			}
			errv := extractOf(cs.Instr.Value(), 1)
			if errv == nil {
				continue
			}
			if refs := errv.Referrers(); refs != nil {
				for _, rf := range *refs {
					if bo, isB := rf.(*ssa.BinOp); isB {
						for _, i := range ifsOn(bo) {
							if _, nonNil, isN := nilBranches(i, errv); isN {
								ok = allReturns(nonNil, nil, func(ret *ssa.Return) bool {
									return retValue(ret, 0) == ssa.Value(container) && isNilConst(retValue(ret, 1))
								})
							}
						}
					}
				}
			}
		}
		r.Check(ok, "R03.3", fnName(fn), "failed decryption returns the input container", p.Pos(fn.Pos()), "err != nil edge returns (container, nil)", "when a value cannot be decrypted the client no longer receives the stored bytes unchanged")
	}
	// EnvelopeDetector.OnColumn: non-ErrDecryptionError callback error returns inBuffer and the error
	if fn := p.Func("crypto.(*EnvelopeDetector).OnColumn"); fn == nil || fn.Blocks == nil {
		r.Anchor("R03.3", "crypto.(*EnvelopeDetector).OnColumn")
	} else {
		in := paramByName(fn, "inBuffer")
		name := fnName(fn)
		// every return either returns inBuffer (untouched) or the rebuilt outBuffer with nil error; returns with non-nil error return inBuffer
		good := true
		for _, ret := range returnsOf(fn) {
			if isRecoverBlock(ret.Block()) {
				continue
			}
			if !isNilConst(retValue(ret, 2)) && retValue(ret, 1) != ssa.Value(in) {
				good = false
			}
		}
		r.Check(good, "R03.3", name, "error exits return the original buffer", p.Pos(fn.Pos()), "every return with a non-nil error returns inBuffer itself", "an error exit returns a partially rewritten buffer")
		// the single-byte re-emission: every append of a single input byte uses the cursor's current position
		nEmit := 0
		for _, cs := range callsIn(fn) {
			c, ok := cs.Instr.(*ssa.Call)
			if !ok {
				continue
			}
			if b, isB := c.Call.Value.(*ssa.Builtin); !isB || b.Name() != "append" {
				continue
			}
			// append(outBuffer, inBuffer[idx]) is lowered to append(out, slice-of-new-array...) ; detect the IndexAddr on inBuffer feeding it
			for v := range backClosure(c.Call.Args[1]) {
				if ia, ok := v.(*ssa.IndexAddr); ok && ia.X == ssa.Value(in) {
					nEmit++
				}
			}
		}
		r.Check(nEmit >= 3, "R03.3", name, "undecryptable positions re-emit the input byte", p.Pos(fn.Pos()), "single input bytes are copied to the output on the resynchronisation edges", "the scanner no longer copies the byte at the cursor when nothing was recognised there: damaged values lose bytes")
	}
	_ = types.Typ
}

func init() {
	mut("C03", "key block opened without the key-id match", "acrablock/acrablock.go", "		if bytes.Equal(keyID, blockKeyID) {\n			decryptedKey, err := keyEncryptionKeyBackend.Decrypt(key, encryptedKey, context)", "		if bytes.Equal(keyID, blockKeyID) || len(keys) == 1 {\n			decryptedKey, err := keyEncryptionKeyBackend.Decrypt(key, encryptedKey, context)", "R03.2", "key block opened only on key-id match")
	mut("C03", "payload decrypted without the caller's context", "acrablock/acrablock.go", "	decryptedData, err := dataEncryptionBackend.Decrypt(dataEncryptionKey, encryptedData, context)", "	decryptedData, err := dataEncryptionBackend.Decrypt(dataEncryptionKey, encryptedData, nil)", "R03.2", "both stages bound")
	mut("C03", "payload failure returns the raw payload without error", "acrablock/acrablock.go", "	if err != nil {\n		return nil, ErrInvalidAcraBlock\n	}\n	return decryptedData, nil", "	if err != nil {\n		return encryptedData, nil\n	}\n	return decryptedData, nil", "R03.2", "payload failure is an error")
	mut("C03", "hash mismatch only logged in DecryptSearchable", "cmd/acra-translator/common/service.go", "	if !hashPart.IsEqual(decrypted, clientID, service.data.Keystorage) {\n		return nil, ErrDecryptionFailed\n	}", "	if !hashPart.IsEqual(decrypted, clientID, service.data.Keystorage) {\n		logger.Warningln(\"hash mismatch\")\n	}", "R03.2", "DecryptSearchable")
	mut("C03", "rotated searchable AcraBlock: mismatch returns data with nil error", "hmac/dataProcessor.go", "	data, err := block.Decrypt(symKeys, context)\n	if err != nil {\n		return nil, err\n	}\n	if !hash.IsEqual(data, context, SimpleHmacKeyStore(hmacKey)) {\n		return data, ErrHMACNotMatch\n	}", "	data, err := block.Decrypt(symKeys, context)\n	if err != nil {\n		return nil, err\n	}\n	if !hash.IsEqual(data, context, SimpleHmacKeyStore(hmacKey)) {\n		return data, nil\n	}", "R03.2", "DecryptRotatedSearchableAcraBlock")
	mut("C03", "failed decryption hands back an empty value", "crypto/decryptor.go", "		}).WithError(err).Warningln(\"Can't decrypt SerializedContainer\")\n		return container, nil", "		}).WithError(err).Warningln(\"Can't decrypt SerializedContainer\")\n		return decrypted, nil", "R03.3", "OnCryptoEnvelope")
	mut("C03", "container length accepted when shorter than the header", "crypto/registry_handler.go", "	if len(data) <= SerializedContainerMinSize {\n		return 0, ErrIncorrectSerializedContainer\n	}\n\n	if !bytes.Equal(data[:len(TagBegin)], TagBegin) {", "	if len(data) == 0 {\n		return 0, ErrIncorrectSerializedContainer\n	}\n\n	if !bytes.Equal(data[:len(TagBegin)], TagBegin) {", "R03.1", "validateSerializedContainer")
}

func ruleR034(p *Program, r *Report) {
	tn := p.Type("hmac.Processor")
	if tn == nil {
		r.Anchor("R03.4", "hmac.Processor")
		return
	}
	st, _ := tn.Type().Underlying().(*types.Struct)
	// fields of []byte type returned by some method
	escaping := map[int]string{}
	var methods []*ssa.Function
	for _, fn := range p.SrcFuncs("hmac") {
		if fn.Signature.Recv() == nil || !strings.Contains(fn.Signature.Recv().Type().String(), "hmac.Processor") {
			continue
		}
		methods = append(methods, fn)
		for _, ret := range returnsOf(fn) {
			for i := range ret.Results {
				for _, leaf := range leavesOf(retValue(ret, i), leafOpts{}) {
					if u, ok := leaf.(*ssa.UnOp); ok {
						if fa, ok := u.X.(*ssa.FieldAddr); ok && fa.X == ssa.Value(fn.Params[0]) {
							if _, isSl := st.Field(fa.Field).Type().Underlying().(*types.Slice); isSl {
								escaping[fa.Field] = st.Field(fa.Field).Name()
							}
						}
					}
				}
			}
		}
	}
	if len(escaping) == 0 {
		r.Bad("R03.4", "hmac.Processor", "escaping buffers", p.Pos(tn.Pos()), "no buffer field is returned any more; the rule has lost its subject")
		return
	}
	n := 0
	for _, fn := range methods {
		recv := fn.Params[0]
		// loads of escaping fields
		isFieldLoad := func(v ssa.Value) (int, *ssa.UnOp) {
			for d := 0; d < 6; d++ {
				switch x := v.(type) {
				case *ssa.Slice:
					v = x.X
					continue
				case *ssa.UnOp:
					if fa, ok := x.X.(*ssa.FieldAddr); ok && fa.X == ssa.Value(recv) {
						if _, esc := escaping[fa.Field]; esc {
							return fa.Field, x
						}
					}
				}
				break
			}
			return -1, nil
		}
		fresh := func(field int, load *ssa.UnOp) bool {
			// the latest store to the field that precedes the load must assign a fresh allocation
			var last *ssa.Store
			for _, b := range fn.Blocks {
				for _, in := range b.Instrs {
					st, ok := in.(*ssa.Store)
					if !ok {
						continue
					}
					fa, ok := st.Addr.(*ssa.FieldAddr)
					if !ok || fa.X != ssa.Value(recv) || fa.Field != field {
						continue
					}
					if instrBefore(st, load) && (last == nil || instrBefore(last, st)) {
						last = st
					}
				}
			}
			if last == nil {
				return false
			}
			switch v := last.Val.(type) {
			case *ssa.MakeSlice:
				return true
			case *ssa.Call:
				if b, ok := v.Call.Value.(*ssa.Builtin); ok && b.Name() == "append" {
					base := stripConv(v.Call.Args[0])
					if isNilConst(base) {
						return true
					}
					if _, isMake := base.(*ssa.MakeSlice); isMake {
						return true
					}
					if sl, ok := base.(*ssa.Slice); ok {
						if _, isAlloc := sl.X.(*ssa.Alloc); isAlloc {
							return true // []byte{} literal
						}
					}
				}
			}
			return false
		}
		for _, b := range fn.Blocks {
			for _, in := range b.Instrs {
				var dst ssa.Value
				what := ""
				switch x := in.(type) {
				case *ssa.Call:
					if bi, ok := x.Call.Value.(*ssa.Builtin); ok {
						switch bi.Name() {
						case "copy":
							dst, what = x.Call.Args[0], "copy into"
						case "append":
							dst, what = x.Call.Args[0], "append onto"
						}
					}
				case *ssa.Store:
					if ia, ok := x.Addr.(*ssa.IndexAddr); ok {
						dst, what = ia.X, "element store into"
					}
				}
				if dst == nil {
					continue
				}
				field, load := isFieldLoad(dst)
				if field < 0 {
					continue
				}
				n++
				r.Check(fresh(field, load), "R03.4", fnName(fn), what+" ."+escaping[field], p.Pos(in.Pos()), "the field was assigned a fresh allocation earlier in this function", "the buffer in ."+escaping[field]+" may still be held by the caller (it is returned on the verification-failure path) and is rewritten in place here: a damaged value already handed to the client side is overwritten with another column's bytes")
			}
		}
	}
	if n == 0 {
		r.Bad("R03.4", "hmac.Processor", "in-place writes", p.Pos(tn.Pos()), "no write into the saved buffer found; the rule has lost its subject")
	}
}

// ruleVerifiedSuccess: in every function that compares a search hash with decrypted content (a call of hmac's
// Hash.IsEqual) and can return an error, each success return is reachable only over the 'equal' edge of such a
// comparison or over the nil edge of a test that there is no hash to compare (a nil hash / nil stripped prefix).
// A success that is reachable any other way (a cache of earlier verdicts, a length test, a flag) hands out content
// whose index was never checked.
func ruleVerifiedSuccess(p *Program, r *Report, rule string) {
	n := 0
	for _, fn := range p.srcFns {
		pp := strings.TrimPrefix(fnPkgPath(fn), acraMod+"/")
		if pp != "hmac" && pp != "cmd/acra-translator/common" {
			continue
		}
		if fn.Signature.Results().Len() == 0 {
			continue
		}
		errIdx := fn.Signature.Results().Len() - 1
		if !isErrorType(fn.Signature.Results().At(errIdx).Type()) {
			continue
		}
		type edge struct{ from, to *ssa.BasicBlock }
		good := map[edge]bool{}
		found := false
		for _, cs := range callsIn(fn) {
			c, ok := cs.Instr.(*ssa.Call)
			if !ok || cs.Callee == nil || cs.Callee.Name() != "IsEqual" || cs.Callee.Pkg() == nil || !strings.HasSuffix(cs.Callee.Pkg().Path(), "/hmac") {
				continue
			}
			found = true
			for _, i := range ifsOn(c) {
				good[edge{i.Block(), i.Block().Succs[0]}] = true
			}
			if refs := c.Referrers(); refs != nil {
				for _, rf := range *refs {
					if u, ok := rf.(*ssa.UnOp); ok && u.Op == token.NOT {
						for _, i := range ifsOn(u) {
							good[edge{i.Block(), i.Block().Succs[1]}] = true
						}
					}
				}
			}
		}
		if !found {
			continue
		}
		// "nothing to compare": nil tests of a hash value or of a stripped hash prefix (never of the function's own data argument)
		for _, b := range fn.Blocks {
			iff, ok := b.Instrs[len(b.Instrs)-1].(*ssa.If)
			if !ok {
				continue
			}
			bo, ok := iff.Cond.(*ssa.BinOp)
			if !ok || (bo.Op != token.EQL && bo.Op != token.NEQ) {
				continue
			}
			var x ssa.Value
			if isNilConst(bo.Y) {
				x = bo.X
			} else if isNilConst(bo.X) {
				x = bo.Y
			}
			if x == nil {
				continue
			}
			if _, isParam := x.(*ssa.Parameter); isParam {
				continue
			}
			ts := x.Type().String()
			if !(ts == "[]byte" || strings.HasSuffix(ts, "hmac.Hash")) {
				continue
			}
			if bo.Op == token.EQL {
				good[edge{b, b.Succs[0]}] = true
			} else {
				good[edge{b, b.Succs[1]}] = true
			}
		}
		for _, ret := range returnsOf(fn) {
			if !isNilConst(retValue(ret, errIdx)) {
				continue
			}
			n++
			// reachable from the entry without crossing a good edge?
			seen := map[*ssa.BasicBlock]bool{}
			var dfs func(b *ssa.BasicBlock) bool
			dfs = func(b *ssa.BasicBlock) bool {
				if b == ret.Block() {
					return true
				}
				if seen[b] {
					return false
				}
				seen[b] = true
				for _, s := range b.Succs {
					if !good[edge{b, s}] && dfs(s) {
						return true
					}
				}
				return false
			}
			bad := dfs(fn.Blocks[0])
			r.Check(!bad, rule, fnName(fn), "success only after the hash comparison", p.Pos(ret.Pos()), "every path to this success return crosses the 'equal' edge of IsEqual or the 'no hash' edge", "this success return can be reached without the hash comparison having answered 'equal' (and without establishing that there is no hash): content whose index was never checked is handed out as valid")
		}
	}
	if n == 0 {
		r.Bad(rule, "hmac", "verifying functions", "-", "no function with a hash comparison and a success return found")
	}
}

func init() {
	mut("C03", "hmac processor trusts the verdict of the previous cell", "hmac/dataProcessor.go", "	if p.hashData != nil && !p.matchedHash.IsEqual(data, accessContext.GetClientID(), p.hmacStore) {", "	if p.hashData != nil && len(p.hashData) == len(p.rawData) {\n		return data, nil\n	}\n	if p.hashData != nil && !p.matchedHash.IsEqual(data, accessContext.GetClientID(), p.hmacStore) {", "R03.6", "Process")
}

func init() {
	mut("C03", "container length compared before the header is subtracted (small lengths wrap)", "crypto/registry_handler.go", "	if internalLength < 0 || internalLength > uint64(len(encrypted)-SerializedContainerMinSize) {", "	if internalLength+SerializedContainerMinSize > uint64(len(encrypted)) && internalLength < 1<<62 {", "R03.1", "getSerializedContainerLength")
}
