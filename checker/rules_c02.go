package main

import (
	"go/token"
	"go/ast"
	"fmt"
	"go/types"
	"sort"
	"strings"

	"golang.org/x/tools/go/ssa"
)

func init() {
	register(&Property{ID: "C02", Patterns: []string{"./..."}, Run: runC02})
}

func runC02(p *Program, r *Report) {
	r.Rule("R02.1", "E4+E3", 11, "gRPC identity override is complete: for every method of every service in grpc_api.DecryptService, *TLSDecryptServiceWrapper declares it itself, and on every path to the delegated call the request's ClientId field has been overwritten with result 0 of getClientID on that call's err == nil edge")
	r.Rule("R02.2", "E2", 13, "HTTP identity source: every ITranslatorService call in http_api passes as clientID a value that derives only from network.GetClientIDFromConnection (or nil), never from the request body")
	r.Rule("R02.3", "E2", 15, "key lookups use the request identity: at every data-plane call of a per-client keystore getter the id argument, followed back across calls, ends only in the access context's client id, a token context's ClientID, the (already overridden) request ClientId, the connection identity, a column setting's ClientID, or nil; a constant, global or service field is a violation")
	r.Rule("R02.4", "E2", 30, "owner-bound key encryption: every KeyEncryptor.Encrypt/Decrypt call of the v1 keystore takes a context built by NewClientIDKeyContext/NewKeyContext from the same id that names the key; every NewClientIDKeyContext id derives from the enclosing function's own id/filename parameter; v2 contexts include the ring path and the key seqnum with distinct purpose strings")
	r.Rule("R02.5", "E2", 6, "token scoping: the data id hash and the storage context hash absorb the client id (or additional context) and the data id also the value and the token type; the token encryptor binds ciphertexts to the same context")
	r.Rule("R02.7", "E2", 9, "the client id picks the key location injectively: in the helpers that turn a client id into a key ring path (v2) or a key file name (v1) the id reaches the result only through conversions, concatenation, fmt.Sprintf, filepath.Join and other such helpers - no replacing, trimming, case folding, hashing or cutting that could send two different ids to one location")
	ruleR027(p, r)
	r.Rule("R02.8", "E2", 2, "an identity handed to a session is its own memory: the client id produced by the TLS identity converter / extractor is a freshly allocated value, never a window into a buffer kept in the (shared, per-listener) converter - sessions keep the slice they were given while later handshakes run the same converter")
	ruleR028(p, r)
	r.Rule("R02.6", "E2", 2, "the connection identity is a pure function of the peer certificate: the client id returned by tlsClientIDExtractor.ExtractClientID derives only from idConverter.Convert(idExtractor.GetCertificateIdentifier(certificate)) of this very call — no remembered state, cache or other input")
	ruleR021(p, r)
	ruleR022(p, r)
	ruleR023(p, r)
	ruleR024(p, r)
	ruleR025(p, r)
	ruleR026(p, r)
	r.Rule("R02.9", "E2", 8, "requests do not meet in shared state: the translator's service object is shared by all connections, so its request methods neither store into it (or into objects its fields point to) nor call, on such an object, a method that stores into its own receiver - per-request values (the request's context, the client's identity) live in objects allocated by the request; otherwise a concurrent request of another client runs with this request's identity")
	ruleR029(p, r)
}

func ruleR021(p *Program, r *Report) {
	decI := p.Type("cmd/acra-translator/grpc_api.DecryptService")
	wrap := p.Type("cmd/acra-translator/grpc_api.TLSDecryptServiceWrapper")
	getID := p.FuncObj("cmd/acra-translator/grpc_api.getClientID")
	if decI == nil || wrap == nil || getID == nil {
		r.Anchor("R02.1", "grpc_api.DecryptService / TLSDecryptServiceWrapper / getClientID")
		return
	}
	di := decI.Type().Underlying().(*types.Interface)
	var names []string
	for i := 0; i < di.NumMethods(); i++ {
		if ast_IsExported(di.Method(i).Name()) {
			names = append(names, di.Method(i).Name())
		}
	}
	sort.Strings(names)
	for _, m := range names {
		who := "cmd/acra-translator/grpc_api.TLSDecryptServiceWrapper." + m
		obj, _, _ := types.LookupFieldOrMethod(types.NewPointer(wrap.Type()), true, wrap.Pkg(), m)
		mf, _ := obj.(*types.Func)
		if mf == nil || recvNamed(mf) != wrap {
			r.Bad("R02.1", who, "declares "+m, p.Pos(wrap.Pos()), "RPC "+m+" is not wrapped: the call falls through to an embedded Unimplemented* stub or, worse, a promoted implementation that trusts the ClientId field of the request")
			continue
		}
		fn := p.Func2(mf)
		if fn == nil || fn.Blocks == nil {
			r.Anchor("R02.1", who)
			continue
		}
		// the delegated invoke
		var deleg ssa.CallInstruction
		for _, cs := range callsIn(fn) {
			cc := cs.Instr.Common()
			if cc.IsInvoke() && cc.Method.Name() == m && types.Identical(cc.Value.Type(), decI.Type()) {
				deleg = cs.Instr
			}
		}
		if deleg == nil {
			r.Bad("R02.1", who, "delegates to decryptor."+m, p.Pos(fn.Pos()), "wrapper does not call the wrapped service's "+m)
			continue
		}
		gets := callsTo(fn, getID)
		if len(gets) == 0 {
			r.Bad("R02.1", who, "getClientID", p.Pos(fn.Pos()), "the connection identity is never read")
			continue
		}
		req := fn.Params[len(fn.Params)-1]
		okStore, okEdge := false, false
		for _, g := range gets {
			gcall := g.Instr.(*ssa.Call)
			idv, errv := extractOf(gcall, 0), extractOf(gcall, 1)
			if idv == nil || errv == nil {
				continue
			}
			// store request.ClientId = idv before the delegated call
			for _, b := range fn.Blocks {
				for _, in := range b.Instrs {
					st, ok := in.(*ssa.Store)
					if !ok || st.Val != ssa.Value(idv) {
						continue
					}
					fa, ok := st.Addr.(*ssa.FieldAddr)
					if !ok || fa.X != ssa.Value(req) {
						continue
					}
					if _, fname, ok := fieldOfAddr(fa); ok && fname == "ClientId" && instrBefore(st, deleg.(ssa.Instruction)) {
						okStore = true
					}
				}
			}
			// delegated call only on err == nil edge
			if refs := errv.Referrers(); refs != nil {
				for _, rf := range *refs {
					if bo, ok := rf.(*ssa.BinOp); ok {
						for _, i := range ifsOn(bo) {
							if nilS, nonNil, ok := nilBranches(i, errv); ok && nilS.Dominates(deleg.Block()) && !reaches(nonNil, deleg.Block(), nil) {
								okEdge = true
							}
						}
					}
				}
			}
		}
		// the request handed on is the same (overridden) object
		sameReq := false
		for _, a := range deleg.Common().Args {
			if a == ssa.Value(req) {
				sameReq = true
			}
		}
		r.Check(okStore && sameReq, "R02.1", who, "request.ClientId = getClientID() before delegation", p.Pos(deleg.Pos()), "ClientId overwritten with the connection identity, same request passed on", "the ClientId named inside the request is not replaced by the connection identity before the operation runs: a client can act under another identity")
		r.Check(okEdge, "R02.1", who, "delegation only on getClientID err == nil", p.Pos(deleg.Pos()), "delegated call dominated by the nil-error edge", "the operation runs even when the connection identity could not be established")
	}
}

func fieldOfAddr(fa *ssa.FieldAddr) (*types.Named, string, bool) {
	base := fa.X.Type()
	if pt, ok := base.Underlying().(*types.Pointer); ok {
		base = pt.Elem()
	}
	n, _ := base.(*types.Named)
	s, ok := base.Underlying().(*types.Struct)
	if !ok {
		return nil, "", false
	}
	return n, s.Field(fa.Field).Name(), true
}

func ruleR022(p *Program, r *Report) {
	svcI := p.Type("cmd/acra-translator/common.ITranslatorService")
	connID := p.FuncObj("network.GetClientIDFromConnection")
	if svcI == nil || connID == nil {
		r.Anchor("R02.2", "ITranslatorService / network.GetClientIDFromConnection")
		return
	}
	iface := svcI.Type().Underlying().(*types.Interface)
	for _, fn := range p.SrcFuncs("cmd/acra-translator/http_api") {
		for _, cs := range callsIn(fn) {
			cc := cs.Instr.Common()
			if !cc.IsInvoke() || !types.Identical(cc.Value.Type(), svcI.Type()) {
				continue
			}
			// index of the clientID parameter in the interface method
			var sig *types.Signature
			for i := 0; i < iface.NumMethods(); i++ {
				if iface.Method(i).Name() == cc.Method.Name() {
					sig = iface.Method(i).Type().(*types.Signature)
				}
			}
			idx := -1
			for i := 0; sig != nil && i < sig.Params().Len(); i++ {
				if sig.Params().At(i).Name() == "clientID" {
					idx = i
				}
			}
			construct := "ITranslatorService." + cc.Method.Name() + " clientID argument"
			if idx < 0 || idx >= len(cc.Args) {
				r.Bad("R02.2", fnName(fn), construct, p.Pos(cs.Instr.Pos()), "no clientID parameter found in the service method")
				continue
			}
			bad := ""
			for _, leaf := range leavesOf(cc.Args[idx], leafOpts{}) {
				if isNilConst(leaf) || isCallResult(leaf, connID, 0) {
					continue
				}
				bad = leaf.String()
			}
			r.Check(bad == "", "R02.2", fnName(fn), construct, p.Pos(cs.Instr.Pos()), "derives only from GetClientIDFromConnection / nil", "identity passed to the operation derives from "+bad+", not from the connection")
		}
	}
}

var perClientGetters = map[string]bool{
	"GetClientIDSymmetricKey": true, "GetClientIDSymmetricKeys": true,
	"GetServerDecryptionPrivateKey": true, "GetServerDecryptionPrivateKeys": true,
	"GetHMACSecretKey": true, "GetClientIDEncryptionPublicKey": true,
}

func isKeystoreMethod(co *types.Func) bool {
	if co == nil || co.Pkg() == nil {
		return false
	}
	return strings.HasPrefix(co.Pkg().Path(), acraMod+"/keystore")
}

func ruleR023(p *Program, r *Report) {
	excluded := func(pp string) (bool, string) {
		switch {
		case strings.HasPrefix(pp, "keystore"):
			return true, "keystore implementation"
		case strings.HasPrefix(pp, "cmd/acra-keys"), strings.HasPrefix(pp, "cmd/acra-rollback"), strings.HasPrefix(pp, "cmd/acra-rotate"), strings.HasPrefix(pp, "cmd/acra-poisonrecordmaker"), strings.HasPrefix(pp, "cmd/acra-keymaker"), strings.HasPrefix(pp, "cmd/acra-backup"):
			return true, "operator tool: the id is the operator's command-line argument"
		}
		return false, ""
	}
	classify := func(leaf ssa.Value) (provVerdict, string) {
		if c, ok := leaf.(*ssa.Const); ok {
			if c.Value == nil {
				return provAllowed, "nil (no identity: lookup fails)"
			}
			return provForbidden, "constant identity " + c.String()
		}
		if n, f, ok := fieldOfLoad(leaf); ok {
			tn := ""
			pk := ""
			if n != nil {
				tn = n.Obj().Name()
				if n.Obj().Pkg() != nil {
					pk = strings.TrimPrefix(n.Obj().Pkg().Path(), acraMod+"/")
				}
			}
			switch {
			case tn == "TokenContext" && (f == "ClientID" || f == "AdditionalContext"):
				return provAllowed, "TokenContext." + f
			case pk == "cmd/acra-translator/grpc_api" && f == "ClientId":
				return provAllowed, "request.ClientId (overridden by the TLS wrapper, R02.1)"
			case pk == "decryptor/base" && tn == "AccessContext" && f == "clientID":
				return provAllowed, "AccessContext.clientID"
			}
			return provForbidden, "struct field " + pk + "." + tn + "." + f
		}
		var call *ssa.Call
		switch x := leaf.(type) {
		case *ssa.Extract:
			call, _ = x.Tuple.(*ssa.Call)
		case *ssa.Call:
			call = x
		}
		if call != nil {
			co := calleeOfCommon(call.Common())
			if co != nil {
				full := funcFullName(co)
				switch {
				case co.Name() == "GetClientID" && co.Pkg() != nil && strings.HasSuffix(co.Pkg().Path(), "decryptor/base"):
					return provAllowed, "AccessContext.GetClientID()"
				case co.Name() == "ClientID" && co.Pkg() != nil && strings.Contains(co.Pkg().Path(), "encryptor/base/config"):
					return provAllowed, "ColumnEncryptionSetting.ClientID() (operator-configured owner of the column)"
				case full == "network.GetClientIDFromConnection", full == "network.GetClientIDFromAuthInfo", full == "cmd/acra-translator/grpc_api.getClientID":
					return provAllowed, "connection identity"
				}
			}
		}
		if g, ok := leaf.(*ssa.Global); ok {
			return provForbidden, "global " + g.Name()
		}
		if u, ok := leaf.(*ssa.UnOp); ok {
			if g, ok := u.X.(*ssa.Global); ok {
				return provForbidden, "global " + g.Name()
			}
		}
		return provUndecided, ""
	}
	for _, fn := range p.srcFns {
		pp := strings.TrimPrefix(fnPkgPath(fn), acraMod+"/")
		if ex, _ := excluded(pp); ex {
			continue
		}
		for _, cs := range callsIn(fn) {
			co := cs.Callee
			if co == nil || !perClientGetters[co.Name()] || !isKeystoreMethod(co) {
				continue
			}
			cc := cs.Instr.Common()
			var idArg ssa.Value
			if cc.IsInvoke() {
				idArg = cc.Args[0]
			} else {
				idArg = cc.Args[1]
			}
			construct := co.Name() + "(" + operandText(p, cs.Instr) + ")"
			roots := p.provenance(idArg, leafOpts{}, classify)
			var bad []string
			var okWhy []string
			for _, rt := range roots {
				switch rt.Verdict {
				case provAllowed:
					okWhy = append(okWhy, rt.Why)
				case provForbidden:
					bad = append(bad, rt.Why+" in "+fnNameOrDash(rt.Fn))
				default:
					// entry parameter of an exported data-plane API: the caller supplies the identity
					if pr, ok := rt.Val.(*ssa.Parameter); ok && strings.Contains(rt.Why, "no callers") {
						if pr.Parent().Synthetic != "" {
							continue // compiler-generated wrapper/thunk, not a program entry
						}
						okWhy = append(okWhy, "API parameter "+pr.Name()+" of "+fnName(pr.Parent())+" (caller-supplied identity)")
						continue
					}
					bad = append(bad, "undecided: "+rt.Why+" in "+fnNameOrDash(rt.Fn))
				}
			}
			sort.Strings(okWhy)
			okWhy = uniq(okWhy)
			if len(bad) == 0 && len(okWhy) > 0 {
				r.OK("R02.3", fnName(fn), construct, p.Pos(cs.Instr.Pos()), "id derives only from: "+strings.Join(okWhy, "; "))
			} else {
				r.Bad("R02.3", fnName(fn), construct, p.Pos(cs.Instr.Pos()), "the key is looked up under an identity that does not come from the request: "+strings.Join(uniq(bad), "; "))
			}
		}
	}
}

func fnNameOrDash(fn *ssa.Function) string {
	if fn == nil {
		return "-"
	}
	return fnName(fn)
}

func uniq(in []string) []string {
	var out []string
	seen := map[string]bool{}
	for _, s := range in {
		if !seen[s] {
			seen[s] = true
			out = append(out, s)
		}
	}
	return out
}

func ruleR024(p *Program, r *Report) {
	encI := p.Type("keystore.KeyEncryptor")
	newCID := p.FuncObj("keystore.NewClientIDKeyContext")
	newKC := p.FuncObj("keystore.NewKeyContext")
	newEmpty := p.FuncObj("keystore.NewEmptyKeyContext")
	if encI == nil || newCID == nil || newKC == nil || newEmpty == nil {
		r.Anchor("R02.4", "keystore.KeyEncryptor / NewClientIDKeyContext / NewKeyContext / NewEmptyKeyContext")
		return
	}
	// (a) every KeyEncryptor call in the v1 keystore gets a purpose+owner context
	confirmedEmpty := map[string]string{
		"keystore/filesystem.(*KeyBackuper).Export": "whole-bundle encryption under the one-off backup key (C18), not a stored key",
		"keystore/filesystem.(*KeyBackuper).Import": "whole-bundle decryption under the backup key (C18)",
		"keystore/filesystem.KeyBackuper.Export":    "whole-bundle encryption under the one-off backup key (C18), not a stored key",
		"keystore/filesystem.KeyBackuper.Import":    "whole-bundle decryption under the backup key (C18)",
		"keystore/filesystem.EncryptExportedKeys":   "whole-bundle encryption under the one-off backup key (C18), not a stored key",
		"keystore/filesystem.DecryptExportedKeys":   "whole-bundle decryption under the backup key (C18)",
		"keystore/filesystem.encryptKeys":           "whole-bundle encryption under the one-off backup key (C18)",
		"keystore/filesystem.decryptKeys":           "whole-bundle decryption under the backup key (C18)",
	}
	classify := func(leaf ssa.Value) (provVerdict, string) {
		var call *ssa.Call
		switch x := leaf.(type) {
		case *ssa.Extract:
			call, _ = x.Tuple.(*ssa.Call)
		case *ssa.Call:
			call = x
		}
		if call != nil {
			switch calleeOfCommon(call.Common()) {
			case newCID:
				return provAllowed, "NewClientIDKeyContext"
			case newKC:
				return provAllowed, "NewKeyContext"
			case newEmpty:
				return provForbidden, "NewEmptyKeyContext (no owner, no purpose)"
			}
		}
		if _, ok := leaf.(*ssa.Const); ok {
			return provForbidden, "zero KeyContext"
		}
		if n, f, ok := fieldOfLoad(leaf); ok && n != nil && f == "KeyContext" {
			// ExportID / ExportedKey carry contexts built by the export enumeration (checked where they are built)
			return provAllowed, n.Obj().Name() + ".KeyContext (built by the key enumeration from the file name)"
		}
		return provUndecided, ""
	}
	for _, fn := range p.SrcFuncs("keystore/filesystem") {
		for _, cs := range callsIn(fn) {
			cc := cs.Instr.Common()
			var ctxArg ssa.Value
			mname := ""
			encIface := encI.Type().Underlying().(*types.Interface)
			if cc.IsInvoke() && types.Identical(cc.Value.Type(), encI.Type()) && (cc.Method.Name() == "Encrypt" || cc.Method.Name() == "Decrypt") {
				ctxArg, mname = cc.Args[2], cc.Method.Name()
			} else if co := cs.Callee; co != nil && !cc.IsInvoke() && (co.Name() == "Encrypt" || co.Name() == "Decrypt") && len(cc.Args) == 4 {
				if rv := co.Type().(*types.Signature).Recv(); rv != nil && types.Implements(rv.Type(), encIface) {
					ctxArg, mname = cc.Args[3], co.Name()
				}
			}
			if ctxArg == nil {
				continue
			}
			name := fnName(fn)
			construct := recvText(p, cs.Instr) + "." + mname + " key context"
			roots := p.provenance(ctxArg, leafOpts{}, classify)
			var bad, good []string
			for _, rt := range roots {
				switch rt.Verdict {
				case provAllowed:
					good = append(good, rt.Why)
				case provForbidden:
					bad = append(bad, rt.Why+" in "+fnNameOrDash(rt.Fn))
				default:
					if pr, ok := rt.Val.(*ssa.Parameter); ok && strings.Contains(rt.Why, "no callers") {
						if pr.Parent().Synthetic != "" {
							continue
						}
						good = append(good, "keyContext parameter of exported "+fnName(pr.Parent()))
						continue
					}
					bad = append(bad, "undecided: "+rt.Why)
				}
			}
			onlyEmpty := len(bad) > 0
			for _, b := range bad {
				if !strings.HasPrefix(b, "NewEmptyKeyContext") {
					onlyEmpty = false
				}
			}
			why, isConfirmed := confirmedEmpty[strings.NewReplacer("(", "", ")", "", "*", "").Replace(name)]
			if len(bad) == 0 && len(good) > 0 {
				r.OK("R02.4", name, construct, p.Pos(cs.Instr.Pos()), "context from "+strings.Join(uniq(good), ", "))
			} else if onlyEmpty && len(good) == 0 && isConfirmed {
				r.Confirmed("R02.4", name, construct, p.Pos(cs.Instr.Pos()), why)
			} else {
				r.Bad("R02.4", name, construct, p.Pos(cs.Instr.Pos()), "a stored key is encrypted/decrypted without owner and purpose in the associated data ("+strings.Join(uniq(bad), "; ")+"): a key file copied to another identity's name loads")
			}
		}
	}
	// (b) NewClientIDKeyContext(purpose, id): id from the function's own parameters, purpose constant
	for _, fn := range p.SrcFuncs("keystore/filesystem") {
		for _, cs := range callsTo(fn, newCID) {
			args := cs.Instr.Common().Args
			name := fnName(fn)
			construct := "NewClientIDKeyContext(" + operandText(p, cs.Instr) + ")"
			_, purposeConst := args[0].(*ssa.Const)
			bad := ""
			nParam := 0
			for _, leaf := range leavesOf(args[1], leafOpts{}) {
				switch x := leaf.(type) {
				case *ssa.Parameter:
					nParam++
				case *ssa.Const:
					bad = "constant owner id " + x.String()
				case *ssa.Call:
					// strings.TrimSuffix(filename, "_hmac") etc: derived from a parameter
					cl := backClosure(x)
					found := false
					for v := range cl {
						if _, ok := v.(*ssa.Parameter); ok {
							found = true
						}
					}
					if found {
						nParam++
					} else {
						bad = "owner id computed by " + x.String() + " without reference to a parameter"
					}
				default:
					cl := backClosure(leaf)
					found := false
					for v := range cl {
						if _, ok := v.(*ssa.Parameter); ok {
							found = true
						}
					}
					if found {
						nParam++
					} else {
						bad = "owner id from " + leaf.String()
					}
				}
			}
			r.Check(purposeConst && bad == "" && nParam > 0, "R02.4", name, construct, p.Pos(cs.Instr.Pos()), "constant purpose, owner id from the function's own parameter", "key context not bound to the identity the function was asked for: "+bad)
		}
	}
	// (c) v2 contexts
	mustFlow := func(spec string, what string, pred func(v ssa.Value) bool) {
		fn := p.Func(spec)
		if fn == nil || fn.Blocks == nil {
			r.Anchor("R02.4", spec)
			return
		}
		ok := false
		for _, ret := range returnsOf(fn) {
			if isRecoverBlock(ret.Block()) || len(ret.Results) == 0 {
				continue
			}
			for v := range backClosure(retValue(ret, 0)) {
				if pred(v) {
					ok = true
				}
			}
		}
		r.Check(ok, "R02.4", fnName(fn), "result includes "+what, p.Pos(fn.Pos()), what+" flows into the returned context", what+" no longer flows into the key-encryption context: keys of different rings/versions become interchangeable")
	}
	isParam := func(name string) func(ssa.Value) bool {
		return func(v ssa.Value) bool { pr, ok := v.(*ssa.Parameter); return ok && pr.Name() == name }
	}
	isFieldLoad := func(field string) func(ssa.Value) bool {
		return func(v ssa.Value) bool { _, f, ok := fieldOfLoad(v); return ok && f == field }
	}
	const v2 = "keystore/v2/keystore/filesystem."
	mustFlow(v2+"(*KeyRing).keyRingContext", "ring path", isFieldLoad("path"))
	mustFlow(v2+"(*KeyRing).keyRingContext", "purpose context", isParam("context"))
	mustFlow(v2+"(*KeyRing).privateKeyContext", "key seqnum", isParam("seqnum"))
	mustFlow(v2+"(*KeyRing).symmetricKeyContext", "key seqnum", isParam("seqnum"))
	mustFlow(v2+"(*KeyStore).keyRingSignatureContext", "ring path", isParam("path"))
	// the ring path enters the context unmodified (conversions only): a lossy transformation (base name, prefix,
	// hash truncation) makes rings of different owners share one context
	exactAppend := func(spec, what string, pred func(ssa.Value) bool) {
		fn := p.Func(spec)
		if fn == nil || fn.Blocks == nil {
			return // already reported as anchor by mustFlow
		}
		ok := false
		for _, ret := range returnsOf(fn) {
			if isRecoverBlock(ret.Block()) || len(ret.Results) == 0 {
				continue
			}
			for v := range backClosure(retValue(ret, 0)) {
				c, isCall := v.(*ssa.Call)
				if !isCall {
					continue
				}
				if b, isB := c.Call.Value.(*ssa.Builtin); !isB || b.Name() != "append" || len(c.Call.Args) != 2 {
					continue
				}
				leaves := leavesOf(c.Call.Args[1], leafOpts{})
				if len(leaves) == 1 && pred(leaves[0]) {
					ok = true
				}
			}
		}
		r.Check(ok, "R02.4", fnName(fn), what+" enters the context unmodified", p.Pos(fn.Pos()), "appended as is (conversions only)", what+" reaches the context only through a transformation: distinct owners/paths can map to the same context, so a key ring relocated to another owner's path still verifies and decrypts")
	}
	exactAppend(v2+"(*KeyRing).keyRingContext", "ring path", isFieldLoad("path"))
	exactAppend(v2+"(*KeyRing).keyRingContext", "purpose context", isParam("context"))
	exactAppend(v2+"(*KeyStore).keyRingSignatureContext", "ring path", isParam("path"))
	// distinct purpose strings
	fmtOf := func(spec string) string {
		fn := p.Func(spec)
		if fn == nil {
			return ""
		}
		for _, cs := range callsIn(fn) {
			if cs.Callee != nil && cs.Callee.FullName() == "fmt.Sprintf" {
				if s, ok := constStringOf(cs.Instr.Common().Args[0]); ok {
					return s
				}
			}
		}
		return ""
	}
	a, b := fmtOf(v2+"(*KeyRing).privateKeyContext"), fmtOf(v2+"(*KeyRing).symmetricKeyContext")
	r.Check(a != "" && b != "" && a != b, "R02.4", "keystore/v2/keystore/filesystem.KeyRing", "private/symmetric purpose strings differ", "-", fmt.Sprintf("%q vs %q", a, b), "private-key and symmetric-key contexts use the same purpose string")
	// the ring's encrypt/decrypt go through keyRingContext, the store's through keyStoreContext
	through := func(spec, via string) {
		fn := p.Func(spec)
		if fn == nil || fn.Blocks == nil {
			r.Anchor("R02.4", spec)
			return
		}
		ok := false
		for _, cs := range callsIn(fn) {
			if cs.Callee == nil || (cs.Callee.Name() != "encrypt" && cs.Callee.Name() != "decrypt" && cs.Callee.Name() != "Encrypt" && cs.Callee.Name() != "Decrypt") {
				continue
			}
			for _, arg := range cs.Instr.Common().Args {
				for v := range backClosure(arg) {
					if c, isCall := v.(*ssa.Call); isCall {
						if co := calleeOfCommon(c.Common()); co != nil && co.Name() == via {
							ok = true
						}
					}
				}
			}
		}
		r.Check(ok, "R02.4", fnName(fn), "context built by "+via, p.Pos(fn.Pos()), "key material is protected under "+via+"(...)", "the context handed to the cipher is not built by "+via)
	}
	through(v2+"(*KeyRing).encrypt", "keyRingContext")
	through(v2+"(*KeyRing).decrypt", "keyRingContext")
	through(v2+"(*KeyStore).encrypt", "keyStoreContext")
	through(v2+"(*KeyStore).decrypt", "keyStoreContext")
	through(v2+"(*KeyRing).encryptPrivateKey", "privateKeyContext")
	through(v2+"(*KeyRing).decryptPrivateKey", "privateKeyContext")
	through(v2+"(*KeyRing).encryptSymmetricKey", "symmetricKeyContext")
	through(v2+"(*KeyRing).decryptSymmetricKey", "symmetricKeyContext")
}

func recvText(p *Program, in ssa.CallInstruction) string {
	if ce := p.callExprAt(in.Pos()); ce != nil {
		s := types.ExprString(ce.Fun)
		if i := strings.LastIndex(s, "."); i > 0 {
			return s[:i]
		}
		return s
	}
	return "?"
}

func ruleR025(p *Program, r *Report) {
	hashAbsorbs := func(spec string, wants map[string]func(ssa.Value) bool) {
		fn := p.Func(spec)
		if fn == nil || fn.Blocks == nil {
			r.Anchor("R02.5", spec)
			return
		}
		got := map[string]bool{}
		for _, cs := range callsIn(fn) {
			cc := cs.Instr.Common()
			if !cc.IsInvoke() || cc.Method.Name() != "Write" {
				continue
			}
			cl := backClosure(cc.Args[0])
			for what, pred := range wants {
				for v := range cl {
					if pred(v) {
						got[what] = true
					}
				}
			}
		}
		var names []string
		for w := range wants {
			names = append(names, w)
		}
		sort.Strings(names)
		for _, what := range names {
			r.Check(got[what], "R02.5", fnName(fn), "hash absorbs "+what, p.Pos(fn.Pos()), what+" is written into the digest", what+" is no longer part of the digest: records of different clients/types/values collide")
		}
	}
	isParam := func(name string) func(ssa.Value) bool {
		return func(v ssa.Value) bool { pr, ok := v.(*ssa.Parameter); return ok && pr.Name() == name }
	}
	fieldRead := func(field string) func(ssa.Value) bool {
		return func(v ssa.Value) bool {
			switch x := v.(type) {
			case *ssa.Field:
				if st, ok := x.X.Type().Underlying().(*types.Struct); ok {
					return st.Field(x.Field).Name() == field
				}
			case *ssa.FieldAddr:
				_, f, ok := fieldOfAddr(x)
				return ok && f == field
			}
			return false
		}
	}
	hashAbsorbs("pseudonymization.(*pseudoanonymizer).generateDataID", map[string]func(ssa.Value) bool{
		"the value (data)":          isParam("data"),
		"the client id":             fieldRead("ClientID"),
		"the additional context":    fieldRead("AdditionalContext"),
		"the token type (dataType)": isParam("dataType"),
	})
	hashAbsorbs("pseudonymization/common.AggregateTokenContextToBytes", map[string]func(ssa.Value) bool{
		"the client id":          fieldRead("ClientID"),
		"the additional context": fieldRead("AdditionalContext"),
	})
	// token encryptor: AcraBlock context derives from the token context
	for _, m := range []string{"Encrypt", "Decrypt"} {
		spec := "pseudonymization/storage.(*scellEncryptor)." + m
		fn := p.Func(spec)
		if fn == nil || fn.Blocks == nil {
			r.Anchor("R02.5", spec)
			continue
		}
		ok := false
		for _, cs := range callsIn(fn) {
			if cs.Callee == nil || (cs.Callee.Name() != "CreateAcraBlock" && cs.Callee.Name() != "Decrypt") {
				continue
			}
			args := cs.Instr.Common().Args
			ctxArg := args[len(args)-1]
			for v := range backClosure(ctxArg) {
				if fieldRead("ClientID")(v) {
					ok = true
				}
			}
		}
		r.Check(ok, "R02.5", fnName(fn), "ciphertext bound to token context", p.Pos(fn.Pos()), "the AcraBlock context derives from ctx.ClientID / AdditionalContext", "stored token records are no longer bound to the client context")
	}
}

func init() {
	mut("C02", "one RPC forgets the identity override", "cmd/acra-translator/grpc_api/tls_service.go", "	request.ClientId = clientID\n	return wrapper.decryptor.Detokenize(ctx, request)", "	_ = clientID\n	return wrapper.decryptor.Detokenize(ctx, request)", "R02.1", "Detokenize")
	mut("C02", "RPC wrapper method removed (promoted stub)", "cmd/acra-translator/grpc_api/tls_service.go", "func (wrapper *TLSDecryptServiceWrapper) GenerateQueryHash(ctx context.Context, request *QueryHashRequest)", "func (wrapper *TLSDecryptServiceWrapper) generateQueryHashOld(ctx context.Context, request *QueryHashRequest)", "R02.1", "GenerateQueryHash")
	mut("C02", "override happens after the failed-identity return is dropped", "cmd/acra-translator/grpc_api/tls_service.go", "func (wrapper *TLSDecryptServiceWrapper) DecryptSym(ctx context.Context, request *DecryptSymRequest) (*DecryptSymResponse, error) {\n	clientID, err := getClientID(ctx, wrapper.tlsClientIDExtractor)\n	if err != nil {\n		return nil, err\n	}", "func (wrapper *TLSDecryptServiceWrapper) DecryptSym(ctx context.Context, request *DecryptSymRequest) (*DecryptSymResponse, error) {\n	clientID, err := getClientID(ctx, wrapper.tlsClientIDExtractor)\n	if err != nil && len(request.ClientId) == 0 {\n		return nil, err\n	}", "R02.1", "DecryptSym")
	mut("C02", "HTTP decryptSym trusts a body field", "cmd/acra-translator/http_api/service.go", "decryptedData, err := service.service.DecryptSym(service.ctx, request.Data, connectionClientID, nil)", "decryptedData, err := service.service.DecryptSym(service.ctx, request.Data, append(connectionClientID[:0:0], request.Data...), nil)", "R02.2", "_decryptSym")
	mut("C02", "AcraBlock decrypt looks keys up under a fixed identity", "crypto/acrablock.go", "privateKeys, err := context.Keystore.GetClientIDSymmetricKeys(accessContext.GetClientID())", "privateKeys, err := context.Keystore.GetClientIDSymmetricKeys([]byte(handler.Name()))", "R02.3", "AcraBlockHandler).Decrypt")
	mut("C02", "search hash keyed by the column name instead of the client", "hmac/dataEncryptor.go", "key, err := e.keystore.GetHMACSecretKey(clientID)", "key, err := e.keystore.GetHMACSecretKey([]byte(settingCE.ColumnName()))", "R02.3", "SearchableDataEncryptor")
	mut("C02", "symmetric key stored without owner context", "keystore/filesystem/server_keystore.go", "	encryptedSymKey, err := store.encryptor.Encrypt(store.encryptorCtx, symKey, keyContext)", "	encryptedSymKey, err := store.encryptor.Encrypt(store.encryptorCtx, symKey, keystore.NewEmptyKeyContext(nil))", "R02.4", "generateAndSaveSymmetricKey")
	mut("C02", "HMAC key context uses a constant owner", "keystore/filesystem/server_keystore.go", "	keyContext := keystore.NewClientIDKeyContext(keystore.PurposeSearchHMAC, id)\n	encryptedKey, err := store.encryptor.Encrypt(store.encryptorCtx, key, keyContext)", "	keyContext := keystore.NewClientIDKeyContext(keystore.PurposeSearchHMAC, []byte(\"hmac\"))\n	encryptedKey, err := store.encryptor.Encrypt(store.encryptorCtx, key, keyContext)", "R02.4", "GenerateHmacKey")
	mut("C02", "v2 ring context drops the ring path", "keystore/v2/keystore/filesystem/keyRing.go", "	c = append(c, r.path...)\n", "", "R02.4", "keyRingContext")
	mut("C02", "token id hash drops the client id", "pseudonymization/tokenizer.go", "		h.Write([]byte(`client`))\n		h.Write(context.ClientID)\n	}\n	h.Write(dataIDDelim)", "		h.Write([]byte(`client`))\n	}\n	h.Write(dataIDDelim)", "R02.5", "generateDataID")
}

func ruleR026(p *Program, r *Report) {
	fn := p.Func("network.(*tlsClientIDExtractor).ExtractClientID")
	if fn == nil || fn.Blocks == nil {
		r.Anchor("R02.6", "network.(*tlsClientIDExtractor).ExtractClientID")
		return
	}
	cert := fn.Params[len(fn.Params)-1]
	name := fnName(fn)
	for _, ret := range returnsOf(fn) {
		if isRecoverBlock(ret.Block()) {
			continue
		}
		v := retValue(ret, 0)
		if isNilConst(v) {
			r.OK("R02.6", name, "exit "+retText(p, ret), p.Pos(ret.Pos()), "no identity returned")
			continue
		}
		bad := ""
		for _, leaf := range leavesOf(v, leafOpts{}) {
			ex, ok := leaf.(*ssa.Extract)
			var conv *ssa.Call
			if ok {
				conv, _ = ex.Tuple.(*ssa.Call)
			}
			if conv == nil || !conv.Common().IsInvoke() || conv.Common().Method.Name() != "Convert" || ex.Index != 0 {
				bad = "returned identity comes from " + leaf.String() + ", not from idConverter.Convert of this call"
				continue
			}
			for _, l2 := range leavesOf(conv.Common().Args[0], leafOpts{}) {
				ex2, ok := l2.(*ssa.Extract)
				var get *ssa.Call
				if ok {
					get, _ = ex2.Tuple.(*ssa.Call)
				}
				if get == nil || !get.Common().IsInvoke() || get.Common().Method.Name() != "GetCertificateIdentifier" || ex2.Index != 0 || len(get.Common().Args) != 1 || get.Common().Args[0] != ssa.Value(cert) {
					bad = "identifier handed to Convert comes from " + l2.String() + ", not from GetCertificateIdentifier(certificate)"
				}
			}
		}
		r.Check(bad == "", "R02.6", name, "exit "+retText(p, ret), p.Pos(ret.Pos()), "Convert(GetCertificateIdentifier(certificate)) of this call", bad+": a request can run under an identity derived from an earlier connection or a partial view of the certificate")
	}
}

func ruleR028(p *Program, r *Report) {
	n := 0
	for _, fn := range p.SrcFuncs("network") {
		if fn.Blocks == nil || fn.Signature.Recv() == nil {
			continue
		}
		if fn.Name() != "Convert" && fn.Name() != "ExtractClientID" && fn.Name() != "GetCertificateIdentifier" {
			continue
		}
		if fn.Signature.Results().Len() < 1 {
			continue
		}
		if _, isSl := fn.Signature.Results().At(0).Type().Underlying().(*types.Slice); !isSl {
			continue
		}
		n++
		recv := fn.Params[0]
		bad := ""
		for _, ret := range returnsOf(fn) {
			v := retValue(ret, 0)
			if isNilConst(v) {
				continue
			}
			for x := range backClosure(v) {
				// a slice or array field of the receiver that is written into or re-sliced for the result
				var fa *ssa.FieldAddr
				switch y := x.(type) {
				case *ssa.FieldAddr:
					fa = y
				case *ssa.Field:
					if y.X == ssa.Value(recv) || backClosure(y.X)[recv] {
						switch y.Type().Underlying().(type) {
						case *types.Slice, *types.Array:
							bad = "the result is built in a buffer held by the receiver"
						}
					}
				}
				if fa == nil {
					continue
				}
				if !backClosure(fa.X)[recv] && fa.X != ssa.Value(recv) {
					continue
				}
				ft := fa.X.Type().Underlying().(*types.Pointer).Elem().Underlying().(*types.Struct).Field(fa.Field).Type()
				switch ft.Underlying().(type) {
				case *types.Slice, *types.Array:
					bad = "the result is built in a buffer held by the receiver"
				}
			}
		}
		r.Check(bad == "", "R02.8", fnName(fn), "returned identity does not alias converter state", p.Pos(fn.Pos()), "fresh allocation per call", bad+": the next handshake on the same listener overwrites the bytes an open session still uses as its client id, and that session continues under the other client's identity")
	}
	if n < 2 {
		r.Bad("R02.8", "network", "identity producers", "-", "fewer identity converters/extractors found than confirmed by reading")
	}
}

func ruleR027(p *Program, r *Report) {
	var helpers []*ssa.Function
	isHelper := map[*ssa.Function]bool{}
	for _, fn := range p.SrcFuncs("keystore/v2/keystore", "keystore/filesystem") {
		if fn.Blocks == nil || len(fn.Params) == 0 || fn.Signature.Results().Len() != 1 {
			continue
		}
		if b, ok := fn.Signature.Results().At(0).Type().Underlying().(*types.Basic); !ok || b.Info()&types.IsString == 0 {
			continue
		}
		name := fn.Name()
		v2 := strings.HasSuffix(fnPkgPath(fn), "keystore/v2/keystore") && strings.HasPrefix(name, "client") && strings.HasSuffix(name, "Path")
		v1 := strings.HasSuffix(fnPkgPath(fn), "keystore/filesystem") && (strings.HasSuffix(name, "KeyFilename") || strings.HasSuffix(name, "KeyName")) && name != "getLogKeyFilename"
		if !v2 && !v1 {
			continue
		}
		helpers = append(helpers, fn)
		isHelper[fn] = true
	}
	allowed := map[string]bool{"path/filepath.Join": true, "path.Join": true, "fmt.Sprintf": true, "strings.Join": true}
	for _, fn := range helpers {
		var id *ssa.Parameter
		for _, prm := range fn.Params {
			if prm.Name() == "clientID" || prm.Name() == "id" {
				id = prm
			}
		}
		if id == nil {
			continue
		}
		bad := ""
		reach := false
		for _, ret := range returnsOf(fn) {
			cl := backClosure(retValue(ret, 0))
			if cl[id] {
				reach = true
			}
			for v := range cl {
				switch x := v.(type) {
				case *ssa.Call:
					if _, isB := x.Call.Value.(*ssa.Builtin); isB {
						continue
					}
					co := calleeOfCommon(x.Common())
					full := "an indirect call"
					if co != nil && co.Pkg() != nil {
						full = co.Pkg().Path() + "." + co.Name()
					}
					if allowed[full] {
						continue
					}
					if sc := x.Common().StaticCallee(); sc != nil && isHelper[sc] {
						continue
					}
					through := false
					for _, a := range x.Common().Args {
						if backClosure(a)[id] {
							through = true
						}
					}
					if through {
						bad = "the id passes through " + full
					}
				case *ssa.Slice:
					if backClosure(x.X)[id] && (x.Low != nil || x.High != nil) {
						bad = "the id is cut"
					}
				}
			}
		}
		if !reach {
			bad = "the result does not depend on the id"
		}
		r.Check(bad == "", "R02.7", fnName(fn), "client id reaches the key location unchanged", p.Pos(fn.Pos()), "conversions, concatenation and path joining only", bad+": two different client ids can resolve to the same keys, so one client's data is revealed under the other's identity")
	}
	if len(helpers) < 9 {
		r.Bad("R02.7", "keystore", "key location helpers", "-", "fewer id-to-location helpers found than the nine confirmed by reading")
	}
}

func init() {
	mut("C02", "client id reduced to its base name in ring paths", "keystore/v2/keystore/hmac.go", "	return filepath.Join(clientPrefix, string(clientID), hmacSymmetricSuffix)", "	return filepath.Join(clientPrefix, filepath.Base(string(clientID)), hmacSymmetricSuffix)", "R02.7", "unchanged")
}

// ---- R02.9
func ruleR029(p *Program, r *Report) {
	// methods that store into their own (pointer) receiver's fields
	mutates := func(callee *ssa.Function) string {
		if callee == nil || callee.Blocks == nil || callee.Signature.Recv() == nil || len(callee.Params) == 0 {
			return ""
		}
		recv := callee.Params[0]
		if _, isPtr := recv.Type().Underlying().(*types.Pointer); !isPtr {
			return ""
		}
		for _, b := range callee.Blocks {
			for _, in := range b.Instrs {
				if st, ok := in.(*ssa.Store); ok {
					if fa, ok := st.Addr.(*ssa.FieldAddr); ok && fa.X == ssa.Value(recv) {
						if stt, ok := recv.Type().Underlying().(*types.Pointer).Elem().Underlying().(*types.Struct); ok {
							return stt.Field(fa.Field).Name()
						}
						return "a field"
					}
				}
			}
		}
		return ""
	}
	n := 0
	for _, fn := range p.SrcFuncs("cmd/acra-translator/common") {
		if fn.Signature.Recv() == nil || !strings.HasSuffix(fn.Signature.Recv().Type().String(), "common.TranslatorService") || fn.Blocks == nil {
			continue
		}
		if !ast.IsExported(fn.Name()) {
			continue
		}
		n++
		recv := fn.Params[0]
		// values that point into the shared object: the receiver, addresses of its fields, loads of pointer-typed fields, and so on
		shared := map[ssa.Value]bool{recv: true}
		for changed := true; changed; {
			changed = false
			for _, b := range fn.Blocks {
				for _, in := range b.Instrs {
					v, ok := in.(ssa.Value)
					if !ok || shared[v] {
						continue
					}
					switch x := in.(type) {
					case *ssa.FieldAddr:
						if shared[x.X] {
							shared[v], changed = true, true
						}
					case *ssa.UnOp:
						if x.Op == token.MUL && shared[x.X] {
							if _, isPtr := x.Type().Underlying().(*types.Pointer); isPtr {
								shared[v], changed = true, true
							}
						}
					}
				}
			}
		}
		bad := ""
		for _, b := range fn.Blocks {
			for _, in := range b.Instrs {
				switch x := in.(type) {
				case *ssa.Store:
					if shared[x.Addr] {
						if _, isRecv := x.Addr.(*ssa.Parameter); !isRecv {
							bad = "stores into the shared service object at " + p.Pos(x.Pos())
						}
					}
				case *ssa.Call:
					if x.Call.IsInvoke() || len(x.Call.Args) == 0 || !shared[x.Call.Args[0]] || x.Call.Args[0] == ssa.Value(recv) {
						continue
					}
					if f := mutates(x.Call.StaticCallee()); f != "" {
						bad = "calls " + fnName(x.Call.StaticCallee()) + " on an object the service shares between requests; that method stores into its receiver (" + f + ") at " + p.Pos(x.Pos())
					}
				}
			}
		}
		r.Check(bad == "", "R02.9", fnName(fn), "request state is not kept in the shared service", p.Pos(fn.Pos()), "no store into the service or into objects it points to", bad+": two requests that run at the same time share that value, and a request of one client can be processed with the context (identity) of another")
	}
	if n < 8 {
		r.Bad("R02.9", "cmd/acra-translator/common", "TranslatorService request methods", "-", fmt.Sprintf("%d exported methods found, 8 confirmed by reading", n))
	}
}


func init() {
	mut("C02", "a request method writes a field of the shared translator service", "cmd/acra-translator/common/service.go", "func (service *TranslatorService) Decrypt(ctx context.Context, acraStruct, clientID, additionalContext []byte) ([]byte, error) {\n	logger := logging.GetLoggerFromContext(ctx)", "func (service *TranslatorService) Decrypt(ctx context.Context, acraStruct, clientID, additionalContext []byte) ([]byte, error) {\n	service.data = service.data\n	logger := logging.GetLoggerFromContext(ctx)", "R02.9", "Decrypt")
}
