package main

import (
	"fmt"
	"go/token"
	"go/types"
	"go/constant"
	"strings"

	"golang.org/x/tools/go/callgraph"
	"golang.org/x/tools/go/ssa"
)

func init() {
	register(&Property{ID: "C04", Patterns: []string{"./..."}, Run: runC04})
}

func runC04(p *Program, r *Report) {
	r.Rule("R04.1", "E3", 4, "a rewritten statement reaches the wire: at each call of the query observers by the two proxies (OnQuery for Query/Parse, OnBind for Bind/Execute), the 'changed' edge replaces the packet content with a value derived from the observers' result before the packet is forwarded, and nothing replaces it on the unchanged edge")
	ruleR041(p, r)
	r.Rule("R04.2", "E3", 7, "factory wiring: in both proxy factories the dialect's query encryptor (built over the chain data encryptor) is registered as a query observer after the tokenizing and hashing query rewriters; on the result side the decoder is subscribed before, and the encoder after, the token processor, the search-hash processor and the container detector")
	ruleR042(p, r)
	r.Rule("R04.3", "E2", 6, "what is written back is the transformer's output: the literal re-encoded into the statement and the bound value set into the Bind are the result of the encryption callback, never the decoded plaintext; an error of the callback leaves the function without encoding anything")
	ruleR043(p, r)
	r.Rule("R04.4", "E2", 2, "values are protected for the column's client: both dialects pass to EncryptWithClientID the client id of the column setting when it has one and the connection's client id otherwise")
	ruleR044(p, r)
	r.Rule("R04.6", "E4+E3", 4, "one pending statement per result: every message that ends the result of an Execute/Query - CommandComplete, EmptyQueryResponse, PortalSuspended, ErrorResponse - removes the statement at the head of the pending queue (an entry is added for each Execute, so a terminator that does not remove one shifts every later row onto an earlier statement's column settings)")
	ruleR046(p, r)
	r.Rule("R04.7", "E2", 2, "placeholder numbers of a multi-row INSERT are checked against all values of the statement: in both dialects the bound handed to updatePlaceholderMap while walking the VALUES tuples is a running total over the tuples, not the width of the current one")
	ruleR047(p, r)
	r.Rule("R04.8", "E1", 4, "bound values are indexed in range: in the query encryptors of both dialects every index into the bound values that comes from the placeholder map (a map key), from a subtraction or from a parsed number is proven 0 <= i < len(values) where it is used (a literal recorded as placeholder 0, or a Bind carrying fewer values than the statement has placeholders, otherwise panics the connection handler and the statement is never protected)")
	boundsRuleK(p, r, "R04.8", []string{"encryptor/postgresql/queryDataEncryptor.go", "encryptor/mysql/queryDataEncryptor.go"}, r048Confirmed, false)
	r.Rule("R04.9", "E2", 2, "result and parameter format codes are read by the protocol rule only (same rule as R19.7): a column that is not the first one is otherwise decoded and re-encoded in the wrong format and the owner does not read back what was written")
	ruleFormatCodes(p, r, "R04.9")
	r.Rule("R04.10", "E2", 6, "the shared configuration is read-only for the statement handlers: a slice handed out by the table schema (TableSchema.Columns, the schema store's listings) is never the base of an append and never stored into by the packages that process statements and rows - the schema store is shared by every session, so a write through such a slice changes the configured column order for all later statements")
	ruleR0410(p, r)
	r.Rule("R04.11", "E3", 1, "a Bind whose values could not be protected is not forwarded: in PgProxy.handleBindPacket every return on the error edge of the observers' OnBind returns that error (the caller then ends the session instead of writing the packet to the database); returning nil there sends the client's plaintext parameters on")
	ruleR0411(p, r)
	r.Rule("R04.5", "E3", 1, "the settings-only MySQL query observer never encrypts: every path to the data encryptor of encryptor/mysql.QueryDataEncryptor passes the 'encryptor == nil' guard, in the function or in all of its callers")
	ruleR045(p, r)
}

func ruleR041(p *Program, r *Report) {
	type site struct {
		fn, observe string
		replace     []string
	}
	for _, s := range []site{
		{"decryptor/postgresql.(*PgProxy).handleQueryPacket", "OnQuery", []string{"ReplaceQuery"}},
		{"decryptor/postgresql.(*PgProxy).handleBindPacket", "OnBind", []string{"ReplaceBind"}},
		{"decryptor/mysql.(*Handler).ProxyClientConnection", "OnQuery", []string{"replaceQuery"}},
		{"decryptor/mysql.(*Handler).handleStatementExecute", "OnBind", []string{"SetParameters"}},
	} {
		fn := p.Func(s.fn)
		if fn == nil || fn.Blocks == nil {
			r.Anchor("R04.1", s.fn)
			continue
		}
		var obs *ssa.Call
		for _, c := range callsNamed(fn, s.observe) {
			if _, f, ok := fieldOfLoad(recvOf(c)); ok && f == "queryObserverManager" {
				obs = c
			}
		}
		if obs == nil {
			r.Anchor("R04.1", s.fn+" "+s.observe+" call")
			continue
		}
		changed := extractOf(obs, 1)
		result := extractOf(obs, 0)
		ok, why := false, "the 'changed' result of the observers is not acted upon"
		var yes, no *ssa.BasicBlock
		for _, i := range condIfs(changed) {
			yes, no = i.Block().Succs[0], i.Block().Succs[1]
		}
		if yes != nil {
			var rep *ssa.Call
			for _, name := range s.replace {
				for _, c := range callsNamed(fn, name) {
					if yes.Dominates(c.Block()) {
						rep = c
					}
					if !yes.Dominates(c.Block()) && no != nil && (no.Dominates(c.Block())) {
						why = "the packet is replaced on the unchanged edge"
						rep = nil
					}
				}
			}
			switch {
			case rep == nil:
				if !strings.Contains(why, "unchanged edge") {
					why = "the packet is not replaced on the 'changed' edge: the original statement (with the plaintext) is forwarded"
				}
			default:
				derived := false
				for _, a := range plainArgs(rep) {
					if backClosure(a)[result] {
						derived = true
					}
				}
				if !derived && recvOf(rep) != nil && backClosure(recvOf(rep))[result] {
					derived = true
				}
				// pg Bind: bind.SetParameters(newParameters) then ReplaceBind(bind)
				if !derived {
					for _, sp := range callsNamed(fn, "SetParameters") {
						for _, a := range plainArgs(sp) {
							if backClosure(a)[result] && yes.Dominates(sp.Block()) {
								derived = true
							}
						}
					}
				}
				if derived {
					ok = true
				} else {
					why = "the replacement does not carry the observers' result"
				}
			}
		}
		r.Check(ok, "R04.1", fnName(fn), s.observe+" result replaces the packet on the changed edge", p.Pos(obs.Pos()), "changed -> "+strings.Join(s.replace, "/")+"(result)", why)
	}
}

func ruleR042(p *Program, r *Report) {
	for _, spec := range proxyFactories {
		fn := p.Func(spec)
		if fn == nil || fn.Blocks == nil {
			r.Anchor("R04.2", spec)
			continue
		}
		name := fnName(fn)
		evs := wireEvents(fn)
		qe := findEvents(evs, "AddQueryObserver", "QueryDataEncryptor")
		// the one built over a non-nil chain encryptor
		var real []wireEvent
		for _, e := range qe {
			args := e.Instr.Common().Args
			v := args[len(args)-1]
			for x := range backClosure(v) {
				if c, ok := x.(*ssa.Call); ok {
					if co := calleeOfCommon(c.Common()); co != nil && co.Name() == "NewQueryEncryptor" {
						last := c.Common().Args[len(c.Common().Args)-1]
						if !isNilConst(last) {
							if cc, isC := last.(*ssa.Const); !isC || cc.Value != nil {
								real = append(real, e)
							}
						}
					}
				}
			}
		}
		r.Check(len(real) >= 1, "R04.2", name, "query encryptor over the chain encryptor is registered", p.Pos(fn.Pos()), "AddQueryObserver(NewQueryEncryptor(..., chain))", "the statement encryptor is not registered as a query observer: INSERT/UPDATE values reach the database as sent")
		tok := findEvents(evs, "AddQueryObserver", "TokenizeQuery")
		hq := findEvents(evs, "AddQueryObserver", "HashQuery")
		r.Check(len(real) >= 1 && precedesAll(tok, real) && precedesAll(hq, real), "R04.2", name, "token and hash query rewriters run before the encryptor", p.Pos(fn.Pos()), "ordering by registration", "the statement encryptor is registered before the tokenizing or hashing rewriter: those would see ciphertext instead of the client's value")
		if strings.Contains(spec, "postgresql") {
			mgr := findEvents(evs, "AddQueryObserver", "ArrayQueryObservableManager")
			r.Check(len(mgr) >= 1, "R04.2", name, "observer manager is attached to the proxy", p.Pos(fn.Pos()), "proxy.AddQueryObserver(observerManager)", "the PostgreSQL observer manager that holds the encryptor is never attached to the proxy")
		}
		dec := findEvents(evs, "Subscribe", "DataDecoderProcessor")
		enc := findEvents(evs, "Subscribe", "DataEncoderProcessor")
		var mid []wireEvent
		mid = append(mid, findEvents(evs, "Subscribe", "TokenProcessor")...)
		mid = append(mid, findEvents(evs, "Subscribe", "hmac.Processor")...)
		mid = append(mid, findEvents(evs, "Subscribe", "EnvelopeDetector")...)
		okOrder := len(dec) == 1 && len(enc) == 1 && len(mid) >= 3 && precedesAll(dec, mid) && precedesAll(mid, enc)
		r.Check(okOrder, "R04.2", name, "decoder < {token, hash, container} processors < encoder", p.Pos(fn.Pos()), "subscription order", "the result-side processors are not bracketed by the wire decoder and the wire encoder: values are revealed from still-encoded bytes or re-encoded before they are revealed")
	}
}

func ruleR043(p *Program, r *Report) {
	for _, spec := range []string{"encryptor/postgresql.UpdateExpressionValue", "encryptor/mysql.UpdateExpressionValue"} {
		fn := p.Func(spec)
		if fn == nil || fn.Blocks == nil {
			r.Anchor("R04.3", spec)
			continue
		}
		upd := paramByName(fn, "updateFunc")
		var cb *ssa.Call
		for _, cs := range callsIn(fn) {
			if c, ok := cs.Instr.(*ssa.Call); ok && c.Common().Value == ssa.Value(upd) {
				cb = c
			}
		}
		encs := callsNamed(fn, "Encode")
		ok, why := false, ""
		switch {
		case cb == nil || len(encs) == 0:
			why = "no callback call followed by Encode"
		default:
			out := extractOf(cb, 0)
			ok = true
			for _, e := range encs {
				carries := false
				for _, a := range plainArgs(e) {
					if a == ssa.Value(out) {
						carries = true
					}
				}
				if !carries {
					ok, why = false, "Encode writes something other than the callback's result into the statement"
				}
				if !nilEdgeDominates(cb, e.Block()) {
					ok, why = false, "the statement is re-encoded although the callback failed"
				}
			}
		}
		r.Check(ok, "R04.3", fnName(fn), "re-encodes the callback's output", p.Pos(fn.Pos()), "newData := updateFunc(raw); Encode(expr, newData)", why)
	}
	for _, spec := range []string{"encryptor/postgresql.(*QueryDataEncryptor).encryptValuesWithPlaceholders", "encryptor/mysql.(*QueryDataEncryptor).encryptValuesWithPlaceholders"} {
		fn := p.Func(spec)
		if fn == nil || fn.Blocks == nil {
			r.Anchor("R04.3", spec)
			continue
		}
		enc := callNamedIn(fn, "encryptWithColumnSettings")
		sets := callsNamed(fn, "SetData")
		ok, why := enc != nil && len(sets) == 1, "expected one encryptWithColumnSettings and one SetData"
		if ok {
			a := plainArgs(sets[0])
			if a[0] != ssa.Value(extractOf(enc, 0)) {
				ok, why = false, "the bound value is set to something other than the encryption result"
			}
			// the encryption input is that value's own data
			in := plainArgs(enc)
			fromValue := false
			for v := range backClosure(in[len(in)-1]) {
				if c, isC := v.(*ssa.Call); isC && c.Common().IsInvoke() && c.Common().Method.Name() == "GetData" {
					fromValue = true
				}
			}
			if ok && !fromValue {
				ok, why = false, "the encryption input is not the bound value's data"
			}
		}
		r.Check(ok, "R04.3", fnName(fn), "bound value is replaced by its encryption", p.Pos(fn.Pos()), "SetData(encryptWithColumnSettings(GetData()))", why)
	}
	// the callbacks given to UpdateExpressionValue encrypt (closure returns encryptWithColumnSettings result)
	for _, spec := range []string{"encryptor/postgresql.(*QueryDataEncryptor).encryptExpression", "encryptor/mysql.(*QueryDataEncryptor).encryptExpression"} {
		fn := p.Func(spec)
		if fn == nil || fn.Blocks == nil {
			r.Anchor("R04.3", spec)
			continue
		}
		ok := false
		for _, b := range fn.Blocks {
			for _, in := range b.Instrs {
				mc, isMc := in.(*ssa.MakeClosure)
				if !isMc {
					continue
				}
				cl := mc.Fn.(*ssa.Function)
				e := callNamedIn(cl, "encryptWithColumnSettings")
				if e == nil {
					continue
				}
				for _, ret := range returnsOf(cl) {
					if retValue(ret, 0) == ssa.Value(extractOf(e, 0)) {
						ok = true
					}
					// tuple return `return f()` shape
					if len(ret.Results) == 2 {
						if ex, isEx := ret.Results[0].(*ssa.Extract); isEx && ex.Tuple == ssa.Value(e) {
							ok = true
						}
					}
				}
			}
		}
		r.Check(ok, "R04.3", fnName(fn), "the literal callback encrypts with the column's setting", p.Pos(fn.Pos()), "closure returns encryptWithColumnSettings(...)", "the callback that transforms a literal of a protected column does not return the encryption result")
	}
}

func ruleR044(p *Program, r *Report) {
	for _, spec := range []string{"encryptor/postgresql.(*QueryDataEncryptor).encryptWithColumnSettings", "encryptor/mysql.(*QueryDataEncryptor).encryptWithColumnSettings"} {
		fn := p.Func(spec)
		if fn == nil || fn.Blocks == nil {
			r.Anchor("R04.4", spec)
			continue
		}
		enc := callNamedIn(fn, "EncryptWithClientID")
		ok, why := false, "no EncryptWithClientID call"
		if enc != nil {
			id := plainArgs(enc)[0]
			phi, isPhi := id.(*ssa.Phi)
			fromSetting, fromConn := false, false
			var edges []ssa.Value
			if isPhi {
				edges = phi.Edges
			} else {
				edges = []ssa.Value{id}
			}
			for _, e := range edges {
				if c, isC := e.(*ssa.Call); isC {
					nm := ""
					if c.Common().IsInvoke() {
						nm = c.Common().Method.Name()
					} else if co := calleeOfCommon(c.Common()); co != nil {
						nm = co.Name()
					}
					switch nm {
					case "ClientID":
						fromSetting = true
					case "GetClientID":
						fromConn = true
					}
				}
			}
			ok = fromSetting && fromConn && len(edges) == 2
			why = "the client id is not 'the column's own client, else the connection's client'"
			// data and setting parameters are passed through
			a := plainArgs(enc)
			if ok && (a[1] != ssa.Value(paramByName(fn, "data")) || a[2] != ssa.Value(paramByName(fn, "columnSetting"))) {
				ok, why = false, "data or setting passed to the encryptor are not the function's own arguments"
			}
		}
		r.Check(ok, "R04.4", fnName(fn), "EncryptWithClientID(setting client or connection client, data, setting)", p.Pos(fn.Pos()), "phi(setting.ClientID(), accessContext.GetClientID())", why)
	}
}

func ruleR045(p *Program, r *Report) {
	fn := p.Func("encryptor/mysql.(*QueryDataEncryptor).encryptWithColumnSettings")
	if fn == nil || fn.Blocks == nil {
		r.Anchor("R04.5", "encryptor/mysql encryptWithColumnSettings")
		return
	}
	enc := callNamedIn(fn, "EncryptWithClientID")
	if enc == nil {
		r.Anchor("R04.5", "EncryptWithClientID call")
		return
	}
	ok, why := p.underNilGuard(fn, enc.Block(), "encryptor", 0, map[*ssa.Function]bool{})
	r.Check(ok, "R04.5", fnName(fn), "data encryptor is used only behind its nil guard", p.Pos(enc.Pos()), "guard in the function or in every caller", why+": the settings-only observer (registered with a nil data encryptor) would dereference it on an INSERT/UPDATE into a protected table and bring the connection down")
}

// guardedAt: blk is dominated by the 'field != nil' edge of a test of receiver field `field`.
func guardedAt(fn *ssa.Function, blk *ssa.BasicBlock, field string) bool {
	for _, i := range allIfs(fn) {
		bo, ok := i.Cond.(*ssa.BinOp)
		if !ok || (bo.Op.String() != "==" && bo.Op.String() != "!=") {
			continue
		}
		var other ssa.Value
		var side ssa.Value
		if isNilConst(bo.Y) {
			side, other = bo.X, bo.Y
		} else if isNilConst(bo.X) {
			side, other = bo.Y, bo.X
		}
		_ = other
		if side == nil {
			continue
		}
		if _, f, okF := fieldOfLoad(side); !okF || f != field {
			continue
		}
		nonNil, isNil := i.Block().Succs[0], i.Block().Succs[1]
		if bo.Op.String() == "==" {
			nonNil, isNil = isNil, nonNil
		}
		if edgeOnly(i, nonNil, isNil, blk) {
			return true
		}
	}
	return false
}

func (p *Program) underNilGuard(fn *ssa.Function, blk *ssa.BasicBlock, field string, depth int, seen map[*ssa.Function]bool) (bool, string) {
	if guardedAt(fn, blk, field) {
		return true, ""
	}
	if depth > 8 {
		return false, "call chain too deep"
	}
	if seen[fn] {
		return true, ""
	}
	seen[fn] = true
	node := p.CallGraph().Nodes[fn]
	var in []*callgraph.Edge
	if node != nil {
		in = node.In
	}
	n := 0
	for _, e := range in {
		if e.Caller == nil || e.Caller.Func == nil || e.Site == nil || e.Caller.Func.Synthetic != "" {
			continue
		}
		if !strings.HasSuffix(fnPkgPath(e.Caller.Func), "encryptor/mysql") {
			continue
		}
		n++
		cf := e.Caller.Func
		cb := e.Site.Block()
		// a call made from a closure is guarded where the closure is created
		if cf.Parent() != nil {
			par := cf.Parent()
			for _, b := range par.Blocks {
				for _, in2 := range b.Instrs {
					if mc, ok := in2.(*ssa.MakeClosure); ok && mc.Fn == ssa.Value(cf) {
						cf, cb = par, b
					}
				}
			}
		}
		if ok, why := p.underNilGuard(cf, cb, field, depth+1, seen); !ok {
			if why == "" {
				why = "reached from " + fnName(cf) + " without the guard"
			}
			return false, why
		}
	}
	if n == 0 {
		return false, "entry point " + fnName(fn) + " does not test the data encryptor"
	}
	return true, ""
}

func init() {
	mut("C04", "pg rewritten query is not put into the packet", "decryptor/postgresql/pg_decryptor.go", "		packet.ReplaceQuery(querySQL)\n	}\n	return false, nil", "		_ = querySQL\n	}\n	return false, nil", "R04.1", "OnQuery result")
	mut("C04", "mysql rewritten parameters are dropped", "decryptor/mysql/response_proxy.go", "		if changed {\n			if err := packet.SetParameters(newParameters); err != nil {\n				log.WithError(err).Error(\"Failed to update Bind packet\")\n				return 0, err\n			}\n		}", "		if changed {\n			_ = newParameters\n		}", "R04.1", "OnBind result")
	mut("C04", "pg query encryptor registered before the tokenizer", "decryptor/postgresql/proxy.go", "	observerManager.AddQueryObserver(queryEncryptor)\n", "	_ = queryEncryptor\n", "R04.2", "query encryptor")
	mut("C04", "pg encoder subscribed before the container detector", "decryptor/postgresql/proxy.go", "	proxy.SubscribeOnAllColumnsDecryption(containerDetector)\n", "	proxy.SubscribeOnAllColumnsDecryption(encoderProcessor)\n	proxy.SubscribeOnAllColumnsDecryption(containerDetector)\n", "R04.2", "decoder <")
	mut("C04", "literal re-encoded from the decoded plaintext", "encryptor/postgresql/utils.go", "		if err = coder.Encode(expr, newData, setting); err != nil {", "		if err = coder.Encode(expr, rawData, setting); err != nil {", "R04.3", "callback's output")
	mut("C04", "mysql bound value set back unencrypted", "encryptor/mysql/queryDataEncryptor.go", "		err = values[valueIndex].SetData(encryptedData, setting)", "		_ = encryptedData\n		err = values[valueIndex].SetData(valueData, setting)", "R04.3", "bound value")
	mut("C04", "column client id ignored", "encryptor/postgresql/queryDataEncryptor.go", "	return encryptor.encryptor.EncryptWithClientID(clientID, data, columnSetting)", "	return encryptor.encryptor.EncryptWithClientID(accessContext.GetClientID(), data, columnSetting)", "R04.4", "EncryptWithClientID")
	mut("C04", "mysql update path loses the nil guard", "encryptor/mysql/queryDataEncryptor.go", "	if encryptor.encryptor == nil {\n		return false, encryptor.onReturning(ctx, update.Returning, fromTables)\n	}\n", "", "R04.5", "nil guard")
}

func ruleR046(p *Program, r *Report) {
	fn := p.Func("decryptor/postgresql.(*PgProtocolState).HandleDatabasePacket")
	if fn == nil || fn.Blocks == nil {
		r.Anchor("R04.6", "HandleDatabasePacket")
		return
	}
	rm := callNamedIn(fn, "RemoveNextPendingPacket")
	if rm == nil {
		r.Bad("R04.6", fnName(fn), "pending entry removed", p.Pos(fn.Pos()), "HandleDatabasePacket never removes a pending statement")
		return
	}
	// The function is interpreted once per terminating message type: every test of the packet's type byte, here or
	// in a boolean helper of the packet (IsCommandComplete, a combined "IsCommandEnd", a switch), is decided by the
	// type under consideration, every other condition is left open. The removal must be reachable for each type.
	for _, pred := range []string{"CommandComplete", "EmptyQueryResponse", "PortalSuspended", "ErrorResponse"} {
		c, ok := p.Lookup("decryptor/postgresql." + pred + "Type").(*types.Const)
		if !ok {
			r.Anchor("R04.6", "constant "+pred+"Type")
			continue
		}
		k, _ := constant.Int64Val(constant.ToInt(c.Val()))
		mt := &msgTypeInterp{k: k, memo: map[*ssa.Function]int{}}
		got := mt.reach(fn, rm.Block())
		r.Check(got, "R04.6", fnName(fn), "Is"+pred+" removes the pending statement", p.Pos(rm.Pos()), "for this message type the tests of the type byte lead to RemoveNextPendingPacket", "no path that the tests of the message type allow for this message leads to RemoveNextPendingPacket: after such a result the queue keeps a finished statement at its head and the rows of every later statement are decoded with the wrong column settings")
	}
}

// msgTypeInterp interprets boolean conditions over `x.messageType[0]` for one concrete type byte k.
type msgTypeInterp struct {
	k    int64
	memo map[*ssa.Function]int // 0 unknown/in progress, 1 false, 2 true, 3 undetermined
}

const (
	mtFalse = 1
	mtTrue  = 2
	mtOpen  = 3
)

func isMsgTypeLoad(v ssa.Value) bool {
	u, ok := stripConv(v).(*ssa.UnOp)
	if !ok || u.Op != token.MUL {
		return false
	}
	ia, ok := u.X.(*ssa.IndexAddr)
	if !ok {
		return false
	}
	if i, isC := intConst(ia.Index); !isC || i != 0 {
		return false
	}
	x := ia.X
	if l, ok := x.(*ssa.UnOp); ok && l.Op == token.MUL {
		x = l.X
	}
	fa, ok := x.(*ssa.FieldAddr)
	if !ok {
		return false
	}
	st, ok := fa.X.Type().Underlying().(*types.Pointer).Elem().Underlying().(*types.Struct)
	return ok && st.Field(fa.Field).Name() == "messageType"
}

// eval: the value of boolean v for type byte k, reached through predecessor `from` (for phis).
func (m *msgTypeInterp) eval(v ssa.Value, from *ssa.BasicBlock, depth int) int {
	switch x := v.(type) {
	case *ssa.Const:
		if x.Value != nil && x.Value.Kind() == constant.Bool {
			if constant.BoolVal(x.Value) {
				return mtTrue
			}
			return mtFalse
		}
	case *ssa.UnOp:
		if x.Op == token.NOT {
			switch m.eval(x.X, from, depth) {
			case mtTrue:
				return mtFalse
			case mtFalse:
				return mtTrue
			}
		}
	case *ssa.BinOp:
		if x.Op == token.EQL || x.Op == token.NEQ {
			var other ssa.Value
			if isMsgTypeLoad(x.X) {
				other = x.Y
			} else if isMsgTypeLoad(x.Y) {
				other = x.X
			}
			if other != nil {
				if c, ok := intConst(stripConv(other)); ok {
					if (c == m.k) == (x.Op == token.EQL) {
						return mtTrue
					}
					return mtFalse
				}
			}
		}
	case *ssa.Phi:
		if from != nil {
			for i, pb := range x.Block().Preds {
				if pb == from && i < len(x.Edges) {
					return m.eval(x.Edges[i], nil, depth)
				}
			}
		}
	case *ssa.Call:
		if h := x.Call.StaticCallee(); h != nil && h.Blocks != nil && depth < 3 {
			return m.evalFunc(h, depth+1)
		}
	}
	return mtOpen
}

// evalFunc: the result of boolean function h for type byte k when every return the type tests allow agrees.
func (m *msgTypeInterp) evalFunc(h *ssa.Function, depth int) int {
	if v, ok := m.memo[h]; ok {
		if v == 0 {
			return mtOpen
		}
		return v
	}
	m.memo[h] = 0
	res := 0
	m.walk(h, depth, func(b, from *ssa.BasicBlock) bool {
		if ret, ok := b.Instrs[len(b.Instrs)-1].(*ssa.Return); ok && len(ret.Results) == 1 {
			v := m.eval(ret.Results[0], from, depth)
			if res == 0 {
				res = v
			} else if res != v {
				res = mtOpen
			}
		}
		return false
	})
	if res == 0 {
		res = mtOpen
	}
	m.memo[h] = res
	return res
}

// walk visits the (block, predecessor) pairs that the type tests allow; visit returning true stops the walk.
func (m *msgTypeInterp) walk(fn *ssa.Function, depth int, visit func(b, from *ssa.BasicBlock) bool) bool {
	type st struct{ b, from *ssa.BasicBlock }
	seen := map[st]bool{}
	var dfs func(b, from *ssa.BasicBlock) bool
	dfs = func(b, from *ssa.BasicBlock) bool {
		if seen[st{b, from}] {
			return false
		}
		seen[st{b, from}] = true
		if visit(b, from) {
			return true
		}
		if iff, ok := b.Instrs[len(b.Instrs)-1].(*ssa.If); ok {
			switch m.eval(iff.Cond, from, depth) {
			case mtTrue:
				return dfs(b.Succs[0], b)
			case mtFalse:
				return dfs(b.Succs[1], b)
			}
		}
		for _, s := range b.Succs {
			if dfs(s, b) {
				return true
			}
		}
		return false
	}
	return dfs(fn.Blocks[0], nil)
}

func (m *msgTypeInterp) reach(fn *ssa.Function, target *ssa.BasicBlock) bool {
	return m.walk(fn, 0, func(b, _ *ssa.BasicBlock) bool { return b == target })
}

func ruleR047(p *Program, r *Report) {
	for _, spec := range []string{"encryptor/postgresql.(*QueryDataEncryptor).getInsertPlaceholders", "encryptor/mysql.(*QueryDataEncryptor).getInsertPlaceholders"} {
		fn := p.Func(spec)
		if fn == nil || fn.Blocks == nil {
			r.Anchor("R04.7", spec)
			continue
		}
		upd := callNamedIn(fn, "updatePlaceholderMap")
		ok, why := false, "no updatePlaceholderMap call"
		if upd != nil {
			bound := plainArgs(upd)[0]
			why = "the bound is not accumulated over the VALUES tuples"
			for v := range backClosure(bound) {
				phi, isPhi := v.(*ssa.Phi)
				if !isPhi {
					continue
				}
				for _, e := range phi.Edges {
					if bo, isBo := e.(*ssa.BinOp); isBo && bo.Op.String() == "+" {
						_, lx := isLenCall(bo.X)
						_, ly := isLenCall(bo.Y)
						if (backClosure(bo.X)[phi] && ly) || (backClosure(bo.Y)[phi] && lx) {
							ok = true
						}
					}
				}
			}
		}
		r.Check(ok, "R04.7", fnName(fn), "placeholder bound is the running total of values", p.Pos(fn.Pos()), "valuesCount += len(tuple)", why+": placeholders of the second and later tuples are rejected as invalid, OnBind fails and the proxy forwards the Bind unchanged - every bound value of the INSERT reaches the database as plaintext")
	}
}

func init() {
	mut("C04", "PortalSuspended no longer pops the pending statement", "decryptor/postgresql/protocol.go", "	if packet.IsCommandComplete() || packet.IsEmptyQueryResponse() || packet.IsPortalSuspended() || packet.IsErrorResponse() {", "	if packet.IsPortalSuspended() {\n		p.lastPacketType = OtherPacket\n		return nil\n	}\n	if packet.IsCommandComplete() || packet.IsEmptyQueryResponse() || packet.IsErrorResponse() {", "R04.6", "IsPortalSuspended")
	mut("C04", "EmptyQueryResponse no longer ends a command", "decryptor/postgresql/protocol.go", "	if packet.IsCommandComplete() || packet.IsEmptyQueryResponse() || packet.IsPortalSuspended() || packet.IsErrorResponse() {", "	if packet.IsCommandComplete() || packet.IsPortalSuspended() || packet.IsErrorResponse() {", "R04.6", "IsEmptyQueryResponse")
	mut("C04", "ErrorResponse handled before the queue is touched", "decryptor/postgresql/protocol.go", "	if packet.IsCommandComplete() || packet.IsEmptyQueryResponse() || packet.IsPortalSuspended() || packet.IsErrorResponse() {", "	if packet.IsErrorResponse() {\n		p.lastPacketType = OtherPacket\n		return nil\n	}\n	if packet.IsCommandComplete() || packet.IsEmptyQueryResponse() || packet.IsPortalSuspended() || packet.IsErrorResponse() {", "R04.6", "IsErrorResponse")
	mut("C04", "pg placeholder bound is the width of one tuple", "encryptor/postgresql/queryDataEncryptor.go", "		valuesCount += len(values)", "		valuesCount = len(values)", "R04.7", "running total")
}

// The confirmed table of the bounds rules is keyed "R14.1|function|construct" whichever rule uses it.
var r048Confirmed = map[string]string{
	"R14.1|(*encryptor/mysql.QueryDataEncryptor).encryptValuesWithPlaceholders|index values[_#1]":    "MySQL placeholders are `?`, numbered :v1..:vN by acra's own tokenizer (posVarIndex is incremented before it is printed), and the Execute packet is decoded with the parameter count N the server announced for the statement: 0 <= index < len(values). A literal `:v0` in the statement text is a syntax error for the server, so no such statement is ever registered. (PostgreSQL, where the parser reports 0 for a non-placeholder, had the defect: fixed in 6b926e7.)",
	"R14.1|(*encryptor/mysql.QueryDataEncryptor).encryptValuesWithPlaceholders|index values[_#1] #2": "same index as above, same function",
}

func init() {
	mut("C04", "pg: a literal is recorded as placeholder 0 again (original defect)", "encryptor/postgresql/queryDataEncryptor.go", "		if valueIndex < 0 || valueIndex >= len(oldValues) {", "		if valueIndex >= len(oldValues) {", "R04.8", "encryptValuesWithPlaceholders")
	mut("C04", "pg: Bind with fewer values than placeholders indexes past the end (original defect)", "encryptor/postgresql/queryDataEncryptor.go", "		if valueIndex < 0 || valueIndex >= len(oldValues) {", "		if valueIndex < 0 {", "R04.8", "encryptValuesWithPlaceholders")
	mut("C04", "pg: placeholder index compared with the wrong end", "encryptor/postgresql/queryDataEncryptor.go", "		if valueIndex < 0 || valueIndex >= len(oldValues) {", "		if valueIndex < 0 || valueIndex > len(oldValues) {", "R04.8", "encryptValuesWithPlaceholders")
}

// ---- R04.10
func ruleR0410(p *Program, r *Report) {
	n := 0
	for _, fn := range p.srcFns {
		pp := strings.TrimPrefix(fnPkgPath(fn), acraMod+"/")
		if !(strings.HasPrefix(pp, "encryptor/") || strings.HasPrefix(pp, "decryptor/") || strings.HasPrefix(pp, "pseudonymization") || strings.HasPrefix(pp, "hmac") || strings.HasPrefix(pp, "masking")) || strings.HasPrefix(pp, "encryptor/base/config") {
			continue
		}
		shared := map[ssa.Value]bool{}
		var work []ssa.Value
		add := func(v ssa.Value) {
			if v != nil && !shared[v] {
				shared[v] = true
				work = append(work, v)
			}
		}
		for _, b := range fn.Blocks {
			for _, in := range b.Instrs {
				c, ok := in.(*ssa.Call)
				if !ok || !c.Call.IsInvoke() || c.Call.Method.Name() != "Columns" {
					continue
				}
				if _, isSlice := c.Type().Underlying().(*types.Slice); isSlice && strings.Contains(c.Call.Value.Type().String(), "config.TableSchema") {
					add(c)
				}
			}
		}
		if len(work) == 0 {
			continue
		}
		for len(work) > 0 {
			v := work[len(work)-1]
			work = work[:len(work)-1]
			refs := v.Referrers()
			if refs == nil {
				continue
			}
			for _, rf := range *refs {
				switch x := rf.(type) {
				case *ssa.Phi:
					add(x)
				case *ssa.Slice:
					if x.X == v {
						add(x)
					}
				case *ssa.Store:
					if x.Val == v {
						if al, ok := x.Addr.(*ssa.Alloc); ok && al.Referrers() != nil {
							for _, ar := range *al.Referrers() {
								if u, ok := ar.(*ssa.UnOp); ok {
									add(u)
								}
							}
						}
					}
				}
			}
		}
		for v := range shared {
			if c, isCall := v.(*ssa.Call); isCall && c.Call.IsInvoke() {
				n++
			}
			refs := v.Referrers()
			if refs == nil {
				continue
			}
			for _, rf := range *refs {
				switch x := rf.(type) {
				case *ssa.Call:
					if b, ok := x.Call.Value.(*ssa.Builtin); ok && b.Name() == "append" && len(x.Call.Args) > 0 && x.Call.Args[0] == v {
						r.Bad("R04.10", fnName(fn), "append onto the schema's column list", p.Pos(x.Pos()), "a slice handed out by TableSchema.Columns() is the base of an append: whenever its capacity allows, the new elements are written into the schema store's own array, which every session shares - a later statement is mapped onto the wrong columns and its protected value goes out in clear")
					}
					if b, ok := x.Call.Value.(*ssa.Builtin); ok && b.Name() == "copy" && len(x.Call.Args) > 0 && x.Call.Args[0] == v {
						r.Bad("R04.10", fnName(fn), "copy into the schema's column list", p.Pos(x.Pos()), "the schema store's own column list is overwritten")
					}
				case *ssa.IndexAddr:
					if x.X != v || x.Referrers() == nil {
						continue
					}
					for _, ir := range *x.Referrers() {
						if st, ok := ir.(*ssa.Store); ok && st.Addr == ssa.Value(x) {
							r.Bad("R04.10", fnName(fn), "store into the schema's column list", p.Pos(st.Pos()), "an element of the schema store's own column list is overwritten: every session shares that list")
						}
					}
				}
			}
		}
	}
	for i := 0; i < n; i++ {
		r.OK("R04.10", "statement handlers", fmt.Sprintf("TableSchema.Columns() use #%d", i+1), "-", "read only")
	}
	if n < 6 {
		r.Bad("R04.10", "statement handlers", "uses of TableSchema.Columns()", "-", fmt.Sprintf("%d uses found, 10 confirmed by reading", n))
	}
}

func init() {
	mut("C04", "INSERT column list built by re-slicing the schema's own column list", "encryptor/postgresql/queryDataEncryptor.go", "	} else if cols := schema.Columns(); len(cols) > 0 {\n		columnsName = cols\n	}", "	} else if cols := schema.Columns(); len(cols) > 0 {\n		columnsName = append(cols[:0], cols...)\n	}", "R04.10", "append onto")
}

// ---- R04.11
func ruleR0411(p *Program, r *Report) {
	fn := p.Func("decryptor/postgresql.(*PgProxy).handleBindPacket")
	if fn == nil || fn.Blocks == nil {
		r.Anchor("R04.11", "PgProxy.handleBindPacket")
		return
	}
	var onBind *ssa.Call
	for _, cs := range callsIn(fn) {
		if c, ok := cs.Instr.(*ssa.Call); ok && cs.Instr.Common().IsInvoke() && cs.Instr.Common().Method.Name() == "OnBind" {
			onBind = c
		}
	}
	if onBind == nil {
		r.Anchor("R04.11", "OnBind call in handleBindPacket")
		return
	}
	errv := extractOf(onBind, 2)
	bad := ""
	for _, i := range allIfs(fn) {
		if _, nn, ok := nilBranches(i, errv); ok {
			for _, ret := range returnsOf(fn) {
				if nn.Dominates(ret.Block()) && isNilConst(retValue(ret, 1)) {
					bad = "return with a nil error at " + p.Pos(ret.Pos())
				}
			}
		}
	}
	r.Check(bad == "", "R04.11", fnName(fn), "OnBind failure is not answered by forwarding the Bind", p.Pos(onBind.Pos()), "every return on the error edge returns the error", bad+" on the error edge of OnBind: the Bind is written to the database with the client's parameters as they came, in clear")
}
