package main

import (
	"go/constant"
	"go/token"
	"go/types"

	"golang.org/x/tools/go/ssa"
)

// E3: path rules over the SSA control-flow graph of one function.

// reaches reports whether some path leads from block `from` (entering it) to block `to`, never entering a block in avoid.
func reaches(from, to *ssa.BasicBlock, avoid map[*ssa.BasicBlock]bool) bool {
	if avoid[from] {
		return false
	}
	seen := map[*ssa.BasicBlock]bool{}
	var dfs func(b *ssa.BasicBlock) bool
	dfs = func(b *ssa.BasicBlock) bool {
		if b == to {
			return true
		}
		if seen[b] || avoid[b] {
			return false
		}
		seen[b] = true
		for _, s := range b.Succs {
			if dfs(s) {
				return true
			}
		}
		return false
	}
	return dfs(from)
}

// reachableFrom returns all blocks reachable from b (inclusive), not entering avoid.
func reachableFrom(b *ssa.BasicBlock, avoid map[*ssa.BasicBlock]bool) map[*ssa.BasicBlock]bool {
	out := map[*ssa.BasicBlock]bool{}
	var dfs func(b *ssa.BasicBlock)
	dfs = func(b *ssa.BasicBlock) {
		if out[b] || avoid[b] {
			return
		}
		out[b] = true
		for _, s := range b.Succs {
			dfs(s)
		}
	}
	dfs(b)
	return out
}

// stripConv removes interface/type conversions.
func stripConv(v ssa.Value) ssa.Value {
	for {
		switch x := v.(type) {
		case *ssa.ChangeInterface:
			v = x.X
		case *ssa.MakeInterface:
			v = x.X
		case *ssa.ChangeType:
			v = x.X
		case *ssa.Convert:
			v = x.X
		default:
			return v
		}
	}
}

// callsIn lists call instructions of fn (including defer/go) with their resolved callee object.
type callSite struct {
	Instr  ssa.CallInstruction
	Callee *types.Func
	Block  *ssa.BasicBlock
	Index  int // index in block
}

func callsIn(fn *ssa.Function) []callSite {
	var out []callSite
	for _, b := range fn.Blocks {
		for i, in := range b.Instrs {
			if c, ok := in.(ssa.CallInstruction); ok {
				out = append(out, callSite{c, calleeOfCommon(c.Common()), b, i})
			}
		}
	}
	return out
}

func callsTo(fn *ssa.Function, callee *types.Func) []callSite {
	var out []callSite
	for _, c := range callsIn(fn) {
		if c.Callee == callee && callee != nil {
			out = append(out, c)
		}
	}
	return out
}

// ifOn returns the If instruction (and its block) that branches directly on v (or on !v: negated=true).
func ifsOn(v ssa.Value) []*ssa.If {
	var out []*ssa.If
	refs := v.Referrers()
	if refs == nil {
		return nil
	}
	for _, r := range *refs {
		if i, ok := r.(*ssa.If); ok {
			out = append(out, i)
		}
	}
	return out
}

// constStringOf returns the constant string of v if it is one (through conversions).
func constStringOf(v ssa.Value) (string, bool) {
	if c, ok := stripConv(v).(*ssa.Const); ok && c.Value != nil && c.Value.Kind() == constant.String {
		return constant.StringVal(c.Value), true
	}
	return "", false
}

// isNilConst reports a nil constant.
func isNilConst(v ssa.Value) bool {
	c, ok := v.(*ssa.Const)
	return ok && c.Value == nil
}

// extractOf returns the Extract instructions of tuple value with index idx.
func extractOf(tuple ssa.Value, idx int) *ssa.Extract {
	refs := tuple.Referrers()
	if refs == nil {
		return nil
	}
	for _, r := range *refs {
		if ex, ok := r.(*ssa.Extract); ok && ex.Index == idx {
			return ex
		}
	}
	return nil
}

// errNilBranch: for an If on (x != nil) or (x == nil) where x is `v`, returns (okSucc, errSucc).
func nilBranches(i *ssa.If, v ssa.Value) (nilSucc, nonNilSucc *ssa.BasicBlock, ok bool) {
	b, isBin := i.Cond.(*ssa.BinOp)
	if !isBin || (b.Op != token.NEQ && b.Op != token.EQL) {
		return nil, nil, false
	}
	var other ssa.Value
	if b.X == v {
		other = b.Y
	} else if b.Y == v {
		other = b.X
	} else {
		return nil, nil, false
	}
	if !isNilConst(other) {
		return nil, nil, false
	}
	blk := i.Block()
	if b.Op == token.NEQ {
		return blk.Succs[1], blk.Succs[0], true
	}
	return blk.Succs[0], blk.Succs[1], true
}

// returnsOf lists the Return instructions of fn.
func returnsOf(fn *ssa.Function) []*ssa.Return {
	var out []*ssa.Return
	for _, b := range fn.Blocks {
		if len(b.Instrs) == 0 {
			continue
		}
		if r, ok := b.Instrs[len(b.Instrs)-1].(*ssa.Return); ok {
			out = append(out, r)
		}
	}
	return out
}

// retValue resolves result i of a return through the defer spill (`*t0 = v; rundefers; t7 = *t0; return t7`).
func retValue(ret *ssa.Return, i int) ssa.Value {
	v := ret.Results[i]
	u, ok := v.(*ssa.UnOp)
	if !ok || u.Op != token.MUL {
		return v
	}
	a, ok := u.X.(*ssa.Alloc)
	if !ok {
		return v
	}
	instrs := ret.Block().Instrs
	for k := len(instrs) - 1; k >= 0; k-- {
		if st, ok := instrs[k].(*ssa.Store); ok && st.Addr == ssa.Value(a) {
			return st.Val
		}
	}
	return v
}

// isRecoverBlock reports the synthetic recover block of a function with defers.
func isRecoverBlock(b *ssa.BasicBlock) bool {
	return b.Parent().Recover == b
}

// storesToRecvField lists Store instructions in fn whose address is field `name` of the receiver (param 0).
func storesToRecvField(fn *ssa.Function, name string) []*ssa.Store {
	var out []*ssa.Store
	if len(fn.Params) == 0 {
		return nil
	}
	recv := fn.Params[0]
	for _, b := range fn.Blocks {
		for _, in := range b.Instrs {
			st, ok := in.(*ssa.Store)
			if !ok {
				continue
			}
			fa, ok := st.Addr.(*ssa.FieldAddr)
			if !ok || fa.X != ssa.Value(recv) {
				continue
			}
			base := fa.X.Type()
			if pt, ok := base.Underlying().(*types.Pointer); ok {
				base = pt.Elem()
			}
			if stt, ok := base.Underlying().(*types.Struct); ok && stt.Field(fa.Field).Name() == name {
				out = append(out, st)
			}
		}
	}
	return out
}

// exitsWithoutEvent returns the returns of fn reachable from the entry without passing any of the given instructions.
func exitsWithoutEvent(fn *ssa.Function, events []ssa.Instruction) []*ssa.Return {
	evBlocks := map[*ssa.BasicBlock]bool{}
	for _, e := range events {
		evBlocks[e.Block()] = true
	}
	var out []*ssa.Return
	for _, ret := range returnsOf(fn) {
		if isRecoverBlock(ret.Block()) {
			continue
		}
		if evBlocks[ret.Block()] {
			continue // the event happens in the return's own block (stores precede the return in straight-line code)
		}
		if len(fn.Blocks) > 0 && reaches(fn.Blocks[0], ret.Block(), evBlocks) {
			out = append(out, ret)
		}
	}
	return out
}
