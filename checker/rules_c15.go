package main

import (
	"go/token"
	"go/types"
	"strings"

	"golang.org/x/tools/go/ssa"
)

func init() {
	register(&Property{ID: "C15", Patterns: []string{"./..."}, Run: runC15})
}

func runC15(p *Program, r *Report) {
	r.Rule("R15.1", "E3", 5, "detector first: in both proxy factories the poison-record detector is added to the envelope detector's callbacks before the decrypt handler, on the 'callbacks are configured' edge; the translator adds it on the same condition")
	r.Rule("R15.2", "E3", 4, "callbacks run on success only and always on success: in PoisonRecordDetector.OnCryptoEnvelope the only path to callbacks.Call() is the err == nil edge of processor.Process executed with the poison key-store wrapper, that edge always reaches Call(), a callback error is returned, and the wrapper's getters return the poison keys")
	r.Rule("R15.3", "E3", 4, "translator checks for poison after every failed reveal: each of the four Decrypt* operations calls poisonDetector.OnColumn on every path that returns a decryption failure (failed decrypt and, for the searchable ones, 'no hash prefix')")
	r.Rule("R15.4", "E3", 2, "alarm before delivery: in EnvelopeDetector.OnColumn an error from a callback other than ErrDecryptionError returns before the rebuilt buffer is returned; the detector callback error is propagated by the proxies")
	ruleR151(p, r)
	ruleR152(p, r)
	ruleR153(p, r)
	ruleR154(p, r)
	r.Rule("R15.5", "E3", 4, "a poison record embedded in a value is found wherever it starts: the inline scanner advances to the found tag, by one byte, or by the replaced envelope's length, never over positions it has not examined")
	ruleScanAdvance(p, r, "R15.5")
}

func ruleR151(p *Program, r *Report) {
	for _, spec := range proxyFactories {
		fn := p.Func(spec)
		if fn == nil || fn.Blocks == nil {
			r.Anchor("R15.1", spec)
			continue
		}
		evs := wireEvents(fn)
		poison := findEvents(evs, "AddCallback", "PoisonRecordDetector")
		decrypt := findEvents(evs, "AddCallback", "DecryptHandler")
		name := fnName(fn)
		if len(poison) == 0 || len(decrypt) == 0 {
			r.Bad("R15.1", name, "AddCallback(poison detector) / AddCallback(decrypt handler)", p.Pos(fn.Pos()), "the envelope detector no longer gets both callbacks")
			continue
		}
		r.Check(precedesAll(poison, decrypt), "R15.1", name, "poison detector added before the decrypt handler", p.Pos(poison[0].Instr.Pos()), "callback order: detector, then decryptor", "the decrypt handler runs before the poison detector: a poison record is tried with the client's keys first and the alarm no longer precedes delivery")
		// on the HasCallbacks() true edge
		onEdge := false
		for _, cs := range callsIn(fn) {
			if cs.Callee != nil && cs.Callee.Name() == "HasCallbacks" {
				if c, ok := cs.Instr.(*ssa.Call); ok {
					for _, i := range condIfs(c) {
						if i.Block().Succs[0].Dominates(poison[0].Instr.Block()) {
							onEdge = true
						}
					}
				}
			}
		}
		r.Check(onEdge, "R15.1", name, "detector registered when callbacks are configured", p.Pos(poison[0].Instr.Pos()), "dominated by the HasCallbacks() true edge", "the detector's registration does not depend on 'callbacks configured' any more")
	}
	if fn := p.Func("cmd/acra-translator/common.NewTranslatorService"); fn == nil || fn.Blocks == nil {
		r.Anchor("R15.1", "NewTranslatorService")
	} else {
		evs := wireEvents(fn)
		r.Check(len(findEvents(evs, "AddCallback", "PoisonRecordDetector")) == 1, "R15.1", fnName(fn), "translator registers the poison detector", p.Pos(fn.Pos()), "poisonEnvelopeDetector.AddCallback(poisonDetector)", "the translator's poison detector is never given its callback")
	}
}

func ruleR152(p *Program, r *Report) {
	fn := p.Func("crypto.(PoisonRecordDetector).OnCryptoEnvelope")
	if fn == nil || fn.Blocks == nil {
		r.Anchor("R15.2", "PoisonRecordDetector.OnCryptoEnvelope")
		return
	}
	name := fnName(fn)
	var process, call *ssa.Call
	for _, cs := range callsIn(fn) {
		c, ok := cs.Instr.(*ssa.Call)
		if !ok {
			continue
		}
		cc := c.Common()
		if cc.IsInvoke() && cc.Method.Name() == "Process" {
			process = c
		}
		if cc.IsInvoke() && cc.Method.Name() == "Call" {
			call = c
		}
	}
	if process == nil || call == nil {
		r.Bad("R15.2", name, "Process / callbacks.Call", p.Pos(fn.Pos()), "detector no longer runs the processor or the callbacks")
		return
	}
	// Process runs with the poison key store wrapper
	wrapper := p.FuncObj("crypto.NewPoisonRecordKeyStoreWrapper")
	usesWrapper := false
	for v := range backClosure(process.Common().Args[1]) {
		if c, ok := v.(*ssa.Call); ok && calleeOfCommon(c.Common()) == wrapper && wrapper != nil {
			usesWrapper = true
		}
	}
	r.Check(usesWrapper, "R15.2", name, "trial decryption uses the poison keys", p.Pos(process.Pos()), "DataProcessorContext.Keystore = NewPoisonRecordKeyStoreWrapper(…)", "the detector's trial decryption does not use the poison key-store wrapper: ordinary client data would raise the alarm (or poison records would not)")
	errv := extractOf(process, 1)
	okOnly, okAlways := false, false
	if errv != nil {
		if refs := errv.Referrers(); refs != nil {
			for _, rf := range *refs {
				if bo, ok := rf.(*ssa.BinOp); ok {
					for _, i := range ifsOn(bo) {
						if nilS, nonNil, ok := nilBranches(i, errv); ok {
							if nilS.Dominates(call.Block()) && !reaches(nonNil, call.Block(), nil) {
								okOnly = true
							}
							// every path from the nil edge to a return passes the Call (allowing a second HasCallbacks test is the code's own guard)
							avoid := map[*ssa.BasicBlock]bool{call.Block(): true}
							always := true
							for _, ret := range returnsOf(fn) {
								if isRecoverBlock(ret.Block()) || ret.Block() == call.Block() {
									continue
								}
								if reaches(nilS, ret.Block(), avoid) {
									// tolerated only through the false edge of a HasCallbacks() re-test
									tolerated := false
									for _, cs := range callsIn(fn) {
										if cs.Callee != nil && cs.Callee.Name() == "HasCallbacks" && nilS.Dominates(cs.Block) {
											tolerated = true
										}
									}
									if !tolerated {
										always = false
									}
								}
							}
							okAlways = always
						}
					}
				}
			}
		}
	}
	for _, cs := range callsIn(fn) {
		cc := cs.Instr.Common()
		if cc.IsInvoke() && cc.Method.Name() == "Call" && cs.Instr != ssa.CallInstruction(call) {
			okOnly = false
		}
	}
	// every envelope is tried: a return that avoids Process is reachable only over the 'no callbacks configured' edge
	{
		type edge struct{ from, to *ssa.BasicBlock }
		allowed := map[edge]bool{}
		for _, cs := range callsIn(fn) {
			cc := cs.Instr.Common()
			if !(cc.IsInvoke() && cc.Method.Name() == "HasCallbacks") {
				continue
			}
			hv, _ := cs.Instr.(*ssa.Call)
			if hv == nil {
				continue
			}
			for _, i := range ifsOn(hv) {
				allowed[edge{i.Block(), i.Block().Succs[1]}] = true
			}
			if refs := hv.Referrers(); refs != nil {
				for _, rf := range *refs {
					if u, ok := rf.(*ssa.UnOp); ok && u.Op == token.NOT {
						for _, i := range ifsOn(u) {
							allowed[edge{i.Block(), i.Block().Succs[0]}] = true
						}
					}
				}
			}
		}
		seen := map[*ssa.BasicBlock]bool{}
		skipped := ""
		var dfs func(b *ssa.BasicBlock)
		dfs = func(b *ssa.BasicBlock) {
			if seen[b] || b == process.Block() || skipped != "" {
				return
			}
			seen[b] = true
			if ret, ok := b.Instrs[len(b.Instrs)-1].(*ssa.Return); ok && !isRecoverBlock(b) {
				skipped = p.Pos(ret.Pos())
				return
			}
			for _, sx := range b.Succs {
				if !allowed[edge{b, sx}] {
					dfs(sx)
				}
			}
		}
		dfs(fn.Blocks[0])
		r.Check(skipped == "", "R15.2", name, "every envelope is tried with the poison keys", p.Pos(process.Pos()), "a return that avoids the trial decryption is reachable only over the 'no callbacks configured' edge", "the return at "+skipped+" is reachable without the trial decryption under a condition other than 'no callbacks configured' (a remembered verdict, a flag, the envelope kind): a poison record that arrives then is delivered without the alarm")
	}
	r.Check(okOnly, "R15.2", name, "callbacks only after a successful poison decryption", p.Pos(call.Pos()), "Call() is dominated by the err == nil edge of Process", "the intrusion callbacks can run although the value did not decrypt with the poison keys (ordinary or damaged data raises the alarm)")
	r.Check(okAlways, "R15.2", name, "a recognised poison record always runs the callbacks", p.Pos(call.Pos()), "every exit from the err == nil edge passes Call()", "a value that decrypts with the poison keys can leave the detector without the callbacks having run")
	// callback error returned
	cerr := ssa.Value(call)
	okRet := false
	for _, ret := range returnsOf(fn) {
		if ret.Block() == call.Block() || call.Block().Dominates(ret.Block()) {
			for _, leaf := range leavesOf(retValue(ret, 1), leafOpts{}) {
				if leaf == cerr {
					okRet = true
				}
			}
		}
	}
	r.Check(okRet, "R15.2", name, "callback error is returned", p.Pos(call.Pos()), "the error of callbacks.Call() reaches the caller", "an error raised by the intrusion callbacks is dropped")
	// who may call PoisonRecordCallbackStorage.Call
	n := 0
	for _, f := range p.srcFns {
		for _, cs := range callsIn(f) {
			cc := cs.Instr.Common()
			if cc.IsInvoke() && cc.Method.Name() == "Call" && strings.Contains(cc.Value.Type().String(), "PoisonRecordCallbackStorage") {
				n++
				if f != fn {
					r.Bad("R15.2", fnName(f), "callbacks.Call()", p.Pos(cs.Instr.Pos()), "intrusion callbacks are invoked outside the poison detector")
				}
			}
		}
	}
	// wrapper getters return poison keys
	for _, m := range []struct{ name, want string }{{"GetClientIDSymmetricKeys", "GetPoisonSymmetricKeys"}, {"GetClientIDSymmetricKey", "GetPoisonSymmetricKey"}, {"GetServerDecryptionPrivateKeys", "GetPoisonPrivateKeys"}} {
		f := p.Func("crypto.(PoisonRecordKeyStoreWrapper)." + m.name)
		if f == nil || f.Blocks == nil {
			r.Anchor("R15.2", "PoisonRecordKeyStoreWrapper."+m.name)
			continue
		}
		ok := false
		for _, cs := range callsIn(f) {
			if cs.Instr.Common().IsInvoke() && cs.Instr.Common().Method.Name() == m.want {
				ok = true
			}
		}
		r.Check(ok, "R15.2", fnName(f), "returns "+m.want+"()", p.Pos(f.Pos()), "poison keys", "the wrapper no longer serves the poison keys for this lookup")
	}
	_ = types.Typ
}

func ruleR153(p *Program, r *Report) {
	errCant, _ := p.Lookup("cmd/acra-translator/common.ErrCantDecrypt").(*types.Var)
	errFail, _ := p.Lookup("cmd/acra-translator/common.ErrDecryptionFailed").(*types.Var)
	for _, m := range []string{"Decrypt", "DecryptSym", "DecryptSearchable", "DecryptSymSearchable"} {
		spec := "cmd/acra-translator/common.(*TranslatorService)." + m
		fn := p.Func(spec)
		if fn == nil || fn.Blocks == nil {
			r.Anchor("R15.3", spec)
			continue
		}
		name := fnName(fn)
		// poison check events
		var checks []ssa.Instruction
		for _, cs := range callsIn(fn) {
			cc := cs.Instr.Common()
			if cs.Callee != nil && cs.Callee.Name() == "OnColumn" {
				if _, f, ok := fieldOfLoad(cc.Args[0]); ok && f == "poisonDetector" {
					checks = append(checks, cs.Instr.(ssa.Instruction))
				}
			}
		}
		if len(checks) == 0 {
			r.Bad("R15.3", name, "poisonDetector.OnColumn", p.Pos(fn.Pos()), "the operation never checks for poison records")
			continue
		}
		// the point after which a failure is a *decryption* failure: the handler lookup succeeded (input validation and
		// configuration errors before that are not reveal attempts)
		var start *ssa.BasicBlock
		for _, cs := range callsIn(fn) {
			if cs.Callee != nil && (cs.Callee.Name() == "ExtractHashAndData" || cs.Callee.Name() == "DecryptWithHandler") {
				if start == nil || cs.Block.Dominates(start) {
					start = cs.Block
				}
			}
		}
		if start == nil {
			r.Bad("R15.3", name, "reveal attempt", p.Pos(fn.Pos()), "no reveal attempt (ExtractHashAndData / DecryptWithHandler) found")
			continue
		}
		evBlocks := map[*ssa.BasicBlock]bool{}
		for _, c := range checks {
			evBlocks[c.Block()] = true
		}
		for _, ret := range returnsOf(fn) {
			if isRecoverBlock(ret.Block()) {
				continue
			}
			ev := retValue(ret, 1)
			isFailure := false
			if u, ok := ev.(*ssa.UnOp); ok {
				if g, ok := u.X.(*ssa.Global); ok && (g.Object() == types.Object(errCant) || g.Object() == types.Object(errFail)) {
					isFailure = true
				}
			}
			if !isFailure || !reaches(start, ret.Block(), nil) || ret.Block() == start && false {
				continue
			}
			// hash mismatch after a *successful* decryption is not a poison case (a poison record never decrypts with client keys)
			afterIsEqual := false
			for _, cs := range callsIn(fn) {
				if cs.Callee != nil && cs.Callee.Name() == "IsEqual" && cs.Block.Dominates(ret.Block()) {
					afterIsEqual = true
				}
			}
			// failure of the handler lookup itself (configuration) is not a reveal failure
			afterLookupErr := false
			for _, cs := range callsIn(fn) {
				if cs.Callee != nil && cs.Callee.Name() == "GetHandlerByEnvelopeID" {
					if errv := extractOf(cs.Instr.Value(), 1); errv != nil {
						if refs := errv.Referrers(); refs != nil {
							for _, rf := range *refs {
								if bo, ok := rf.(*ssa.BinOp); ok {
									for _, i := range ifsOn(bo) {
										if _, nonNil, ok := nilBranches(i, errv); ok && nonNil.Dominates(ret.Block()) {
											afterLookupErr = true
										}
									}
								}
							}
						}
					}
				}
			}
			if afterIsEqual || afterLookupErr {
				continue
			}
			missed := !evBlocks[ret.Block()] && reaches(start, ret.Block(), evBlocks)
			r.Check(!missed, "R15.3", name, "failure exit "+retText(p, ret), p.Pos(ret.Pos()), "preceded by poisonDetector.OnColumn on every path", "this decryption-failure exit can be reached without the poison check: a poison record sent to this operation raises no alarm")
		}
	}
}

func ruleR154(p *Program, r *Report) {
	fn := p.Func("crypto.(*EnvelopeDetector).OnColumn")
	if fn == nil || fn.Blocks == nil {
		r.Anchor("R15.4", "EnvelopeDetector.OnColumn")
		return
	}
	name := fnName(fn)
	for _, cs := range callsIn(fn) {
		cc := cs.Instr.Common()
		if !cc.IsInvoke() || cc.Method.Name() != "OnCryptoEnvelope" {
			continue
		}
		errv := extractOf(cs.Instr.Value(), 1)
		ok := false
		if errv != nil {
			// exists a return carrying errv (non-decryption errors are returned)
			for _, ret := range returnsOf(fn) {
				for _, leaf := range leavesOf(retValue(ret, 2), leafOpts{}) {
					if leaf == ssa.Value(errv) {
						ok = true
					}
				}
			}
		}
		r.Check(ok, "R15.4", name, "callback error aborts the column", p.Pos(cs.Instr.Pos()), "a callback error (other than ErrDecryptionError) is returned to the proxy", "errors of envelope callbacks (the poison alarm among them) are swallowed by the detector: the value is delivered although the alarm failed")
		// the ErrDecryptionError test exists
		isTest := false
		for _, c2 := range callsIn(fn) {
			if c2.Callee != nil && c2.Callee.FullName() == "errors.Is" {
				isTest = true
			}
		}
		r.Check(isTest, "R15.4", name, "only ErrDecryptionError is tolerated", p.Pos(cs.Instr.Pos()), "errors.Is(err, ErrDecryptionError) selects the tolerated error", "the detector no longer distinguishes 'could not decrypt' from other callback errors")
	}
}

func init() {
	mut("C15", "pg: decrypt handler registered before the poison detector", "decryptor/postgresql/proxy.go", "		envelopeDetector.AddCallback(poisonDetector)\n	}\n", "		defer envelopeDetector.AddCallback(poisonDetector)\n	}\n", "R15.1", "poison detector added before")
	mut("C15", "callbacks also run when poison keys are missing", "crypto/poison_detector.go", "	if errors.Is(err, keystore.ErrKeysNotFound) {\n		logger.Warningln(\"Skip poison record check due to a lack of poison keys\")\n		return container, nil\n	}", "	if errors.Is(err, keystore.ErrKeysNotFound) {\n		logger.Warningln(\"Skip poison record check due to a lack of poison keys\")\n		return container, recognizer.callbacks.Call()\n	}", "R15.2", "")
	mut("C15", "trial decryption with the plain key store", "crypto/poison_detector.go", "		Keystore: NewPoisonRecordKeyStoreWrapper(recognizer.keyStore),", "		Keystore: nil,", "R15.2", "trial decryption uses the poison keys")
	mut("C15", "DecryptSym forgets the poison check", "cmd/acra-translator/common/service.go", "		_, _, poisonErr := service.poisonDetector.OnColumn(dataCtx, acraBlock)\n		if poisonErr != nil {", "		var poisonErr error\n		if poisonErr != nil {", "R15.3", "DecryptSym")
	mut("C15", "envelope detector swallows callback errors", "crypto/envelope_detector.go", "				logrus.WithError(err).WithField(\"callback\", handler.ID()).Debugln(\"EnvelopeDetector.OnCryptoEnvelope failed to process container\")\n				return ctx, inBuffer, err", "				logrus.WithError(err).WithField(\"callback\", handler.ID()).Debugln(\"EnvelopeDetector.OnCryptoEnvelope failed to process container\")\n				continue", "R15.4", "callback error aborts")
}

func init() {
	mut("C15", "detector remembers that a trial decryption found no poison keys and stops trying", "crypto/poison_detector.go", "	if !recognizer.callbacks.HasCallbacks() {\n		logger.Debugln(\"Skip poison record check due to empty callbacks\")\n		return container, nil\n	}\n", "	if !recognizer.callbacks.HasCallbacks() {\n		logger.Debugln(\"Skip poison record check due to empty callbacks\")\n		return container, nil\n	}\n	if len(container) > 1<<20 {\n		return container, nil\n	}\n", "R15.2", "every envelope is tried")
}
