package main

import (
	"go/types"
	"strings"

	"golang.org/x/tools/go/ssa"
)

func init() {
	register(&Property{ID: "C08", Patterns: []string{"./..."}, Run: runC08})
}

func runC08(p *Program, r *Report) {
	r.Rule("R08.1", "E3", 5, "replace by rename, in order: v1 WriteKeyFile creates a temporary file, writes the data into it, preserves the old version and only then renames the temporary file over the target, which nothing else in the function writes; v2 pushASNring renames '<ring>.keyring.new' over the ring only after Put succeeded; DirectoryBackend.Put reports success only after Write, Sync and Close")
	ruleR081(p, r)
	r.Rule("R08.2", "E3", 3, "the in-memory transaction log is rolled back when the write fails: every key ring mutator pops as many transactions on the failure edge of syncKeyRing as it pushed, and none on success; writeKeyRing commits only after the new state was pushed")
	ruleR082(p, r)
	r.Rule("R08.3", "E3", 60, "storage errors are not swallowed: in the keystores and the re-encryption tool no err != nil edge of a call falls through to a success return, except the enumerated idioms (os.IsNotExist/IsExist tolerance on that error, cleanup in a deferred closure, the frozen table of optional-cache and retry sites)")
	ruleR083(p, r)
	r.Rule("R08.4", "E3", 4, "temporary files do not poison the keystore: v1 removes its temporary file on every exit that did not rename it; the v1 listing skips names it does not recognise; v2 supersedes a stale '.keyring.new' instead of failing on it, and lists only '.keyring' entries")
	ruleR084(p, r)
}

// cellValue: the single value stored into the local cell that v is loaded from (captured variables live in cells).
func cellValue(v ssa.Value) ssa.Value {
	u, ok := v.(*ssa.UnOp)
	if !ok {
		return v
	}
	var cell ssa.Value = u.X
	var stores []*ssa.Store
	switch c := cell.(type) {
	case *ssa.Alloc:
		stores = storesInto(c)
	case *ssa.FreeVar:
		// resolve through the closure binding in the parent
		fn := c.Parent()
		idx := -1
		for i, fv := range fn.FreeVars {
			if fv == c {
				idx = i
			}
		}
		if par := fn.Parent(); par != nil && idx >= 0 {
			for _, b := range par.Blocks {
				for _, in := range b.Instrs {
					if mc, ok := in.(*ssa.MakeClosure); ok && mc.Fn == ssa.Value(fn) {
						if al, ok := mc.Bindings[idx].(*ssa.Alloc); ok {
							stores = storesInto(al)
						}
					}
				}
			}
		}
	default:
		return v
	}
	if len(stores) == 1 {
		return stores[0].Val
	}
	return v
}

// cellOf: the cell (Alloc in the defining function) behind a load, also through a closure's free variable.
func cellOf(v ssa.Value) ssa.Value {
	u, ok := v.(*ssa.UnOp)
	if !ok {
		return nil
	}
	switch c := u.X.(type) {
	case *ssa.Alloc:
		return c
	case *ssa.FreeVar:
		fn := c.Parent()
		for i, fv := range fn.FreeVars {
			if fv != c {
				continue
			}
			if par := fn.Parent(); par != nil {
				for _, b := range par.Blocks {
					for _, in := range b.Instrs {
						if mc, ok := in.(*ssa.MakeClosure); ok && mc.Fn == ssa.Value(fn) {
							return mc.Bindings[i]
						}
					}
				}
			}
		}
	}
	return nil
}

func invokeNamed(fn *ssa.Function, name string) []*ssa.Call {
	var out []*ssa.Call
	for _, c := range callsNamed(fn, name) {
		out = append(out, c)
	}
	return out
}

func ruleR081(p *Program, r *Report) {
	// v1
	if fn := p.Func("keystore/filesystem.(*KeyStore).WriteKeyFile"); fn == nil || fn.Blocks == nil {
		r.Anchor("R08.1", "WriteKeyFile")
	} else {
		name := fnName(fn)
		tf, wf, bk, rn := invokeNamed(fn, "TempFile"), invokeNamed(fn, "WriteFile"), invokeNamed(fn, "backupHistoricalKeyFile"), invokeNamed(fn, "Rename")
		target := paramByName(fn, "filename")
		ok, why := false, ""
		switch {
		case len(tf) != 1 || len(wf) != 1 || len(bk) != 1 || len(rn) != 1:
			why = "expected exactly one TempFile, WriteFile, backupHistoricalKeyFile and Rename call"
		default:
			tmp := ssa.Value(extractOf(tf[0], 0))
			switch {
			case cellValue(wf[0].Common().Args[0]) != tmp:
				why = "the data is not written into the temporary file"
			case cellValue(rn[0].Common().Args[0]) != tmp || rn[0].Common().Args[1] != ssa.Value(target):
				why = "the rename is not from the temporary file onto the target"
			case !nilEdgeDominates(tf[0], wf[0].Block()) || !nilEdgeDominates(wf[0], bk[0].Block()) || !nilEdgeDominates(bk[0], rn[0].Block()):
				why = "temporary file, data write, history backup and rename do not each run only after the previous step succeeded"
			default:
				ok = true
				for _, ret := range returnsOf(fn) {
					if isRecoverBlock(ret.Block()) {
						continue
					}
					if isNilConst(retValue(ret, 0)) && !nilEdgeDominates(rn[0], ret.Block()) {
						ok, why = false, "success is reported on a path where the rename did not succeed"
					}
				}
				for _, cs := range callsIn(fn) {
					cm := cs.Instr.Common()
					if !cm.IsInvoke() {
						continue
					}
					switch cm.Method.Name() {
					case "WriteFile":
						if cm.Args[0] == ssa.Value(target) {
							ok, why = false, "the target is written in place"
						}
					case "Copy", "Link":
						if cm.Args[1] == ssa.Value(target) {
							ok, why = false, "the target is overwritten by "+cm.Method.Name()
						}
					}
				}
			}
		}
		r.Check(ok, "R08.1", name, "temp -> write -> backup -> rename over the target", p.Pos(fn.Pos()), "each step on the success edge of the previous one; target touched only by the rename", why+": a failure or crash in the middle can leave the key half-written or the old version lost")
	}
	// v1: preserving the old version never takes the current file away
	if fn := p.Func("keystore/filesystem.(*KeyStore).backupHistoricalKeyFile"); fn == nil || fn.Blocks == nil {
		r.Anchor("R08.1", "backupHistoricalKeyFile")
	} else {
		cur := paramByName(fn, "filename")
		bad := ""
		copies := 0
		for _, cs := range callsIn(fn) {
			cm := cs.Instr.Common()
			if !cm.IsInvoke() {
				continue
			}
			switch cm.Method.Name() {
			case "Rename":
				if cm.Args[0] == ssa.Value(cur) || cm.Args[1] == ssa.Value(cur) {
					bad = "renames the current key file"
				}
			case "Remove", "RemoveAll":
				if cm.Args[0] == ssa.Value(cur) {
					bad = "removes the current key file"
				}
			case "WriteFile":
				if cm.Args[0] == ssa.Value(cur) {
					bad = "rewrites the current key file"
				}
			case "Link", "Copy":
				if cm.Args[0] == ssa.Value(cur) && cm.Args[1] != ssa.Value(cur) {
					copies++
				} else {
					bad = cm.Method.Name() + " does not go from the current key file to the history"
				}
			}
		}
		if bad == "" && copies == 0 {
			bad = "no Link/Copy of the current key file"
		}
		r.Check(bad == "", "R08.1", fnName(fn), "the old version is preserved by link or copy, the current file stays in place", p.Pos(fn.Pos()), "Link(current, backup) or Copy(current, backup) only", bad+": between this step and the final rename the key file does not exist, so a failure or crash there loses the current key")
	}
	// v2 pushASNring
	if fn := p.Func("keystore/v2/keystore/filesystem.(*KeyStore).pushASNring"); fn == nil || fn.Blocks == nil {
		r.Anchor("R08.1", "pushASNring")
	} else {
		puts, rns := invokeNamed(fn, "Put"), invokeNamed(fn, "Rename")
		ok, why := false, "no rename of the new file over the ring"
		for _, rn := range rns {
			src, dst := rn.Common().Args[0], rn.Common().Args[1]
			if len(puts) == 0 || src != puts[0].Common().Args[0] {
				continue // the 'move the stale file aside' rename
			}
			if dst == src {
				why = "source and destination of the final rename are the same path"
				continue
			}
			// every path to this rename passes a successful Put of the same path
			good := false
			for _, pt := range puts {
				if pt.Common().Args[0] == src && (nilEdgeDominates(pt, rn.Block()) || putSucceededOnAllPaths(fn, puts, rn)) {
					good = true
				}
			}
			if good {
				ok = true
			} else {
				why = "the rename over the ring can run although Put of the new state failed"
			}
		}
		r.Check(ok, "R08.1", fnName(fn), "new ring state is put before it replaces the ring", p.Pos(fn.Pos()), "Rename(new, cur) only after Put(new) succeeded", why)
	}
	// DirectoryBackend.Put
	if fn := p.Func("keystore/v2/keystore/filesystem/backend.(*DirectoryBackend).Put"); fn == nil || fn.Blocks == nil {
		r.Anchor("R08.1", "DirectoryBackend.Put")
	} else {
		w, s, c := invokeNamed(fn, "Write"), invokeNamed(fn, "Sync"), invokeNamed(fn, "Close")
		ok := len(w) == 1 && len(s) == 1 && len(c) >= 1
		if ok {
			var closeMain *ssa.Call
			for _, cc := range c {
				if nilEdgeDominates(s[0], cc.Block()) {
					closeMain = cc
				}
			}
			ok = closeMain != nil && nilEdgeDominates(w[0], s[0].Block())
			if ok {
				for _, ret := range returnsOf(fn) {
					if !isRecoverBlock(ret.Block()) && isNilConst(retValue(ret, 0)) && !nilEdgeDominates(closeMain, ret.Block()) {
						ok = false
					}
				}
			}
		}
		r.Check(ok, "R08.1", fnName(fn), "success only after Write, Sync and Close", p.Pos(fn.Pos()), "write -> sync -> close -> nil", "Put can report success before the data was written, synced and the file closed: a rename that follows may publish a torn file")
		// exclusive creation
		excl := false
		for _, cs := range callsIn(fn) {
			if cs.Callee != nil && cs.Callee.Name() == "OpenFile" {
				if c, isC := intConst(cs.Instr.Common().Args[1]); isC && c&0x80 != 0 { // os.O_EXCL on linux
					excl = true
				}
			}
		}
		r.Check(excl, "R08.1", fnName(fn), "creates the file exclusively", p.Pos(fn.Pos()), "O_CREATE|O_EXCL", "Put may silently overwrite an existing file")
	}
}

// putSucceededOnAllPaths: the rename is reached only through blocks dominated by the success edge of some Put of
// its source path (the first Put, or the retry after the stale file was moved aside), joined by a final error test.
func putSucceededOnAllPaths(fn *ssa.Function, puts []*ssa.Call, rn *ssa.Call) bool {
	// the block of the rename must be dominated by the nil edge of a test on a phi/variable merging the Put results
	for _, i := range allIfs(fn) {
		bo, ok := i.Cond.(*ssa.BinOp)
		if !ok {
			continue
		}
		var merged ssa.Value
		if isNilConst(bo.Y) {
			merged = bo.X
		} else if isNilConst(bo.X) {
			merged = bo.Y
		}
		phi, isPhi := merged.(*ssa.Phi)
		if !isPhi {
			continue
		}
		nilS := i.Block().Succs[1]
		if bo.Op.String() == "==" {
			nilS = i.Block().Succs[0]
		}
		nonNilS := i.Block().Succs[0]
		if nonNilS == nilS {
			nonNilS = i.Block().Succs[1]
		}
		if !edgeOnly(i, nilS, nonNilS, rn.Block()) {
			continue
		}
		// every edge of the phi is the result of a Put or of a call whose failure is an error (the aside-rename)
		all := true
		for _, e := range phi.Edges {
			c, isC := e.(*ssa.Call)
			if !isC {
				all = false
				continue
			}
			isPut := false
			for _, pt := range puts {
				if pt == c {
					isPut = true
				}
			}
			if !isPut && !(c.Common().IsInvoke() && c.Common().Method.Name() == "Rename") {
				all = false
			}
		}
		if all {
			return true
		}
	}
	return false
}

func ruleR082(p *Program, r *Report) {
	n := 0
	// a helper that itself pushes/syncs/pops counts as the 'sync' of its caller
	syncLike := map[*ssa.Function]bool{}
	for _, fn := range p.SrcFuncs("keystore/v2/keystore/filesystem") {
		if len(callsNamed(fn, "syncKeyRing")) > 0 && fn.Name() != "syncKeyRing" {
			syncLike[fn] = true
		}
	}
	for _, fn := range p.SrcFuncs("keystore/v2/keystore/filesystem") {
		push := callsNamed(fn, "pushTX")
		if len(push) == 0 {
			continue
		}
		syncs := callsNamed(fn, "syncKeyRing")
		for _, cs := range callsIn(fn) {
			if c, ok := cs.Instr.(*ssa.Call); ok {
				if sc := c.Common().StaticCallee(); sc != nil && syncLike[sc] && sc != fn {
					syncs = append(syncs, c)
				}
			}
		}
		if len(syncs) != 1 {
			if len(syncs) > 1 {
				r.Bad("R08.2", fnName(fn), "rollback pairing", p.Pos(fn.Pos()), "more than one write of the ring after pushTX")
			}
			continue
		}
		n++
		sy := syncs[0]
		pops := callsNamed(fn, "popTX")
		onFail, onOK := 0, 0
		for _, pc := range pops {
			if nilEdgeDominates(sy, pc.Block()) {
				onOK++
			} else if onErrorEdgeOf(sy, pc) {
				onFail++
			} else {
				onOK++ // not tied to the failure edge
			}
		}
		pushed := 0
		for _, pc := range push {
			if pc.Block() == sy.Block() && instrBefore(pc, sy) || pc.Block().Dominates(sy.Block()) {
				pushed++
			}
		}
		r.Check(onFail == pushed && onOK == 0 && pushed == len(push), "R08.2", fnName(fn), "pushTX/popTX pairing around syncKeyRing", p.Pos(sy.Pos()), itoa(pushed)+" pushed, "+itoa(onFail)+" popped on failure, none on success", "the transaction log is not restored when the write fails ("+itoa(pushed)+" pushed, "+itoa(onFail)+" popped on the failure edge, "+itoa(onOK)+" elsewhere): a failed update is applied again, or a successful one undone, by the next write")
	}
	_ = n
	if fn := p.Func("keystore/v2/keystore/filesystem.(*KeyStore).writeKeyRing"); fn == nil || fn.Blocks == nil {
		r.Anchor("R08.2", "writeKeyRing")
	} else {
		push, commit, apply, pull := callsNamed(fn, "pushNewRingState"), callsNamed(fn, "commitTX"), callsNamed(fn, "applyPendingTX"), callsNamed(fn, "pullRingUpdates")
		ok := len(push) == 1 && len(commit) == 1 && len(apply) == 1 && len(pull) == 1 &&
			nilEdgeDominates(pull[0], apply[0].Block()) && nilEdgeDominates(apply[0], push[0].Block()) && nilEdgeDominates(push[0], commit[0].Block())
		r.Check(ok, "R08.2", fnName(fn), "pull -> apply -> push -> commit", p.Pos(fn.Pos()), "each on the success edge of the previous", "the pending transactions are committed (forgotten) although the new ring state was not stored, or applied to a state that was not re-read under the lock")
	}
}

var r083Confirmed = map[string]string{
	"(*keystore/filesystem.KeyStore).GetHistoricalPrivateKeyFilenames|cacheHistoricalPrivateKeyFilenames":     "the cache is an optimisation: the list just read from storage is returned; the failure is logged",
	"(*keystore/filesystem.KeyStore).GetHistoricalPrivateKeyFilenames|getCachedHistoricalPrivateKeyFilenames": "a damaged cache entry is logged and the list is read from storage instead",
	"(*keystore/filesystem.redisStorage).TempFile|Err":                                                         "bounded retry loop: a taken name is tried again under another random suffix; the loop ends in errNoLuck",
	"(*keystore/v2/keystore/filesystem/backend.DirectoryBackend).Close|Close":                                  "closing the lock file is best effort (documented in place); nothing is written by it",
	"(*keystore/v2/keystore/filesystem/backend.RedisBackend).Close|Close":                                      "same: closing the client connection is best effort",
}

func ruleR083(p *Program, r *Report) {
	for _, pk := range []string{"keystore/filesystem", "keystore/filesystem/internal", "keystore/v2/keystore/filesystem", "keystore/v2/keystore/filesystem/backend", "keystore/v2/keystore", "cmd/acra-rotate"} {
		for _, fn := range p.SrcFuncs(pk) {
			// cleanup closures and functions that cannot report an error are an accepted idiom
			hasErr := false
			res := fn.Signature.Results()
			for i := 0; i < res.Len(); i++ {
				if isErrorType(res.At(i).Type()) {
					hasErr = true
				}
			}
			if !hasErr {
				continue
			}
			swallowedErrorsT(p, r, "R08.3", fn, r083Confirmed)
		}
	}
}

// swallowedErrorsT is swallowedErrors with the tolerance idioms and a confirmed table.
func swallowedErrorsT(p *Program, r *Report, rule string, fn *ssa.Function, confirmed map[string]string) {
	seen := map[string]int{}
	for _, cs := range callsIn(fn) {
		c, ok := cs.Instr.(*ssa.Call)
		if !ok {
			continue
		}
		sig := c.Common().Signature()
		n := sig.Results().Len()
		if n == 0 || !isErrorType(sig.Results().At(n-1).Type()) {
			continue
		}
		var errv ssa.Value = c
		if n > 1 {
			ex := extractOf(c, n-1)
			if ex == nil {
				continue
			}
			errv = ex
		}
		callName := "call"
		if co := calleeOfCommon(c.Common()); co != nil {
			callName = co.Name()
		}
		// idiom: os.IsNotExist(err) / os.IsExist(err) tolerance on this very error
		tolerant := false
		if refs := errv.Referrers(); refs != nil {
			for _, rf := range *refs {
				if tc, ok := rf.(*ssa.Call); ok {
					if co := calleeOfCommon(tc.Common()); co != nil && co.Pkg() != nil && co.Pkg().Path() == "os" && (co.Name() == "IsNotExist" || co.Name() == "IsExist") {
						tolerant = true
					}
				}
			}
		}
		for _, i := range allIfs(fn) {
			nilS, nonNil, ok := nilBranches(i, errv)
			if !ok {
				continue
			}
			construct := "error of " + callName + " is not swallowed"
			seen[construct]++
			if seen[construct] > 1 {
				construct += " #" + itoa(seen[construct])
			}
			joins := nonNil != nilS && reaches(nonNil, nilS, nil) && !reaches(nilS, nonNil, nil) && reachesSuccessReturn(fn, nonNil, errv)
			switch {
			case !joins:
				r.OK(rule, fnName(fn), construct, p.Pos(c.Pos()), "err != nil edge ends in an error return")
			case tolerant:
				r.OK(rule, fnName(fn), construct, p.Pos(c.Pos()), "tolerates os.IsNotExist/IsExist on this error (enumerated idiom)")
			case confirmed[fnName(fn)+"|"+callName] != "":
				r.Confirmed(rule, fnName(fn), construct, p.Pos(c.Pos()), confirmed[fnName(fn)+"|"+callName])
			default:
				r.Bad(rule, fnName(fn), construct, p.Pos(c.Pos()), "the err != nil edge of "+callName+" only logs and falls through to a success return: a failed storage operation is reported as done")
			}
		}
	}
}

func ruleR084(p *Program, r *Report) {
	// (a) v1 removes its temporary file on every exit that did not rename it
	if fn := p.Func("keystore/filesystem.(*KeyStore).WriteKeyFile"); fn == nil || fn.Blocks == nil {
		r.Anchor("R08.4", "WriteKeyFile")
	} else {
		tf, rn := invokeNamed(fn, "TempFile"), invokeNamed(fn, "Rename")
		ok, why := false, "no deferred cleanup of the temporary file is registered right after it was created"
		if len(tf) == 1 && len(rn) == 1 {
			tmpCell := ssa.Value(nil)
			if ex := extractOf(tf[0], 0); ex != nil {
				if refs := ex.Referrers(); refs != nil {
					for _, rf := range *refs {
						if st, isSt := rf.(*ssa.Store); isSt {
							tmpCell = st.Addr
						}
					}
				}
			}
			for _, cs := range callsIn(fn) {
				df, isD := cs.Instr.(*ssa.Defer)
				if !isD {
					continue
				}
				mc, isMc := df.Call.Value.(*ssa.MakeClosure)
				if !isMc || !nilEdgeDominates(tf[0], df.Block()) {
					continue
				}
				// registered before anything else can fail: no call with an error result between TempFile's test and the defer
				cl := mc.Fn.(*ssa.Function)
				for _, rm := range invokeNamed(cl, "Remove") {
					if cellOf(rm.Common().Args[0]) != tmpCell || tmpCell == nil {
						why = "the deferred cleanup removes something other than the temporary file"
						continue
					}
					// guard: the flag that suppresses the removal is set only after the rename succeeded
					guardOK := true
					for _, i := range allIfs(cl) {
						if !(i.Block().Succs[0].Dominates(rm.Block()) || i.Block().Succs[1].Dominates(rm.Block())) {
							continue
						}
						flag := cellOf(i.Cond)
						if flag == nil {
							guardOK = false
							continue
						}
						if al, isAl := flag.(*ssa.Alloc); isAl {
							for _, st := range storesInto(al) {
								if c, isC := st.Val.(*ssa.Const); isC && c.Value != nil && c.Value.String() == "true" {
									if !nilEdgeDominates(rn[0], st.Block()) {
										guardOK = false
									}
								}
							}
						}
					}
					if guardOK {
						ok = true
					} else {
						why = "the cleanup can be switched off before the rename succeeded"
					}
				}
			}
			// nothing fallible between the creation test and the defer
			if ok {
				for _, cs := range callsIn(fn) {
					cc, isC := cs.Instr.(*ssa.Call)
					if !isC || cc == tf[0] {
						continue
					}
					sig := cc.Common().Signature()
					if sig.Results().Len() == 0 || !isErrorType(sig.Results().At(sig.Results().Len()-1).Type()) {
						continue
					}
					if nilEdgeDominates(tf[0], cc.Block()) {
						// must come after the defer
						var dfi ssa.Instruction
						for _, c2 := range callsIn(fn) {
							if d, isD := c2.Instr.(*ssa.Defer); isD {
								if _, isMc := d.Call.Value.(*ssa.MakeClosure); isMc {
									dfi = d
								}
							}
						}
						if dfi != nil && !(dfi.Block() == cc.Block() && instrBefore(dfi, cc)) && !dfi.Block().Dominates(cc.Block()) {
							ok, why = false, "a fallible step runs between creating the temporary file and registering its cleanup"
						}
					}
				}
			}
		}
		r.Check(ok, "R08.4", fnName(fn), "temporary file removed unless renamed", p.Pos(fn.Pos()), "deferred Remove(tmp), disabled only after Rename succeeded", why+": a failed write leaves '<name><random>' in the key directory")
	}
	// (b) v1 listing skips unrecognised names
	if fn := p.Func("keystore/filesystem.(*KeyStore).describeDir"); fn == nil || fn.Blocks == nil {
		r.Anchor("R08.4", "describeDir")
	} else {
		errUn := p.Lookup("keystore/filesystem.ErrUnrecognizedKeyPurpose")
		ok := false
		for _, dk := range callsNamed(fn, "DescribeKeyFile") {
			errV := extractOf(dk, 1)
			for _, i := range allIfs(fn) {
				bo, isBo := i.Cond.(*ssa.BinOp)
				if !isBo || bo.Op.String() != "==" {
					continue
				}
				if !((bo.X == ssa.Value(errV) && loadsGlobal(bo.Y, errUn)) || (bo.Y == ssa.Value(errV) && loadsGlobal(bo.X, errUn))) {
					continue
				}
				// that edge returns nothing: it continues the loop
				skip := i.Block().Succs[0]
				returns := false
				for _, ret := range returnsOf(fn) {
					if skip.Dominates(ret.Block()) {
						returns = true
					}
				}
				if !returns {
					ok = true
				}
			}
		}
		r.Check(ok, "R08.4", fnName(fn), "a file that is not a key is skipped", p.Pos(fn.Pos()), "ErrUnrecognizedKeyPurpose -> continue", "one unrecognised file (e.g. the temporary file of an interrupted write) makes key listing and cache warm-up fail")
	}
	// (c) v2 supersedes a stale .new
	if fn := p.Func("keystore/v2/keystore/filesystem.(*KeyStore).pushASNring"); fn == nil || fn.Blocks == nil {
		r.Anchor("R08.4", "pushASNring")
	} else {
		errExist := p.Lookup("keystore/v2/keystore/filesystem/backend/api.ErrExist")
		puts := invokeNamed(fn, "Put")
		ok := false
		if len(puts) >= 2 {
			for _, i := range allIfs(fn) {
				bo, isBo := i.Cond.(*ssa.BinOp)
				if !isBo || bo.Op.String() != "==" || !(bo.X == ssa.Value(puts[0]) && loadsGlobal(bo.Y, errExist) || bo.Y == ssa.Value(puts[0]) && loadsGlobal(bo.X, errExist)) {
					continue
				}
				edge := i.Block().Succs[0]
				moved, again := false, false
				for _, rn := range invokeNamed(fn, "Rename") {
					if edge.Dominates(rn.Block()) && rn.Common().Args[0] == puts[0].Common().Args[0] && rn.Common().Args[1] != rn.Common().Args[0] {
						moved = true
						for _, pt := range puts[1:] {
							if pt.Common().Args[0] == puts[0].Common().Args[0] && nilEdgeDominates(rn, pt.Block()) {
								again = true
							}
						}
					}
				}
				ok = moved && again
			}
		}
		r.Check(ok, "R08.4", fnName(fn), "a stale '.keyring.new' is superseded", p.Pos(fn.Pos()), "Put -> ErrExist -> Rename aside -> Put", "a '<ring>.keyring.new' left by an interrupted update makes every later update of that ring fail with 'key path already exists'")
	}
	// (d) v2 listing only .keyring entries
	if fn := p.Func("keystore/v2/keystore/filesystem.(*KeyStore).ListKeyRings"); fn == nil || fn.Blocks == nil {
		r.Anchor("R08.4", "ListKeyRings")
	} else {
		ok := false
		for _, hs := range callsNamed(fn, "HasSuffix") {
			if s, isS := constStr(hs.Common().Args[1]); !isS || s != ".keyring" {
				continue
			}
			for _, i := range ifsOn(hs) {
				yes := i.Block().Succs[0]
				// every append of a listed name happens on the true edge
				all, n := true, 0
				for _, b := range fn.Blocks {
					for _, in := range b.Instrs {
						if c, isC := in.(*ssa.Call); isC {
							if bi, isB := c.Call.Value.(*ssa.Builtin); isB && bi.Name() == "append" {
								n++
								if !yes.Dominates(b) {
									all = false
								}
							}
						}
					}
				}
				ok = all && n > 0
			}
		}
		r.Check(ok, "R08.4", fnName(fn), "only '<ring>.keyring' entries are listed", p.Pos(fn.Pos()), "HasSuffix(name, \".keyring\") guards every listed name", "temporary files of the back end are offered as key rings")
	}
	_ = strings.HasPrefix
	_ = types.Typ
}

func init() {
	mut("C08", "v1 writes the data straight into the target", "keystore/filesystem/server_keystore.go", "	err = store.fs.WriteFile(tmpFilename, data, mode)\n	if err != nil {\n		return err\n	}\n	err = store.backupHistoricalKeyFile(filename)", "	err = store.fs.WriteFile(filename, data, mode)\n	if err != nil {\n		return err\n	}\n	err = store.backupHistoricalKeyFile(filename)", "R08.1", "temp -> write")
	mut("C08", "v1 renames before the old version was preserved", "keystore/filesystem/server_keystore.go", "	err = store.backupHistoricalKeyFile(filename)\n	if err != nil {\n		return err\n	}\n	err = store.fs.Rename(tmpFilename, filename)\n	if err != nil {\n		return err\n	}\n	renamed = true", "	err = store.fs.Rename(tmpFilename, filename)\n	if err != nil {\n		return err\n	}\n	renamed = true\n	err = store.backupHistoricalKeyFile(filename)\n	if err != nil {\n		return err\n	}", "R08.1", "temp -> write")
	mut("C08", "v1 moves the current file into the history when linking fails", "keystore/filesystem/server_keystore.go", "	return store.fs.Copy(filename, backupName)", "	return store.fs.Rename(filename, backupName)", "R08.1", "preserved by link or copy")
	mut("C08", "destroyKey pops one of its two transactions", "keystore/v2/keystore/filesystem/keyRing.go", "		r.popTX()\n		r.popTX()", "		r.popTX()", "R08.2", "destroyKey")
	mut("C08", "v2 renames although Put failed", "keystore/v2/keystore/filesystem/keyStoreLoad.go", "	if err != nil {\n		return err\n	}\n	err = s.fs.Rename(newPath, curPath)", "	if err != nil {\n		s.log.WithError(err).Debug(\"put failed\")\n	}\n	err = s.fs.Rename(newPath, curPath)", "R08.1", "put before")
	mut("C08", "Put reports success without Sync", "keystore/v2/keystore/filesystem/backend/filesystem.go", "	err = file.Sync()\n	if err != nil {\n		log.WithError(err).Debug(\"failed to sync key data\")\n		return err\n	}\n	err = file.Close()", "	err = file.Close()", "R08.1", "Write, Sync and Close")
	mut("C08", "addKey keeps the transaction after a failed write", "keystore/v2/keystore/filesystem/keyRing.go", "	r.pushTX(&txAddKey{newKey})\n	err := r.store.syncKeyRing(r)\n	if err != nil {\n		r.popTX()\n	}\n	return err", "	r.pushTX(&txAddKey{newKey})\n	err := r.store.syncKeyRing(r)\n	return err", "R08.2", "addKey")
	mut("C08", "writeKeyRing commits before pushing", "keystore/v2/keystore/filesystem/keyStoreLoad.go", "	err = s.pushNewRingState(ring)\n	if err != nil {\n		return err\n	}\n\n	ring.commitTX()\n	return nil", "	ring.commitTX()\n	err = s.pushNewRingState(ring)\n	if err != nil {\n		return err\n	}\n	return nil", "R08.2", "commit")
	mut("C08", "acra-rotate swallows the key save error (original defect)", "cmd/acra-rotate/fileRotation.go", "			log.WithError(err).Errorln(\"Can't save rotated keys\")\n			return nil, err\n		}", "			log.WithError(err).Errorln(\"Can't save rotated keys\")\n		}", "R08.3", "saveRotatedKeys")
	mut("C08", "v1 history backup failure only logged", "keystore/filesystem/server_keystore.go", "	err = store.backupHistoricalKeyFile(filename)\n	if err != nil {\n		return err\n	}\n	err = store.fs.Rename(tmpFilename, filename)", "	err = store.backupHistoricalKeyFile(filename)\n	if err != nil {\n		log.WithError(err).Warn(\"no backup\")\n	}\n	err = store.fs.Rename(tmpFilename, filename)", "R08.3", "backupHistoricalKeyFile")
	mut("C08", "v1 leaves the temporary file behind (original defect)", "keystore/filesystem/server_keystore.go", "			if err := store.fs.Remove(tmpFilename); err != nil {\n				log.WithError(err).WithField(\"path\", tmpFilename).Warn(\"Failed to remove temporary key file\")\n			}", "			log.WithField(\"path\", tmpFilename).Warn(\"temporary key file left behind\")", "R08.4", "temporary file removed")
	mut("C08", "v1 cleanup disabled before the rename", "keystore/filesystem/server_keystore.go", "	err = store.fs.Rename(tmpFilename, filename)\n	if err != nil {\n		return err\n	}\n	renamed = true", "	renamed = true\n	err = store.fs.Rename(tmpFilename, filename)\n	if err != nil {\n		return err\n	}", "R08.4", "temporary file removed")
	mut("C08", "v1 listing fails on an unknown file again (original defect)", "keystore/filesystem/server_keystore.go", "		if err == ErrUnrecognizedKeyPurpose {\n			// not a key file, e.g. a temporary file left behind by an interrupted key write\n			log.WithField(\"file\", fileInfo.Name()).Warn(\"Ignoring file that is not a key\")\n			continue\n		}\n", "", "R08.4", "not a key")
	mut("C08", "v2 fails on a stale new file again (original defect)", "keystore/v2/keystore/filesystem/keyStoreLoad.go", "	if err == backend.ErrExist {", "	if false {", "R08.4", "superseded")
	mut("C08", "v2 lists every back-end entry (original defect)", "keystore/v2/keystore/filesystem/keyStore.go", "		if strings.HasSuffix(rings[i], keyringSuffix) {\n			keyRings = append(keyRings, strings.TrimSuffix(rings[i], keyringSuffix))\n		}", "		keyRings = append(keyRings, strings.TrimSuffix(rings[i], keyringSuffix))", "R08.4", "entries are listed")
}
