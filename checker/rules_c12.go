package main

import (
	"go/ast"
	"go/constant"
	"go/types"
	"sort"
	"strings"

	"golang.org/x/tools/go/ssa"
)

func init() {
	register(&Property{ID: "C12", Patterns: []string{"./..."}, Run: runC12})
}

func runC12(p *Program, r *Report) {
	r.Rule("R12.1", "E4", 20, "who may write the relayed bytes: the fields that hold a message as it was read (PostgreSQL PacketHandler.messageType/descriptionLengthBuf/descriptionBuf, MySQL Packet.header/data) are written only by the reader functions and by the enumerated rewrite API; any other function that stores to them, or calls a mutating method on them, is a violation")
	ruleR121(p, r)
	r.Rule("R12.2", "E2", 8, "declared length follows content: every function of the rewrite API that replaces a payload sets the declared length, in the same function and after the write, from the length of exactly what it wrote (len of the written value, the count its serializer returned, or the per-column lengths it just emitted); the two description handlers only assign fixed-width type ids and leave the length alone")
	ruleR122(p, r)
	r.Rule("R12.3", "E4", 6, "codec tables agree: the MySQL length-encoded integer writer uses the prefixes, thresholds and byte counts the reader accepts (<=250 one byte, 0xfc+2, 0xfd+3, 0xfe+8, 0xfb NULL only from the string writer)")
	ruleR123(p, r)
	r.Rule("R12.4", "E3", 5, "NULL stays NULL and untouched: the row decoders copy a NULL marker through without calling the column subscribers (MySQL text: the nil value edge re-emits the original bytes; MySQL binary: a set bitmap bit skips the column; PostgreSQL: IsNull columns are skipped before SetData), and the PostgreSQL re-serializer emits each column's own length buffer")
	ruleR124(p, r)
	r.Rule("R12.6", "E3", 2, "nil means NULL, empty means empty: the bound-value copy constructors of both dialects decide whether to allocate the copy by a nil test of the input, so a zero-length non-NULL parameter stays non-nil (the serializers write nil as NULL and an empty slice as a zero-length value)")
	ruleR126(p, r)
	r.Rule("R12.5", "E2", 2, "what is sent is what was read: PacketHandler.Marshal emits the message type, the stored length buffer and the stored payload in that order and nothing else; Packet.Dump emits header then data")
	ruleR125(p, r)
}

// fieldWrites lists, per function, the ways it writes the given field of the given struct type.
func fieldWriters(p *Program, typeSpec string, fields map[string]bool, mutating map[string]bool) map[string]map[string]string {
	out := map[string]map[string]string{} // field -> function -> how
	tn := p.Type(typeSpec)
	if tn == nil {
		return nil
	}
	for _, fn := range p.srcFns {
		for _, b := range fn.Blocks {
			for _, in := range b.Instrs {
				fa, ok := in.(*ssa.FieldAddr)
				if !ok {
					continue
				}
				pt, ok := fa.X.Type().Underlying().(*types.Pointer)
				if !ok || !types.Identical(pt.Elem(), tn.Type()) {
					continue
				}
				name := pt.Elem().Underlying().(*types.Struct).Field(fa.Field).Name()
				if !fields[name] {
					continue
				}
				note := func(how string) {
					if out[name] == nil {
						out[name] = map[string]string{}
					}
					out[name][fnName(fn)] = how
				}
				var visit func(addr ssa.Value, depth int)
				visit = func(addr ssa.Value, depth int) {
					refs := addr.Referrers()
					if refs == nil || depth > 4 {
						return
					}
					for _, rf := range *refs {
						switch x := rf.(type) {
						case *ssa.Store:
							if x.Addr == addr {
								note("assigns")
							}
						case *ssa.UnOp: // load: follow the loaded value for mutating uses (slices, buffers)
							visit(x, depth+1)
						case *ssa.Slice:
							visit(x, depth+1)
						case *ssa.IndexAddr:
							if x.X == addr {
								visit(x, depth+1)
							}
						case *ssa.Call:
							cm := x.Common()
							if co := calleeOfCommon(cm); co != nil {
								// method on the value (bytes.Buffer) or a function that fills the slice
								recvIs := len(cm.Args) > 0 && cm.Args[0] == addr && !cm.IsInvoke()
								if recvIs && mutating[co.Name()] {
									note("calls " + co.Name())
								}
								if !recvIs {
									for k, a := range cm.Args {
										if a == addr && mutating["arg:"+co.Name()] && (k == 0 || co.Name() == "ReadFull" || co.Name() == "PutUint32") {
											note("fills via " + co.Name())
										}
									}
								}
							}
							if bi, ok := cm.Value.(*ssa.Builtin); ok && bi.Name() == "copy" && cm.Args[0] == addr {
								note("copies into")
							}
						}
					}
				}
				visit(fa, 0)
			}
		}
	}
	return out
}

var r121Allowed = map[string]map[string]string{
	"decryptor/postgresql.PacketHandler": {
		"newPacketHandlerWithLogger": "constructor",
		"readMessageType":            "reader: one byte from the connection",
		"readDataLength":             "reader: the four length bytes",
		"setDataLengthBuffer":        "reader helper: copies the length bytes it was given",
		"readData":                   "reader: copies the payload from the connection",
		"readStartupPacket":          "reader: startup message (no type byte)",
		"readGeneralPacket":          "reader: general message",
		"ReadPacket":                 "reader entry point (database side)",
		"ReadClientPacket":           "reader entry point (client side)",
		"Reset":                      "clears the handler before the next message",
		"updatePacketLength":         "rewrite API: declared length",
		"updateDataFromColumns":      "rewrite API: DataRow re-serialization when a column changed",
		"SetParsePacket":             "rewrite API: Parse message",
		"ReplaceQuery":               "rewrite API: Query / Parse text",
		"ReplaceBind":                "rewrite API: Bind message",
		"handleRowDescription":       "rewrite API: assigns type ids in a RowDescription (same length)",
		"handleParameterDescription": "rewrite API: assigns type ids in a ParameterDescription (same length)",
	},
	"decryptor/mysql.Packet": {
		"NewPacket":        "constructor",
		"readPacket":       "reader: header and payload from the connection",
		"ReadPacket":       "reader entry point",
		"SetData":          "rewrite API: payload and size",
		"updatePacketSize": "rewrite API: declared size",
		"replaceQuery":     "rewrite API: COM_QUERY text",
		"SetParameters":    "rewrite API: COM_STMT_EXECUTE parameters",
	},
}

func ruleR121(p *Program, r *Report) {
	mut := map[string]bool{"Reset": true, "Write": true, "WriteByte": true, "WriteString": true, "Truncate": true, "Grow": true, "ReadFrom": true,
		"arg:ReadFull": true, "arg:PutUint32": true, "arg:CopyN": true, "arg:Read": true}
	for _, t := range []struct {
		spec   string
		fields map[string]bool
	}{
		{"decryptor/postgresql.PacketHandler", map[string]bool{"messageType": true, "descriptionLengthBuf": true, "descriptionBuf": true}},
		{"decryptor/mysql.Packet", map[string]bool{"header": true, "data": true}},
	} {
		ws := fieldWriters(p, t.spec, t.fields, mut)
		if ws == nil {
			r.Anchor("R12.1", t.spec)
			continue
		}
		var fields []string
		for f := range ws {
			fields = append(fields, f)
		}
		sort.Strings(fields)
		for _, f := range fields {
			var fns []string
			for fn := range ws[f] {
				fns = append(fns, fn)
			}
			sort.Strings(fns)
			for _, fn := range fns {
				short := fn[strings.LastIndex(fn, ".")+1:]
				short = strings.TrimSuffix(short, "$1")
				reason, ok := r121Allowed[t.spec][short]
				r.Check(ok, "R12.1", fn, "writes "+t.spec[strings.LastIndex(t.spec, ".")+1:]+"."+f+" ("+ws[f][fn]+")", "-", reason, "this function is not one of the readers or of the enumerated rewrite API, yet it "+ws[f][fn]+" the relayed "+f+": a message the proxy has no reason to change may no longer be relayed byte for byte")
			}
		}
	}
}

func ruleR122(p *Program, r *Report) {
	upd := p.FuncObj("decryptor/postgresql.(*PacketHandler).updatePacketLength")
	if upd == nil {
		r.Anchor("R12.2", "updatePacketLength")
		return
	}
	get := func(spec string) *ssa.Function {
		fn := p.Func(spec)
		if fn == nil || fn.Blocks == nil {
			r.Anchor("R12.2", spec)
			return nil
		}
		return fn
	}
	// SetParsePacket: Write(x); updatePacketLength(len(x))
	if fn := get("decryptor/postgresql.(*PacketHandler).SetParsePacket"); fn != nil {
		ws, us := callsNamed(fn, "Write"), callsTo(fn, upd)
		ok := len(ws) == 1 && len(us) == 1
		if ok {
			x := ws[0].Common().Args[len(ws[0].Common().Args)-1]
			a := us[0].Instr.Common().Args[1]
			op, isLen := isLenCall(a)
			ok = isLen && op == x && instrBefore(ws[0], us[0].Instr)
		}
		r.Check(ok, "R12.2", fnName(fn), "length = len(written Parse message)", p.Pos(fn.Pos()), "Write(x); updatePacketLength(len(x))", "the declared length is not the length of the bytes that were written")
	}
	// ReplaceQuery
	if fn := get("decryptor/postgresql.(*PacketHandler).ReplaceQuery"); fn != nil {
		q := paramByName(fn, "newQuery")
		okSimple, okParse := false, false
		for _, u := range callsTo(fn, upd) {
			a := u.Instr.Common().Args[1]
			// simple: len(newQuery)+1 with Write([]byte(newQuery)) and exactly one WriteByte before it in the same block
			if bo, isBo := a.(*ssa.BinOp); isBo && bo.Op.String() == "+" {
				op, isLen := isLenCall(bo.X)
				c, isC := intConst(bo.Y)
				if isLen && op == ssa.Value(q) && isC {
					wb, wr := 0, 0
					for _, in := range u.Block.Instrs {
						if c2, isCall := in.(*ssa.Call); isCall && instrBefore(c2, u.Instr) {
							if co := calleeOfCommon(c2.Common()); co != nil {
								if co.Name() == "WriteByte" {
									wb++
								}
								if co.Name() == "Write" && stripConv(c2.Common().Args[1]) == ssa.Value(q) {
									wr++
								}
							}
						}
					}
					okSimple = wr == 1 && int64(wb) == c
				}
			}
			// parse: updatePacketLength(parse.Length()) with Write(parse.Marshal()) of the same parse
			if lc, isC := a.(*ssa.Call); isC {
				if co := calleeOfCommon(lc.Common()); co != nil && co.Name() == "Length" {
					for _, w := range callsNamed(fn, "Write") {
						if mc, isM := w.Common().Args[len(w.Common().Args)-1].(*ssa.Call); isM {
							if mo := calleeOfCommon(mc.Common()); mo != nil && mo.Name() == "Marshal" && mc.Common().Args[0] == lc.Common().Args[0] && w.Block() == u.Block && instrBefore(w, u.Instr) {
								okParse = true
							}
						}
					}
				}
			}
		}
		r.Check(okSimple, "R12.2", fnName(fn), "Query: length = len(text) + terminators written", p.Pos(fn.Pos()), "Write(query); WriteByte(0); updatePacketLength(len(query)+1)", "the declared length of a rewritten Query message does not count exactly the text and the terminator that were written")
		r.Check(okParse, "R12.2", fnName(fn), "Parse: length = Length() of the message whose Marshal() was written", p.Pos(fn.Pos()), "Write(parse.Marshal()); updatePacketLength(parse.Length())", "the declared length of a rewritten Parse message is not taken from the message that was written")
	}
	// ParsePacket.Length agrees with Marshal: both enumerate the same fields
	if lf, mf := get("decryptor/postgresql.(*ParsePacket).Length"), get("decryptor/postgresql.(*ParsePacket).Marshal"); lf != nil && mf != nil {
		fieldsOf := func(fn *ssa.Function) string {
			set := map[string]bool{}
			for _, b := range fn.Blocks {
				for _, in := range b.Instrs {
					if fa, ok := in.(*ssa.FieldAddr); ok {
						st := fa.X.Type().Underlying().(*types.Pointer).Elem().Underlying().(*types.Struct)
						set[st.Field(fa.Field).Name()] = true
					}
				}
			}
			var l []string
			for f := range set {
				l = append(l, f)
			}
			sort.Strings(l)
			return strings.Join(l, ",")
		}
		a, b := fieldsOf(lf), fieldsOf(mf)
		r.Check(a == b && a != "", "R12.2", fnName(lf), "Length() counts the fields Marshal() writes", p.Pos(lf.Pos()), a, "Length() reads ["+a+"] while Marshal() writes ["+b+"]: a rewritten Parse message declares a length that differs from its bytes")
	}
	// ReplaceBind: descriptionBuf = buffer; updatePacketLength(n) where n, _ = bind.MarshalInto(buffer)
	if fn := get("decryptor/postgresql.(*PacketHandler).ReplaceBind"); fn != nil {
		ms, us := callsNamed(fn, "MarshalInto"), callsTo(fn, upd)
		ok := len(ms) == 1 && len(us) == 1 && us[0].Instr.Common().Args[1] == ssa.Value(extractOf(ms[0], 0)) && nilEdgeDominates(ms[0], us[0].Block)
		if ok {
			stored := false
			for _, st := range storesToRecvField(fn, "descriptionBuf") {
				if st.Val == ms[0].Common().Args[len(ms[0].Common().Args)-1] {
					stored = true
				}
			}
			ok = stored
		}
		r.Check(ok, "R12.2", fnName(fn), "Bind: length = count returned by the serializer of the stored buffer", p.Pos(fn.Pos()), "n := MarshalInto(buf); descriptionBuf = buf; updatePacketLength(n)", "the declared length of a rewritten Bind message is not the number of bytes serialized into the buffer that becomes the payload")
	}
	// updateDataFromColumns: per column LengthBuf + data written; length from columnCount*4+2+sum(Length())
	if fn := get("decryptor/postgresql.(*PacketHandler).updateDataFromColumns"); fn != nil {
		us := callsTo(fn, upd)
		ok := len(us) == 1
		if ok {
			cl := backClosure(us[0].Instr.Common().Args[1])
			hasLen, hasCount, has4, has2 := false, false, false, false
			for v := range cl {
				if c, isC := v.(*ssa.Call); isC {
					if co := calleeOfCommon(c.Common()); co != nil && co.Name() == "Length" {
						hasLen = true
					}
				}
				if _, f, okF := fieldOfLoad(v); okF && f == "columnCount" {
					hasCount = true
				}
				if c, isC := intConst(v); isC {
					if c == 4 {
						has4 = true
					}
					if c == 2 {
						has2 = true
					}
				}
			}
			ok = hasLen && hasCount && has4 && has2
			// the per-column writes are LengthBuf then data
			wl, wd := false, false
			for _, w := range callsNamed(fn, "Write") {
				for v := range backClosure(w.Common().Args[len(w.Common().Args)-1]) {
					if fa, isFa := v.(*ssa.FieldAddr); isFa {
						st := fa.X.Type().Underlying().(*types.Pointer).Elem().Underlying().(*types.Struct)
						switch st.Field(fa.Field).Name() {
						case "LengthBuf":
							wl = true
						case "data":
							wd = true
						}
					}
				}
			}
			ok = ok && wl && wd
		}
		r.Check(ok, "R12.2", fnName(fn), "DataRow: length = 2 + 4*columns + sum of column lengths, columns written as own length + data", p.Pos(fn.Pos()), "shape confirmed", "the re-serialized DataRow does not declare the sum of what it writes")
	}
	// ColumnData.SetData: LengthBuf = len(new data)
	if fn := get("decryptor/postgresql.(*ColumnData).SetData"); fn != nil {
		ok := false
		for _, c := range callsNamed(fn, "PutUint32") {
			a := c.Common().Args[len(c.Common().Args)-1]
			for v := range backClosure(a) {
				if op, isLen := isLenCall(v); isLen {
					if _, f, okF := fieldOfLoad(op); okF && f == "data" {
						ok = true
					}
					if op == ssa.Value(paramByName(fn, "newData")) {
						ok = true
					}
				}
			}
		}
		r.Check(ok, "R12.2", fnName(fn), "column length buffer = len(new data)", p.Pos(fn.Pos()), "PutUint32(LengthBuf, len(data))", "a changed column keeps its old declared length")
	}
	// mysql
	updM := p.FuncObj("decryptor/mysql.(*Packet).updatePacketSize")
	if fn := get("decryptor/mysql.(*Packet).SetData"); fn != nil && updM != nil {
		us := callsTo(fn, updM)
		ok := len(us) == 1
		if ok {
			op, isLen := isLenCall(us[0].Instr.Common().Args[1])
			ok = isLen && op == ssa.Value(paramByName(fn, "newData"))
			for _, st := range storesToRecvField(fn, "data") {
				if st.Val != ssa.Value(paramByName(fn, "newData")) {
					ok = false
				}
			}
		}
		r.Check(ok, "R12.2", fnName(fn), "MySQL: size = len(new payload)", p.Pos(fn.Pos()), "data = x; updatePacketSize(len(x))", "the declared payload size is not the length of the payload that was set")
	}
	if fn := get("decryptor/mysql.(*Packet).replaceQuery"); fn != nil && updM != nil {
		us := callsTo(fn, updM)
		ok := len(us) == 1
		if ok {
			bo, isBo := us[0].Instr.Common().Args[1].(*ssa.BinOp)
			ok = isBo && bo.Op.String() == "+"
			if ok {
				op, isLen := isLenCall(bo.X)
				c, isC := intConst(bo.Y)
				ok = isLen && op == ssa.Value(paramByName(fn, "newQuery")) && isC && c == 1
			}
		}
		r.Check(ok, "R12.2", fnName(fn), "MySQL: size = command byte + len(new query)", p.Pos(fn.Pos()), "updatePacketSize(len(query)+1)", "the declared size of a rewritten COM_QUERY is not one command byte plus the new text")
	}
	// description handlers: only fixed-width ids are assigned in the decoded message
	for _, spec := range []struct{ fn, field string }{{"decryptor/postgresql.(*PgProxy).handleRowDescription", "DataTypeOID"}, {"decryptor/postgresql.(*PgProxy).handleParameterDescription", "ParameterOIDs"}} {
		fn := get(spec.fn)
		if fn == nil {
			continue
		}
		bad := ""
		n := 0
		for _, b := range fn.Blocks {
			for _, in := range b.Instrs {
				st, ok := in.(*ssa.Store)
				if !ok {
					continue
				}
				var fa *ssa.FieldAddr
				switch a := st.Addr.(type) {
				case *ssa.FieldAddr:
					fa = a
				case *ssa.IndexAddr:
					// element of a slice field
					if u, isU := a.X.(*ssa.UnOp); isU {
						fa, _ = u.X.(*ssa.FieldAddr)
					}
				}
				if fa == nil {
					continue
				}
				stt := fa.X.Type().Underlying().(*types.Pointer).Elem().Underlying().(*types.Struct)
				pkgOf := ""
				if named, isN := fa.X.Type().Underlying().(*types.Pointer).Elem().(*types.Named); isN && named.Obj().Pkg() != nil {
					pkgOf = named.Obj().Pkg().Path()
				}
				if !strings.Contains(pkgOf, "pgproto3") {
					continue
				}
				n++
				if stt.Field(fa.Field).Name() != spec.field {
					bad = "assigns " + stt.Field(fa.Field).Name()
				}
			}
		}
		r.Check(bad == "" && n > 0, "R12.2", fnName(fn), "only fixed-width type ids are assigned before re-encoding", p.Pos(fn.Pos()), "stores into the decoded message: "+spec.field+" only", bad+" in the decoded description: its encoded length can change while the declared length is left as read")
	}
}

func ruleR123(p *Program, r *Report) {
	pk := p.Pkg("decryptor/mysql/base")
	if pk == nil {
		r.Anchor("R12.3", "decryptor/mysql/base")
		return
	}
	var rd, wr *ast.FuncDecl
	for _, f := range pk.Syntax {
		for _, d := range f.Decls {
			if fd, ok := d.(*ast.FuncDecl); ok && fd.Recv == nil {
				switch fd.Name.Name {
				case "LengthEncodedInt":
					rd = fd
				case "PutLengthEncodedInt":
					wr = fd
				}
			}
		}
	}
	if rd == nil || wr == nil {
		r.Anchor("R12.3", "LengthEncodedInt / PutLengthEncodedInt")
		return
	}
	// reader: prefix -> total bytes n
	reader := map[int64]int64{}
	ast.Inspect(rd.Body, func(n ast.Node) bool {
		cc, ok := n.(*ast.CaseClause)
		if !ok || len(cc.List) != 1 {
			return true
		}
		v, ok := constOfExpr(pk.TypesInfo, cc.List[0])
		if !ok {
			return true
		}
		pre, _ := constant.Int64Val(v)
		for _, st := range cc.Body {
			if as, ok := st.(*ast.AssignStmt); ok && len(as.Lhs) == 1 {
				if id, ok := as.Lhs[0].(*ast.Ident); ok && id.Name == "n" {
					if nv, ok := constOfExpr(pk.TypesInfo, as.Rhs[0]); ok {
						reader[pre], _ = constant.Int64Val(nv)
					}
				}
			}
		}
		return true
	})
	// writer: threshold -> (prefix, bytes)
	type enc struct{ prefix, bytes, limit int64 }
	var writer []enc
	ast.Inspect(wr.Body, func(n ast.Node) bool {
		cc, ok := n.(*ast.CaseClause)
		if !ok || len(cc.List) != 1 {
			return true
		}
		be, ok := cc.List[0].(*ast.BinaryExpr)
		if !ok {
			return true
		}
		lim, ok := constOfExpr(pk.TypesInfo, be.Y)
		if !ok {
			return true
		}
		for _, st := range cc.Body {
			ret, ok := st.(*ast.ReturnStmt)
			if !ok || len(ret.Results) != 1 {
				continue
			}
			cl, ok := ret.Results[0].(*ast.CompositeLit)
			if !ok {
				continue
			}
			e := enc{prefix: -1, bytes: int64(len(cl.Elts))}
			if v, ok := constOfExpr(pk.TypesInfo, cl.Elts[0]); ok {
				e.prefix, _ = constant.Int64Val(v)
			}
			if lv, exact := constant.Uint64Val(lim); exact {
				e.limit = int64(lv & 0x7fffffffffffffff)
				if lv > 0x7fffffffffffffff {
					e.limit = 0x7fffffffffffffff
				}
			}
			writer = append(writer, e)
		}
		return true
	})
	r.Check(len(reader) >= 4 && len(writer) >= 4, "R12.3", "decryptor/mysql/base", "both codecs enumerate four encodings", p.Pos(rd.Pos()), "reader cases and writer cases found", "the length-encoded integer reader or writer no longer has the four encodings")
	want := []enc{{-1, 1, 250}, {0xfc, 3, 0xffff}, {0xfd, 4, 0xffffff}, {0xfe, 9, 0x7fffffffffffffff}}
	for k, w := range want {
		if k >= len(writer) {
			break
		}
		got := writer[k]
		ok := got.bytes == w.bytes && got.limit == w.limit && (w.prefix < 0 || got.prefix == w.prefix)
		if w.prefix >= 0 {
			ok = ok && reader[w.prefix] == w.bytes
		}
		name := "one byte up to 250"
		if w.prefix >= 0 {
			name = "prefix 0x" + strings.ToLower(strconvHex(w.prefix))
		}
		r.Check(ok, "R12.3", "decryptor/mysql/base.PutLengthEncodedInt", name, p.Pos(wr.Pos()), "writer threshold, prefix and byte count match the reader", "the writer's encoding for this range does not match what the reader accepts (thresholds 250 / 0xffff / 0xffffff, prefixes 0xfc/0xfd/0xfe, 1/3/4/9 bytes): a recomputed length prefix is misread by the other side")
	}
	r.Check(reader[0xfb] == 1, "R12.3", "decryptor/mysql/base.LengthEncodedInt", "0xfb is NULL, one byte", p.Pos(rd.Pos()), "case 0xfb: n = 1", "the NULL marker is not consumed as one byte")
}

func strconvHex(v int64) string {
	const d = "0123456789abcdef"
	if v == 0 {
		return "0"
	}
	s := ""
	for v > 0 {
		s = string(d[v%16]) + s
		v /= 16
	}
	return s
}

func ruleR124(p *Program, r *Report) {
	// mysql text
	if fn := p.Func("decryptor/mysql.(*Handler).processTextDataRow"); fn == nil || fn.Blocks == nil {
		r.Anchor("R12.4", "processTextDataRow")
	} else {
		les := callNamedIn(fn, "LengthEncodedString")
		dec := callNamedIn(fn, "onColumnDecryption")
		ok := false
		if les != nil && dec != nil {
			val := extractOf(les, 0)
			for _, i := range allIfs(fn) {
				nilS, nonNil, isN := nilBranches(i, val)
				if !isN {
					continue
				}
				// subscribers only on the non-nil edge; the nil edge appends a slice of the input row
				if !edgeOnly(i, nonNil, nilS, dec.Block()) {
					continue
				}
				for _, b := range fn.Blocks {
					if !nilS.Dominates(b) || nonNil.Dominates(b) {
						continue
					}
					for _, in := range b.Instrs {
						if c, isC := in.(*ssa.Call); isC {
							if bi, isB := c.Call.Value.(*ssa.Builtin); isB && bi.Name() == "append" {
								if sl, isSl := c.Call.Args[1].(*ssa.Slice); isSl && sl.X == ssa.Value(paramByName(fn, "rowData")) {
									ok = true
								}
							}
						}
					}
				}
			}
		}
		r.Check(ok, "R12.4", fnName(fn), "text row: NULL is copied through untouched", p.Pos(fn.Pos()), "value == nil -> append(output, rowData[pos:pos+n]...), no subscriber call", "a NULL column is handed to the column subscribers or not re-emitted as it was")
	}
	// mysql binary
	if fn := p.Func("decryptor/mysql.(*Handler).processBinaryDataRow"); fn == nil || fn.Blocks == nil {
		r.Anchor("R12.4", "processBinaryDataRow")
	} else {
		dec := callNamedIn(fn, "onColumnDecryption")
		ok := false
		if dec != nil {
			for _, i := range allIfs(fn) {
				bo, isBo := i.Cond.(*ssa.BinOp)
				if !isBo || bo.Op.String() != ">" {
					continue
				}
				// condition derives from an & with the bitmap
				and := false
				for v := range backClosure(bo.X) {
					if b2, isB := v.(*ssa.BinOp); isB && b2.Op.String() == "&" {
						and = true
					}
				}
				if and && edgeOnly(i, i.Block().Succs[1], i.Block().Succs[0], dec.Block()) {
					ok = true
				}
			}
		}
		r.Check(ok, "R12.4", fnName(fn), "binary row: a column whose NULL bit is set is skipped", p.Pos(fn.Pos()), "bitmap bit set -> continue", "NULL columns of a binary row are decoded as data")
		// the bitmap and header are copied from the input
		cp := false
		for _, b := range fn.Blocks {
			for _, in := range b.Instrs {
				if c, isC := in.(*ssa.Call); isC {
					if bi, isB := c.Call.Value.(*ssa.Builtin); isB && bi.Name() == "append" {
						if sl, isSl := c.Call.Args[1].(*ssa.Slice); isSl && sl.X == ssa.Value(paramByName(fn, "rowData")) && sl.Low == nil {
							cp = true
						}
					}
				}
			}
		}
		r.Check(cp, "R12.4", fnName(fn), "binary row: header and NULL bitmap are copied from the input", p.Pos(fn.Pos()), "append(output, rowData[:pos]...)", "the NULL bitmap of the row is not relayed as read")
	}
	// pg: IsNull skipped before SetData
	if fn := p.Func("decryptor/postgresql.(*PgProxy).handleQueryDataPacket"); fn == nil || fn.Blocks == nil {
		r.Anchor("R12.4", "handleQueryDataPacket")
	} else {
		isNull := callNamedIn(fn, "IsNull")
		set := callNamedIn(fn, "SetData")
		ok := false
		if isNull != nil && set != nil {
			for _, i := range ifsOn(isNull) {
				if edgeOnly(i, i.Block().Succs[1], i.Block().Succs[0], set.Block()) {
					ok = true
				}
			}
		}
		r.Check(ok, "R12.4", fnName(fn), "PostgreSQL: NULL columns are skipped", p.Pos(fn.Pos()), "IsNull() -> continue before the subscribers and SetData", "a NULL column is processed and rewritten as an empty value")
	}
	if fn := p.Func("decryptor/postgresql.(*ColumnData).Length"); fn == nil || fn.Blocks == nil {
		r.Anchor("R12.4", "ColumnData.Length")
	} else {
		ok := false
		for _, i := range allIfs(fn) {
			if _, f, okF := fieldOfLoad(i.Cond); okF && f == "isNull" {
				for _, ret := range returnsOf(fn) {
					if i.Block().Succs[0].Dominates(ret.Block()) {
						if c, isC := intConst(retValue(ret, 0)); isC && c == 0 {
							ok = true
						}
					}
				}
			}
		}
		r.Check(ok, "R12.4", fnName(fn), "a NULL column counts zero payload bytes", p.Pos(fn.Pos()), "isNull -> 0", "the -1 length marker of a NULL column is added to the declared message length")
	}
	if fn := p.Func("decryptor/postgresql.(*ColumnData).readData"); fn == nil || fn.Blocks == nil {
		r.Anchor("R12.4", "ColumnData.readData")
	} else {
		ok := false
		for _, st := range storesToRecvField(fn, "isNull") {
			if c, isC := st.Val.(*ssa.Const); isC && c.Value != nil && c.Value.String() == "true" {
				// on the edge of the comparison with NullColumnValue
				for _, i := range allIfs(fn) {
					if bo, isBo := i.Cond.(*ssa.BinOp); isBo && bo.Op.String() == "==" {
						if cv, isCv := intConst(bo.Y); isCv && cv == -1 && i.Block().Succs[0].Dominates(st.Block()) {
							ok = true
						}
					}
				}
			}
		}
		r.Check(ok, "R12.4", fnName(fn), "length -1 marks NULL", p.Pos(fn.Pos()), "int32(length) == -1 -> isNull = true, no data read", "the NULL marker of a DataRow column is not recognised")
	}
}

func ruleR125(p *Program, r *Report) {
	if fn := p.Func("decryptor/postgresql.(*PacketHandler).Marshal"); fn == nil || fn.Blocks == nil {
		r.Anchor("R12.5", "PacketHandler.Marshal")
	} else {
		var order []string
		for _, b := range fn.Blocks {
			for _, in := range b.Instrs {
				c, ok := in.(*ssa.Call)
				if !ok {
					continue
				}
				bi, isB := c.Call.Value.(*ssa.Builtin)
				if !isB || bi.Name() != "append" {
					continue
				}
				what := "other"
				for v := range backClosure(c.Call.Args[1]) {
					if fa, isFa := v.(*ssa.FieldAddr); isFa {
						st := fa.X.Type().Underlying().(*types.Pointer).Elem().Underlying().(*types.Struct)
						what = st.Field(fa.Field).Name()
					}
				}
				order = append(order, what)
			}
		}
		got := strings.Join(order, ",")
		r.Check(got == "messageType,descriptionLengthBuf,descriptionBuf", "R12.5", fnName(fn), "emits type, length buffer, payload", p.Pos(fn.Pos()), got, "Marshal emits ["+got+"]: not the message type, the stored length and the stored payload in that order")
	}
	if fn := p.Func("decryptor/mysql.(*Packet).Dump"); fn == nil || fn.Blocks == nil {
		r.Anchor("R12.5", "Packet.Dump")
	} else {
		ok := false
		for _, b := range fn.Blocks {
			for _, in := range b.Instrs {
				if c, isC := in.(*ssa.Call); isC {
					if bi, isB := c.Call.Value.(*ssa.Builtin); isB && bi.Name() == "append" {
						_, f0, ok0 := fieldOfLoad(c.Call.Args[0])
						_, f1, ok1 := fieldOfLoad(c.Call.Args[1])
						ok = ok0 && ok1 && f0 == "header" && f1 == "data"
					}
				}
			}
		}
		r.Check(ok, "R12.5", fnName(fn), "emits header then data", p.Pos(fn.Pos()), "append(header, data...)", "Dump does not emit the stored header followed by the stored payload")
	}
}

func init() {
	mut("C12", "a new writer of the relayed payload", "decryptor/postgresql/packet_handler.go", "func (packet *PacketHandler) IsRowDescription() bool {\n", "func (packet *PacketHandler) IsRowDescription() bool {\n	if packet.dataLength == 0 {\n		packet.descriptionBuf.Reset()\n	}\n", "R12.1", "IsRowDescription")
	mut("C12", "Query length forgets the terminator", "decryptor/postgresql/packet_handler.go", "		newQueryLength := len(newQuery) + 1 // query + '0' terminator", "		newQueryLength := len(newQuery) + 0 // query + '0' terminator", "R12.2", "Query: length")
	mut("C12", "changed column keeps its old length", "decryptor/postgresql/packet_handler.go", "	column.data = newData\n	binary.BigEndian.PutUint32(column.LengthBuf[:], uint32(len(column.data)))", "	column.data = newData", "R12.2", "column length buffer")
	mut("C12", "mysql payload size from the old payload", "decryptor/mysql/packet.go", "	packet.data = newData\n	newSize := len(newData)", "	newSize := len(packet.data)\n	packet.data = newData", "R12.2", "MySQL: size")
	mut("C12", "row description handler also renames a field", "decryptor/postgresql/pg_decryptor.go", "				rowDescription.Fields[i].DataTypeOID = newOID\n				changed = true", "				rowDescription.Fields[i].DataTypeOID = newOID\n				rowDescription.Fields[i].Name = append(rowDescription.Fields[i].Name, '_')\n				changed = true", "R12.2", "fixed-width")
	mut("C12", "writer switches to the two-byte form at 251", "decryptor/mysql/base/utils.go", "	case n <= 250:", "	case n <= 251:", "R12.3", "one byte up to 250")
	mut("C12", "three-byte form written with a wrong prefix", "decryptor/mysql/base/utils.go", "		return []byte{0xfd, byte(n), byte(n >> 8), byte(n >> 16)}", "		return []byte{0xfc, byte(n), byte(n >> 8), byte(n >> 16)}", "R12.3", "prefix 0xfd")
	mut("C12", "mysql text NULL handed to the subscribers", "decryptor/mysql/response_proxy.go", "		if value == nil {\n			output = append(output, rowData[pos:pos+n]...)\n			pos += n\n			continue\n		}", "		if value == nil {\n			value = []byte{}\n		}", "R12.4", "text row")
	mut("C12", "pg NULL column rewritten as empty", "decryptor/postgresql/pg_decryptor.go", "		if column.IsNull() {\n			continue\n		}\n		// default values Text", "		// default values Text", "R12.4", "PostgreSQL: NULL")
	mut("C12", "Marshal emits a recomputed length", "decryptor/postgresql/packet_handler.go", "	output = append(output, packet.descriptionLengthBuf...)\n	output = append(output, packet.descriptionBuf.Bytes()...)", "	output = append(output, packet.descriptionBuf.Bytes()...)\n	output = append(output, packet.descriptionLengthBuf...)", "R12.5", "emits type")
}

func ruleR126(p *Program, r *Report) {
	for _, spec := range []string{"decryptor/postgresql.NewPgBoundValue", "decryptor/mysql.NewMysqlCopyTextBoundValue"} {
		fn := p.Func(spec)
		if fn == nil || fn.Blocks == nil {
			r.Anchor("R12.6", spec)
			continue
		}
		data := paramByName(fn, "data")
		ok, why := false, "the copy is not guarded by a nil test of the input"
		for _, b := range fn.Blocks {
			for _, in := range b.Instrs {
				mk, isMk := in.(*ssa.MakeSlice)
				if !isMk {
					continue
				}
				for _, i := range allIfs(fn) {
					if _, nonNil, isN := nilBranches(i, data); isN && nonNil.Dominates(mk.Block()) {
						ok = true
					}
				}
				// a length test in front of the allocation loses the distinction
				for _, i := range allIfs(fn) {
					if !(i.Block().Succs[0].Dominates(mk.Block()) || i.Block().Succs[1].Dominates(mk.Block())) {
						continue
					}
					for v := range backClosure(i.Cond) {
						if op, isLen := isLenCall(v); isLen && op == ssa.Value(data) {
							ok, why = false, "the copy is allocated only for len(data) > 0: a zero-length non-NULL value becomes nil"
						}
					}
				}
			}
		}
		r.Check(ok, "R12.6", fnName(fn), "copy keeps nil-ness of the input", p.Pos(fn.Pos()), "data != nil -> make+copy", why+": when the message is re-serialized the empty parameter is written as NULL")
	}
}

func init() {
	mut("C12", "empty bound value becomes nil", "decryptor/postgresql/prepared_statements.go", "	var newData []byte\n	if data != nil {\n		newData = make([]byte, len(data))", "	var newData []byte\n	if len(data) > 0 {\n		newData = make([]byte, len(data))", "R12.6", "nil-ness")
}
