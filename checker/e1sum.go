package main

import (
	"go/types"

	"golang.org/x/tools/go/ssa"
)

// Callee summaries for the bound prover: what a function guarantees about its integer results on its
// nil-error returns, relative to the lengths of its slice parameters:  0 <= r_i  and  r_i <= len(param_j).
type fnSummary struct {
	nonNeg map[int]bool    // result index
	leLen  map[[2]int]bool // (result index, param index): r <= len(param)
	lenLow map[int]int64   // param index -> K with K <= len(param) on every nil-error return (validators)
	done   bool
}

func (p *Program) proverFor(fn *ssa.Function, depthIP int) *prover {
	if p.provers == nil {
		p.provers = map[*ssa.Function]*prover{}
	}
	if pr, ok := p.provers[fn]; ok {
		return pr
	}
	p.provers[fn] = nil // cycle guard
	pr := newProverP(p, fn, depthIP)
	p.provers[fn] = pr
	return pr
}

// computeSummaries: three bottom-up passes over all acra functions (callee summaries feed caller summaries),
// with caller guards switched off so that nothing is derived from a half-built state.
func (p *Program) computeSummaries() {
	if p.summariesReady {
		return
	}
	p.summariesReady = true
	p.noCallers = true
	p.summaries = map[*ssa.Function]*fnSummary{}
	for pass := 0; pass < 3; pass++ {
		next := map[*ssa.Function]*fnSummary{}
		for _, fn := range p.srcFns {
			if s := p.buildSummary(fn); s != nil {
				next[fn] = s
			}
		}
		p.summaries = next
	}
	p.noCallers = false
	p.provers = map[*ssa.Function]*prover{}
}

func (p *Program) summaryOf(fn *ssa.Function, depthIP int) *fnSummary {
	p.computeSummaries()
	if s, ok := p.summaries[fn]; ok {
		return s
	}
	return &fnSummary{nonNeg: map[int]bool{}, leLen: map[[2]int]bool{}, lenLow: map[int]int64{}}
}

func (p *Program) buildSummary(fn *ssa.Function) *fnSummary {
	s := &fnSummary{nonNeg: map[int]bool{}, leLen: map[[2]int]bool{}, lenLow: map[int]int64{}}
	depthIP := 0
	if fn.Blocks == nil {
		return nil
	}
	res := fn.Signature.Results()
	errIdx := -1
	for i := 0; i < res.Len(); i++ {
		if isErrorType(res.At(i).Type()) {
			errIdx = i
		}
	}
	var intIdx []int
	for i := 0; i < res.Len(); i++ {
		if _, _, ok := basicInfo(res.At(i).Type()); ok {
			intIdx = append(intIdx, i)
		}
	}
	if errIdx < 0 && len(intIdx) == 0 {
		return nil
	}
	var sliceParams []int
	for j, prm := range fn.Params {
		switch prm.Type().Underlying().(type) {
		case *types.Slice:
			sliceParams = append(sliceParams, j)
		case *types.Basic:
			if b := prm.Type().Underlying().(*types.Basic); b.Info()&types.IsString != 0 {
				sliceParams = append(sliceParams, j)
			}
		}
	}
	pr := newProverP(p, fn, depthIP+1)
	// validators: on the nil-error returns, how long is each slice parameter known to be?
	if errIdx >= 0 {
		for _, j := range sliceParams {
			best := int64(-1)
			n := 0
			for _, ret := range returnsOf(fn) {
				if isRecoverBlock(ret.Block()) || !isNilConst(retValue(ret, errIdx)) {
					continue
				}
				n++
				k := int64(0)
				lt := term{canonLenOperand(fn.Params[j]), true}
				for _, f := range pr.facts[ret.Block()] {
					// c <= len(param) + k'  with c constant
					if f.y == lt && f.x.v == nil && -f.k > k {
						k = -f.k
					}
				}
				// candidates from calls returning constants (len(data) < GetMin...())
				for _, f := range pr.facts[ret.Block()] {
					if f.y == lt && f.x.v != nil && !f.x.isLen {
						if lo, _, ok := pr.rangeOfCallResult(f.x.v); ok && lo-f.k > k {
							k = lo - f.k
						}
					}
				}
				if best < 0 || k < best {
					best = k
				}
			}
			if n > 0 && best > 0 {
				s.lenLow[j] = best
			}
		}
	}
	for _, i := range intIdx {
		okNonNeg := true
		okLen := map[int]bool{}
		for _, j := range sliceParams {
			okLen[j] = true
		}
		n := 0
		for _, ret := range returnsOf(fn) {
			if isRecoverBlock(ret.Block()) {
				continue
			}
			if errIdx >= 0 && !isNilConst(retValue(ret, errIdx)) {
				continue // error return: results are not used by callers that check err
			}
			n++
			rv := retValue(ret, i)
			if !pr.Prove(nil, 0, rv, 0, ret.Block()) {
				okNonNeg = false
			}
			for _, j := range sliceParams {
				if okLen[j] && !pr.ProveLen(rv, 0, fn.Params[j], 0, ret.Block()) {
					okLen[j] = false
				}
			}
		}
		if n == 0 {
			continue
		}
		if okNonNeg {
			s.nonNeg[i] = true
		}
		for _, j := range sliceParams {
			if okLen[j] {
				s.leLen[[2]int{i, j}] = true
			}
		}
	}
	s.done = true
	return s
}

// summaryFacts: facts about the results of call (valid where its error result is nil).
func (p *Program) summaryFacts(call *ssa.Call, depthIP int) []fact {
	callee := call.Common().StaticCallee()
	if callee == nil || callee.Blocks == nil || !isAcraPath(fnPkgPath(callee)) {
		return nil
	}
	s := p.summaryOf(callee, depthIP)
	var out []fact
	for i := range s.nonNeg {
		if ex := extractOf(call, i); ex != nil {
			out = append(out, fact{zeroT, term{ex, false}, 0})
		}
	}
	for j, k := range s.lenLow {
		if j < len(call.Common().Args) {
			out = append(out, fact{zeroT, term{canonLenOperand(call.Common().Args[j]), true}, -k})
		}
	}
	for k := range s.leLen {
		ex := extractOf(call, k[0])
		if ex == nil || k[1] >= len(call.Common().Args) {
			continue
		}
		out = append(out, fact{term{ex, false}, term{canonLenOperand(call.Common().Args[k[1]]), true}, 0})
	}
	return out
}
