package main

import (
	"path/filepath"
	"os"
	"go/constant"
	"fmt"
	"go/ast"
	"go/token"
	"go/types"
	"sort"
	"strings"

	"golang.org/x/tools/go/ssa"
)

func init() {
	register(&Property{ID: "C13", Patterns: []string{"./..."}, Run: runC13})
}

// Fields that are deliberately not printed (frozen, one reason each).
var r131Unprinted = map[string]string{
	"ColName.Metadata":   "interface{} scratch slot for analysers (vitess), never set by the parser; carries no statement text",
	"TableIdent.lowered": "memoised lower-case form of v, derived data (v itself is printed)",
	"ColIdent.lowered":   "memoised lower-case form of val, derived data",
	"ColIdent.at":        "memoised position of '@' prefix handling; derived data",
}

func runC13(p *Program, r *Report) {
	r.Rule("R13.1", "E4", 60, "printer coverage: for every AST struct type reachable from the data statements, every field is read by the type's Format method (or a method of the same receiver that Format calls); a field never printed is a clause/operand silently dropped from the re-serialised statement")
	r.Rule("R13.2", "E4", 2, "precedence and literal carriers: ParenExpr.Format prints '(' Expr ')' ; SQLVal.Format has a case for every ValType constant and prints CastType")
	r.Rule("R13.3", "E2", 5, "substitution edits values only: every store into a field of a sqlparser AST type made outside package sqlparser targets SQLVal.Val/Type (value substitution) or ComparisonExpr.Left/Right/Operator (the documented search rewrite); any other AST field store changes statement structure")
	r.Rule("R13.4", "E2", 4, "literal escaping is byte-wise and total: in every SQL string-literal encoder (the functions of sqltypes that consult SQLEncodeMap) a byte of the value reaches the output only through the per-byte escape test (written raw only on the DontEscape edge), never through a bulk write of the value or of a slice of it; the escape table covers quote and backslash")
	a := newSQLAST(p, r, "R13.1")
	if a == nil {
		return
	}
	ruleR131(p, r, a)
	ruleR132(p, r, a)
	ruleR133(p, r, a)
	ruleR134(p, r)
	r.Rule("R13.5", "E4", 20, "an optional clause is printed whenever it is present: in every Format method, a test 'node.F != nil' (or a non-empty test of F) that guards the printing of child F stands alone - it is not and-ed with another condition, so no other state of the node can make a present clause disappear from the re-serialised statement")
	ruleR135(p, r, a)
	r.Rule("R13.6", "E4", 3, "nothing is put between quotes unescaped: in the statement printer (Format methods of package sqlparser) no Myprintf verb stands directly inside quote characters unless its operand is the output of the escaping encoder or digits the tokenizer validated (frozen table), and the parser's actions build no quoted text by concatenating quote characters around token bytes outside schema statements; text that holds a quote would otherwise end the literal early and change the statement")
	ruleR136(p, r)
	r.Rule("R13.7", "E3", 2, "escaped LIKE wildcards survive tokenizing: in the string scanner, on the path taken for an escaped character that has no decoding, the characters % and _ are each tested for and their backslash is written to the token before the character (MySQL keeps the backslash of these two sequences; dropping it turns `like 'x\\%'` into `like 'x%'` when the statement is printed)")
	ruleR137(p, r)
}

func ruleR131(p *Program, r *Report, a *sqlAST) {
	inScope := a.reachable(p, schemaStatements)
	if inScope == nil {
		r.Anchor("R13.1", "sqlparser.Statement")
		return
	}
	var tns []*types.TypeName
	for tn := range inScope {
		tns = append(tns, tn)
	}
	sort.Slice(tns, func(i, j int) bool { return tns[i].Name() < tns[j].Name() })
	for _, tn := range tns {
		st, printed, _, fmtDecl, _ := a.structFieldUse(tn)
		if st == nil {
			continue
		}
		if !types.Implements(tn.Type(), a.sqlNode) && !types.Implements(types.NewPointer(tn.Type()), a.sqlNode) {
			r.Note("R13.1: %s is a helper struct without Format (printed inline by its parent); not covered", tn.Name())
			continue
		}
		fn := "sqlparser." + tn.Name() + ".Format"
		if fmtDecl == nil {
			r.Bad("R13.1", fn, "method Format", p.Pos(tn.Pos()), "AST struct type without a Format method of its own")
			continue
		}
		for i := 0; i < st.NumFields(); i++ {
			f := st.Field(i)
			if f.Name() == "_" {
				continue
			}
			construct := "field " + f.Name()
			if printed[f] {
				r.OK("R13.1", fn, construct, p.Pos(fmtDecl.Pos()), "read by Format")
			} else if why, ok := r131Unprinted[tn.Name()+"."+f.Name()]; ok {
				r.Confirmed("R13.1", fn, construct, p.Pos(fmtDecl.Pos()), why)
			} else {
				r.Bad("R13.1", fn, construct, p.Pos(fmtDecl.Pos()), fmt.Sprintf("%s.%s (%s) is never read by Format: whatever the parser stored there is lost when the statement is re-serialised", tn.Name(), f.Name(), types.TypeString(f.Type(), types.RelativeTo(a.pk.Types))))
			}
		}
	}
}

func ruleR132(p *Program, r *Report, a *sqlAST) {
	// ParenExpr
	if tn := p.Type("sqlparser.ParenExpr"); tn == nil {
		r.Anchor("R13.2", "sqlparser.ParenExpr")
	} else {
		ms := methodDecls(a.pk, tn)
		fd := ms["Format"]
		ok := false
		if fd != nil {
			ast.Inspect(fd.Body, func(n ast.Node) bool {
				call, isCall := n.(*ast.CallExpr)
				if !isCall || len(call.Args) < 2 {
					return true
				}
				if lit, isLit := call.Args[0].(*ast.BasicLit); isLit && lit.Kind == token.STRING {
					s := strings.Trim(lit.Value, "\"`")
					if strings.HasPrefix(s, "(") && strings.HasSuffix(s, ")") && strings.Contains(s, "%v") {
						if sel, isSel := call.Args[1].(*ast.SelectorExpr); isSel && sel.Sel.Name == "Expr" {
							ok = true
						}
					}
				}
				return true
			})
		}
		r.Check(ok, "R13.2", "sqlparser.ParenExpr.Format", "prints (Expr)", p.Pos(tn.Pos()), "format string wraps %v of node.Expr in parentheses", "ParenExpr.Format no longer prints both parentheses around its operand: precedence of the re-serialised statement changes")
	}
	// SQLVal.Format exhaustive
	tn := p.Type("sqlparser.SQLVal")
	valType := p.Type("sqlparser.ValType")
	if tn == nil || valType == nil {
		r.Anchor("R13.2", "sqlparser.SQLVal / ValType")
		return
	}
	ms := methodDecls(a.pk, tn)
	fd := ms["Format"]
	if fd == nil {
		r.Anchor("R13.2", "sqlparser.SQLVal.Format")
		return
	}
	var sw *ast.SwitchStmt
	ast.Inspect(fd.Body, func(n ast.Node) bool {
		if s, ok := n.(*ast.SwitchStmt); ok && s.Tag != nil && sw == nil {
			if tv, ok := a.pk.TypesInfo.Types[s.Tag]; ok && types.Identical(tv.Type, valType.Type()) {
				sw = s
			}
		}
		return true
	})
	if sw == nil {
		r.Bad("R13.2", "sqlparser.SQLVal.Format", "switch on ValType", p.Pos(fd.Pos()), "no switch over the literal kind")
		return
	}
	cases, _ := switchCaseConsts(a.pk.TypesInfo, sw)
	for _, c := range constsOfType(a.pk.Types, valType.Type()) {
		cc := cases[c]
		prints := false
		if cc != nil {
			for _, s := range cc.Body {
				ast.Inspect(s, func(n ast.Node) bool {
					if sel, ok := n.(*ast.SelectorExpr); ok {
						if id, ok := sel.X.(*ast.Ident); ok && id.Name == "node" && (sel.Sel.Name == "Val" || sel.Sel.Name == "unknown") {
							prints = true
						}
					}
					return true
				})
			}
		}
		r.Check(cc != nil && prints, "R13.2", "sqlparser.SQLVal.Format", "kind "+c.Name(), p.Pos(sw.Pos()), "has a case printing the value", "SQLVal.Format has no case printing the value of kind "+c.Name()+": such a literal is dropped or panics on re-serialisation")
	}
	printed := fieldsReadOffReceiver(a.pk, tn, fd, ms)
	castPrinted := false
	for f := range printed {
		if f.Name() == "CastType" {
			castPrinted = true
		}
	}
	r.Check(castPrinted, "R13.2", "sqlparser.SQLVal.Format", "field CastType", p.Pos(fd.Pos()), "cast suffix printed", "the ::type cast of a literal is no longer printed")
}

// ruleR133: stores into sqlparser AST fields from outside sqlparser.
func ruleR133(p *Program, r *Report, a *sqlAST) {
	allowed := map[string]string{
		"SQLVal.Val":                     "value substitution (protected value / hash / token replaces the literal bytes)",
		"SQLVal.Type":                    "literal kind follows the substituted value's encoding",
		"ComparisonExpr.Left":            "search rewrite col -> substr(col,1,N)",
		"ComparisonExpr.Right":           "search rewrite value -> hash / substr(col)",
		"ComparisonExpr.Operator":        "search rewrite LIKE -> = (documented)",
		"Prepare.PreparedStatementQuery": "MySQL PREPARE name FROM '<stmt>': the inner statement is replaced by its own rewritten form (the same substitution applied recursively)",
	}
	astStructs := map[*types.Struct]*types.TypeName{}
	for _, tn := range a.named {
		if st, ok := tn.Type().Underlying().(*types.Struct); ok {
			astStructs[st] = tn
		}
	}
	for _, fn := range p.srcFns {
		pp := fnPkgPath(fn)
		if pp == acraMod+"/sqlparser" || strings.HasPrefix(pp, acraMod+"/sqlparser/") || strings.HasPrefix(pp, acraMod+"/acra-censor") {
			continue // the censor builds pattern trees for matching only; they are never re-serialised to the database
		}
		for _, b := range fn.Blocks {
			for _, in := range b.Instrs {
				st, ok := in.(*ssa.Store)
				if !ok {
					continue
				}
				fa, ok := st.Addr.(*ssa.FieldAddr)
				if !ok {
					continue
				}
				k, ok := fieldKeyOf(fa.X.Type(), fa.Field)
				if !ok {
					continue
				}
				tn := astStructs[k.st]
				if tn == nil {
					continue
				}
				// a store into a node freshly allocated in this function (composite literal) constructs, not edits
				if _, fresh := fa.X.(*ssa.Alloc); fresh {
					continue
				}
				name := tn.Name() + "." + k.st.Field(k.idx).Name()
				construct := "store " + name
				if why, ok := allowed[name]; ok {
					// operand/operator rewrites must build something new around the operand, never move or copy
					// existing parts of the statement around
					switch name {
					case "ComparisonExpr.Left", "ComparisonExpr.Right":
						v := stripConv(st.Val)
						fresh := false
						if al, isAlloc := v.(*ssa.Alloc); isAlloc && al.Heap && isSQLParserType(al.Type()) {
							fresh = true
						}
						if !fresh {
							r.Bad("R13.3", fnName(fn), construct, p.Pos(st.Pos()), "the operand of a parsed comparison is replaced by an existing value ("+v.String()+") instead of a freshly built substr/convert/value node: operands are moved around, so the forwarded statement no longer means what the client sent (e.g. `10 < price` becomes `price < 10`)")
							continue
						}
					case "ComparisonExpr.Operator":
						if _, isConst := st.Val.(*ssa.Const); !isConst {
							r.Bad("R13.3", fnName(fn), construct, p.Pos(st.Pos()), "comparison operator replaced by a computed value")
							continue
						}
						// the replacement keeps the polarity of the operator it replaces: the case constants that lead
						// to this store are all negated operators, or none is
						newOp, _ := constStringOf(st.Val)
						negated := func(op string) bool {
							return op == "!=" || op == "<>" || strings.HasPrefix(op, "not ")
						}
						mismatch := ""
						for _, pb := range st.Block().Preds {
							iff, isIf := pb.Instrs[len(pb.Instrs)-1].(*ssa.If)
							if !isIf || pb.Succs[0] != st.Block() {
								continue
							}
							if bo, isBo := iff.Cond.(*ssa.BinOp); isBo && bo.Op == token.EQL {
								for _, side := range []ssa.Value{bo.X, bo.Y} {
									if oldOp, isC := constStringOf(side); isC && negated(oldOp) != negated(newOp) {
										mismatch = "`" + oldOp + "` is replaced by `" + newOp + "`"
									}
								}
							}
						}
						if mismatch != "" {
							r.Bad("R13.3", fnName(fn), construct, p.Pos(st.Pos()), "the search rewrite changes the polarity of a comparison: "+mismatch+" - the forwarded statement selects the complement of what the client asked for")
							continue
						}
					}
					r.OK("R13.3", fnName(fn), construct, p.Pos(st.Pos()), why)
				} else {
					r.Bad("R13.3", fnName(fn), construct, p.Pos(st.Pos()), "a parsed statement's "+name+" is overwritten outside the parser: the re-serialised statement differs from the received one in more than the substituted values")
				}
			}
		}
	}
}

func init() {
	mut("C13", "Select.Format stops printing HAVING", "sqlparser/ast_methods.go", "		node.From, node.Where,\n		node.GroupBy, node.Having, node.OrderBy,", "		node.From, node.Where,\n		node.GroupBy, node.OrderBy, node.OrderBy,", "R13.1", "Select.Format|field Having")
	mut("C13", "cast suffix dropped from literals", "sqlparser/ast_methods.go", "	if len(node.CastType) > 0 {\n		buf.Myprintf(\"%s\", node.CastType)\n	}\n}\n\nfunc (node *SQLVal) walkSubtree", "	if len(node.Val) > 1<<30 {\n		buf.Myprintf(\"%s\", node.Val)\n	}\n}\n\nfunc (node *SQLVal) walkSubtree", "R13.2", "field CastType")
	mut("C13", "parentheses dropped", "sqlparser/ast_methods.go", "buf.Myprintf(\"(%v)\", node.Expr)", "buf.Myprintf(\"%v\", node.Expr)", "R13.2", "ParenExpr")
	mut("C13", "searchable rewrite also edits the WHERE root", "hmac/decryptor/mysql/hashQuery.go", "			hexNumLiteral = rVal\n", "			hexNumLiteral = rVal\n			item.Expr.Escape = nil\n", "R13.3", "ComparisonExpr.Escape")
}

func ruleR134(p *Program, r *Report) {
	pk := p.Pkg("sqlparser/dependency/sqltypes")
	if pk == nil {
		r.Anchor("R13.4", "sqlparser/dependency/sqltypes")
		return
	}
	encMap, _ := p.SSAPkgs[pk.PkgPath].Members["SQLEncodeMap"].(*ssa.Global)
	dontG, _ := p.SSAPkgs[pk.PkgPath].Members["DontEscape"].(*ssa.Global)
	dontC, _ := p.Lookup("sqlparser/dependency/sqltypes.DontEscape").(*types.Const)
	isDont := func(v ssa.Value) bool {
		if c, ok := v.(*ssa.Const); ok && dontC != nil {
			return constValueEq(c.Value, dontC.Val())
		}
		if u, ok := v.(*ssa.UnOp); ok && dontG != nil {
			return u.X == ssa.Value(dontG)
		}
		return false
	}
	if encMap == nil || (dontG == nil && dontC == nil) {
		r.Anchor("R13.4", "sqltypes.SQLEncodeMap / DontEscape")
		return
	}
	// escape table covers the string delimiters
	if ref, _ := p.Lookup("sqlparser/dependency/sqltypes.encodeRef").(*types.Var); ref == nil {
		r.Anchor("R13.4", "sqltypes.encodeRef")
	} else {
		keys := map[string]bool{}
		for _, f := range pk.Syntax {
			ast.Inspect(f, func(n ast.Node) bool {
				vs, ok := n.(*ast.ValueSpec)
				if !ok || len(vs.Names) != 1 || pk.TypesInfo.Defs[vs.Names[0]] != types.Object(ref) || len(vs.Values) != 1 {
					return true
				}
				if cl, ok := vs.Values[0].(*ast.CompositeLit); ok {
					for _, e := range cl.Elts {
						if kv, ok := e.(*ast.KeyValueExpr); ok {
							if tv, ok := pk.TypesInfo.Types[kv.Key]; ok && tv.Value != nil {
								keys[tv.Value.ExactString()] = true
							}
						}
					}
				}
				return true
			})
		}
		for _, need := range []struct{ name, val string }{{"single quote", "39"}, {"backslash", "92"}, {"NUL", "0"}} {
			r.Check(keys[need.val], "R13.4", "sqlparser/dependency/sqltypes.encodeRef", "escapes "+need.name, p.Pos(ref.Pos()), "present in the escape table", need.name+" is no longer escaped in printed string literals: a value containing it ends the literal early")
		}
	}
	n := 0
	// the literal encoders: functions that consult the escape table, and functions that hand the value on to one
	// (an encoder split into a wrapper and an escaping helper is still one encoder)
	encoder := map[*ssa.Function]bool{}
	for changed := true; changed; {
		changed = false
		for _, fn := range p.SrcFuncs("sqlparser/dependency/sqltypes") {
			if encoder[fn] || fn.Name() == "init" || strings.HasPrefix(fn.Name(), "init#") {
				continue
			}
			for _, b := range fn.Blocks {
				for _, in := range b.Instrs {
					for _, op := range in.Operands(nil) {
						if *op == ssa.Value(encMap) {
							encoder[fn] = true
						}
					}
					if c, ok := in.(ssa.CallInstruction); ok {
						if sc := c.Common().StaticCallee(); sc != nil && encoder[sc] {
							encoder[fn] = true
						}
					}
				}
			}
			if encoder[fn] {
				changed = true
			}
		}
	}
	for _, fn := range p.SrcFuncs("sqlparser/dependency/sqltypes") {
		if fn.Name() == "init" || strings.HasPrefix(fn.Name(), "init#") {
			continue
		}
		if !encoder[fn] {
			continue
		}
		var data *ssa.Parameter
		for _, prm := range fn.Params {
			if sl, ok := prm.Type().Underlying().(*types.Slice); ok {
				if b, ok := sl.Elem().Underlying().(*types.Basic); ok && b.Kind() == types.Uint8 {
					data = prm
				}
			}
		}
		if data == nil {
			continue
		}
		n++
		name := fnName(fn)
		fromData := func(v ssa.Value) bool { return backClosure(v)[data] }
		// the escape tests: If on (SQLEncodeMap[x] == DontEscape)
		type test struct {
			x     ssa.Value
			plain *ssa.BasicBlock
		}
		var tests []test
		for _, b := range fn.Blocks {
			for _, in := range b.Instrs {
				bo, ok := in.(*ssa.BinOp)
				if !ok || (bo.Op != token.EQL && bo.Op != token.NEQ) {
					continue
				}
				var look ssa.Value
				if isDont(bo.Y) {
					look = bo.X
				} else if isDont(bo.X) {
					look = bo.Y
				}
				u, ok := look.(*ssa.UnOp)
				if !ok {
					continue
				}
				ia, ok := u.X.(*ssa.IndexAddr)
				if !ok || ia.X != ssa.Value(encMap) {
					continue
				}
				for _, i := range ifsOn(bo) {
					pl := i.Block().Succs[0]
					if bo.Op == token.NEQ {
						pl = i.Block().Succs[1]
					}
					tests = append(tests, test{stripConv(ia.Index), pl})
				}
			}
		}
		for _, cs := range callsIn(fn) {
			cc := cs.Instr.Common()
			mname := ""
			if cc.IsInvoke() {
				mname = cc.Method.Name()
			} else if cs.Callee != nil {
				mname = cs.Callee.Name()
			}
			args := cc.Args
			if !cc.IsInvoke() && cs.Callee != nil && cs.Callee.Type().(*types.Signature).Recv() != nil && len(args) > 0 {
				args = args[1:]
			}
			switch mname {
			case "Write", "WriteString":
				for _, a := range args {
					if fromData(a) {
						r.Bad("R13.4", name, mname+"("+operandText(p, cs.Instr)+")", p.Pos(cs.Instr.Pos()), "bytes of the literal's value are written to the output in bulk, bypassing the per-byte escape test: a quote or backslash inside the value is printed raw and ends the literal early (statement injection into the forwarded SQL)")
					}
				}
			case "WriteByte":
				if len(args) == 1 && fromData(args[0]) {
					x := stripConv(args[0])
					ok := false
					for _, t := range tests {
						if t.x == x && t.plain.Dominates(cs.Block) {
							ok = true
						}
					}
					// the escaped form: WriteByte(SQLEncodeMap[ch]) — derived from the table lookup, fine
					if u, isU := x.(*ssa.UnOp); isU {
						if ia, isIA := u.X.(*ssa.IndexAddr); isIA && ia.X == ssa.Value(encMap) {
							ok = true
						}
					}
					r.Check(ok, "R13.4", name, "WriteByte("+operandText(p, cs.Instr)+")", p.Pos(cs.Instr.Pos()), "raw byte written only on the DontEscape edge of its own escape test", "a value byte is written raw without its escape test having said DontEscape")
				}
			}
		}
	}
	if n == 0 {
		r.Bad("R13.4", "sqlparser/dependency/sqltypes", "encoders using SQLEncodeMap", "-", "no literal encoder consults the escape table any more")
	}
}

var r135Confirmed = map[string]string{
	"*Show.ShowTablesOpt": "the grammar fills ShowTablesOpt only in the SHOW TABLES production, which also sets Type to \"tables\"; every other SHOW form is printed from Type/Scope/OnTable by the second half of the method",
}

func ruleR135(p *Program, r *Report, a *sqlAST) {
	inScope := a.reachable(p, schemaStatements)
	scopeNames := map[string]bool{}
	for tn := range inScope {
		scopeNames[tn.Name()] = true
	}
	pk := p.Pkg("sqlparser")
	if pk == nil {
		r.Anchor("R13.5", "sqlparser")
		return
	}
	n := 0
	for _, f := range pk.Syntax {
		for _, d := range f.Decls {
			fd, ok := d.(*ast.FuncDecl)
			if !ok || fd.Recv == nil || fd.Name.Name != "Format" || fd.Body == nil {
				continue
			}
			recv := recvIdent(fd, pk.TypesInfo)
			if recv == nil {
				continue
			}
			fieldOf := func(e ast.Expr) string {
				se, ok := e.(*ast.SelectorExpr)
				if !ok {
					return ""
				}
				id, ok := se.X.(*ast.Ident)
				if !ok || pk.TypesInfo.Uses[id] != recv {
					return ""
				}
				if _, isF := pk.TypesInfo.Uses[se.Sel].(*types.Var); !isF {
					return ""
				}
				return se.Sel.Name
			}
			// presence test of a field: F != nil, len(F) > 0 / != 0
			presence := func(e ast.Expr) string {
				be, ok := e.(*ast.BinaryExpr)
				if !ok {
					return ""
				}
				if be.Op == token.NEQ {
					if isNilIdent(pk.TypesInfo, be.Y) {
						return fieldOf(be.X)
					}
					if isNilIdent(pk.TypesInfo, be.X) {
						return fieldOf(be.Y)
					}
				}
				if ce, ok := be.X.(*ast.CallExpr); ok && (be.Op == token.GTR || be.Op == token.NEQ) {
					if id, ok := ce.Fun.(*ast.Ident); ok && id.Name == "len" && len(ce.Args) == 1 {
						return fieldOf(ce.Args[0])
					}
				}
				return ""
			}
			typeName := types.ExprString(fd.Recv.List[0].Type)
			if !scopeNames[strings.TrimPrefix(typeName, "*")] {
				continue // not part of a data statement (DDL / SHOW / ...): same scope as R13.1
			}
			ast.Inspect(fd.Body, func(nd ast.Node) bool {
				is, ok := nd.(*ast.IfStmt)
				if !ok {
					return true
				}
				// collect conjuncts
				var conj []ast.Expr
				var split func(e ast.Expr)
				split = func(e ast.Expr) {
					if be, ok := e.(*ast.BinaryExpr); ok && be.Op == token.LAND {
						split(be.X)
						split(be.Y)
						return
					}
					if pe, ok := e.(*ast.ParenExpr); ok {
						split(pe.X)
						return
					}
					conj = append(conj, e)
				}
				split(is.Cond)
				for _, c := range conj {
					f := presence(c)
					if f == "" {
						continue
					}
					// does the body print that field?
					prints := false
					ast.Inspect(is.Body, func(m ast.Node) bool {
						if e, ok := m.(ast.Expr); ok && fieldOf(e) == f {
							prints = true
						}
						return true
					})
					if !prints {
						continue
					}
					n++
					// conjuncts that are presence tests of other printed fields are fine (both parts of "(%v,%v)")
					others := 0
					for _, c2 := range conj {
						if c2 == c {
							continue
						}
						if presence(c2) == "" {
							others++
						}
					}
					if why, okC := r135Confirmed[typeName+"."+f]; okC && others > 0 {
						r.Confirmed("R13.5", typeName+".Format", "presence of "+f+" alone decides whether it is printed", p.Pos(is.Pos()), why)
						continue
					}
					r.Check(others == 0, "R13.5", typeName+".Format", "presence of "+f+" alone decides whether it is printed", p.Pos(is.Pos()), "if node."+f+" != nil { print }", "the clause "+f+" is printed only when a second condition holds as well: a statement that carries it can be re-serialised without it and still parse - as a different statement")
				}
				return true
			})
		}
	}
	if n < 20 {
		r.Bad("R13.5", "sqlparser", "optional clauses", "-", "fewer guarded optional clauses found in Format methods than confirmed by reading")
	}
}

func init() {
	mut("C13", "ESCAPE printed only for some operators", "sqlparser/ast_methods.go", "	if node.Escape != nil {\n		buf.Myprintf(\" escape %v\", node.Escape)", "	if node.Escape != nil && node.Operator != ILikeStr {\n		buf.Myprintf(\" escape %v\", node.Escape)", "R13.5", "Escape")
}

// ---- R13.6
var r136Confirmed = map[string]string{
	"(*SQLVal).Format|X'%s'": "HexVal: the tokenizer accepts only hexadecimal digits between the quotes of X'..'",
	"(*SQLVal).Format|B'%s'": "BitVal: the tokenizer accepts only 0 and 1 between the quotes of B'..'",
	"(*SQLVal).Format|E'%s'": "PgEscapeString: the operand is sqltypes.EncodeBytesSQLWithoutQuotes(node.Val), the escaping encoder (decided by R13.4)",
}

var r136ConfirmedConcat = map[string]string{
	"enum_values": "enum('a','b') values of a column type: CREATE/ALTER TABLE only, a schema statement that Acra never rewrites and re-serialises",
}

func ruleR136(p *Program, r *Report) {
	pk := p.Pkg("sqlparser")
	if pk == nil {
		r.Anchor("R13.6", "package sqlparser")
		return
	}
	n := 0
	for _, f := range pk.Syntax {
		fname := filepath.Base(pk.Fset.Position(f.Pos()).Filename)
		if strings.HasSuffix(fname, "_test.go") {
			continue
		}
		for _, d := range f.Decls {
			fd, ok := d.(*ast.FuncDecl)
			if !ok || fd.Body == nil {
				continue
			}
			owner := fd.Name.Name
			if fd.Recv != nil && len(fd.Recv.List) == 1 {
				owner = "(" + types.ExprString(fd.Recv.List[0].Type) + ")." + fd.Name.Name
			}
			ast.Inspect(fd.Body, func(nd ast.Node) bool {
				switch x := nd.(type) {
				case *ast.CallExpr:
					sel, ok := x.Fun.(*ast.SelectorExpr)
					if !ok || sel.Sel.Name != "Myprintf" || len(x.Args) == 0 {
						return true
					}
					tv, ok := pk.TypesInfo.Types[x.Args[0]]
					if !ok || tv.Value == nil || tv.Value.Kind() != constant.String {
						return true
					}
					format := constant.StringVal(tv.Value)
					for i := 0; i+1 < len(format); i++ {
						if format[i] != '%' {
							continue
						}
						if format[i+1] == '%' {
							i++
							continue
						}
						before := i > 0 && (format[i-1] == '\'' || format[i-1] == '"')
						after := i+2 < len(format) && (format[i+2] == '\'' || format[i+2] == '"')
						if !(before && after) {
							continue
						}
						n++
						lo := i - 1
						if lo > 0 {
							lo--
						}
						frag := format[lo : i+3]
						key := owner + "|" + frag
						pos := p.Pos(x.Pos())
						if why, ok := r136Confirmed[key]; ok {
							r.Confirmed("R13.6", owner, "Myprintf "+frag, pos, why)
						} else {
							r.Bad("R13.6", owner, "Myprintf "+frag, pos, "the operand is printed between quote characters as it is: a quote inside it ends the literal early, the re-serialised statement means something else or no longer parses")
						}
					}
				case *ast.BinaryExpr:
					// "'" + string(token bytes) + "'" in a parser action
					if x.Op != token.ADD || fd.Name.Name != "Parse" {
						return true
					}
					isQuote := func(e ast.Expr) bool {
						tv, ok := pk.TypesInfo.Types[e]
						if !ok || tv.Value == nil || tv.Value.Kind() != constant.String {
							return false
						}
						v := constant.StringVal(tv.Value)
						return strings.HasSuffix(v, "'") || strings.HasSuffix(v, "\"")
					}
					isTokenText := func(e ast.Expr) bool {
						c, ok := ast.Unparen(e).(*ast.CallExpr)
						if !ok || len(c.Args) != 1 {
							return false
						}
						if tv, ok := pk.TypesInfo.Types[c.Fun]; !ok || !tv.IsType() {
							return false
						}
						s, ok := c.Args[0].(*ast.SelectorExpr)
						return ok && s.Sel.Name == "bytes"
					}
					if isQuote(x.X) && isTokenText(x.Y) {
						n++
						line := pk.Fset.Position(x.Pos())
						prod := yaccProductionAt(line.Filename, line.Line)
						if why, ok := r136ConfirmedConcat[prod]; ok {
							r.Confirmed("R13.6", "parser action of "+prod, "quote + string(token bytes)", p.Pos(x.Pos()), why)
						} else {
							r.Bad("R13.6", "parser action of "+prod, "quote + string(token bytes)", p.Pos(x.Pos()), "a parser action builds quoted text by wrapping the raw bytes of a token in quote characters: a quote inside the token ends the literal early when the statement is printed")
						}
					}
				}
				return true
			})
		}
	}
	if n < 3 {
		r.Bad("R13.6", "sqlparser", "quoted verbs", "-", fmt.Sprintf("%d quote-wrapped verbs / concatenations found, at least 3 confirmed by reading (X'..', B'..', E'..')", n))
	}
}

// yaccProductionAt: the left-hand side of the grammar production whose action contains the given line (the position
// comes from the //line directives of the generated parser, so file is the .y grammar).
func yaccProductionAt(file string, line int) string {
	data, err := os.ReadFile(file)
	if err != nil {
		return "?"
	}
	lines := strings.Split(string(data), "\n")
	for i := line - 1; i >= 0 && i < len(lines); i-- {
		l := strings.TrimSpace(lines[i])
		if strings.HasSuffix(l, ":") && !strings.ContainsAny(l, " {}$") {
			return strings.TrimSuffix(l, ":")
		}
	}
	return "?"
}

func init() {
	mut("C13", "SHOW ... LIKE pattern printed between quotes as it is (original defect)", "sqlparser/ast_methods.go", "		buf.Myprintf(\"like %v\", NewStrVal([]byte(node.Like)))", "		buf.Myprintf(\"like '%s'\", node.Like)", "R13.6", "ShowFilter")
	mut("C13", "PREPARE ... FROM prints the inner statement between quotes as it is (original defect)", "sqlparser/ast_methods.go", "			buf.Myprintf(\"prepare %v from %v\", node.PreparedStatementName, NewStrVal([]byte(query)))", "			_ = query\n			buf.Myprintf(\"prepare %v from '%v'\", node.PreparedStatementName, node.PreparedStatementQuery)", "R13.6", "Prepare")
	mut("C13", "group_concat separator built by wrapping the token in quotes (original defect)", "sqlparser/sql.go", "			yyVAL.str = \" separator \" + String(NewStrVal(yyDollar[2].bytes))", "			yyVAL.str = \" separator '\" + string(yyDollar[2].bytes) + \"'\"", "R13.6", "separator_opt")
}

// ---- R13.7
func ruleR137(p *Program, r *Report) {
	fn := p.Func("sqlparser.(*Tokenizer).scanString")
	if fn == nil || fn.Blocks == nil {
		r.Anchor("R13.7", "sqlparser.(*Tokenizer).scanString")
		return
	}
	writesBackslash := func(b *ssa.BasicBlock) bool {
		for _, in := range b.Instrs {
			if c, ok := in.(*ssa.Call); ok {
				if co := calleeOfCommon(c.Common()); co != nil && co.Name() == "WriteByte" {
					args := plainArgs(c)
					if len(args) == 1 {
						if k, ok := intConst(args[0]); ok && k == 92 {
							return true
						}
					}
				}
			}
		}
		return false
	}
	for _, wc := range []struct {
		ch   int64
		name string
	}{{37, "%"}, {95, "_"}} {
		ok := false
		for _, b := range fn.Blocks {
			iff, isIf := b.Instrs[len(b.Instrs)-1].(*ssa.If)
			if !isIf {
				continue
			}
			bo, isBo := iff.Cond.(*ssa.BinOp)
			if !isBo || bo.Op != token.EQL {
				continue
			}
			k, isK := intConst(stripAllConv(bo.Y))
			if !isK || k != wc.ch {
				continue
			}
			// the true edge reaches a block that writes the backslash without passing another test of the character class
			seen := map[*ssa.BasicBlock]bool{}
			var dfs func(x *ssa.BasicBlock, d int) bool
			dfs = func(x *ssa.BasicBlock, d int) bool {
				if seen[x] || d > 3 {
					return false
				}
				seen[x] = true
				if writesBackslash(x) {
					return true
				}
				if len(x.Succs) == 1 {
					return dfs(x.Succs[0], d+1)
				}
				return false
			}
			if dfs(b.Succs[0], 0) {
				ok = true
			}
		}
		r.Check(ok, "R13.7", fnName(fn), "backslash kept before an escaped "+wc.name, p.Pos(fn.Pos()), "lastChar == '"+wc.name+"' leads to WriteByte('\\\\')", "the scanner does not keep the backslash of \\"+wc.name+": the escaped wildcard of a LIKE pattern becomes a wildcard when the statement is re-serialised, and a literal holding the sequence is transformed without its backslash")
	}
}

func init() {
	mut("C13", "tokenizer drops the backslash of escaped LIKE wildcards (original defect)", "sqlparser/token.go", "				if tkn.lastChar == '%' || tkn.lastChar == '_' {", "				if false {", "R13.7", "backslash kept")
	mut("C13", "tokenizer keeps the backslash of \\% only", "sqlparser/token.go", "				if tkn.lastChar == '%' || tkn.lastChar == '_' {", "				if tkn.lastChar == '%' {", "R13.7", "escaped _")
}

func init() {
	mut("C13", "searchable rewrite sends != as =", "encryptor/mysql/searchable_query_filter.go", "	case sqlparser.EqualStr, sqlparser.NullSafeEqualStr, sqlparser.LikeStr, sqlparser.ILikeStr:\n		expr.Operator = sqlparser.EqualStr\n	case sqlparser.NotEqualStr, sqlparser.NotLikeStr, sqlparser.NotILikeStr:", "	case sqlparser.EqualStr, sqlparser.NotEqualStr, sqlparser.NullSafeEqualStr, sqlparser.LikeStr, sqlparser.ILikeStr:\n		expr.Operator = sqlparser.EqualStr\n	case sqlparser.NotLikeStr, sqlparser.NotILikeStr:", "R13.3", "ComparisonExpr.Operator")
}
