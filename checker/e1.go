package main

import (
	"golang.org/x/tools/go/callgraph"
	"fmt"
	"go/constant"
	"go/token"
	"go/types"
	"os"
	"strings"

	"golang.org/x/tools/go/ssa"
)

// E1: guarded-bound prover. Decides difference constraints  a <= b + c  between SSA integer
// values, len() terms and constants, from (i) the definitions of the values, (ii) type ranges,
// (iii) every branch condition that dominates the use. Demand-driven in the style of ABCD
// (Bodik, Gupta, Sarkar 2000): an abstract interpretation, no solver.

// term is an SSA value, or len/cap of one, or zero.
type term struct {
	v     ssa.Value // nil = the constant 0
	isLen bool      // len(v)
}

var zeroT = term{}

// provInf stands for "no finite bound needed": large enough for every real length, small enough that
// adding offsets cannot overflow int64.
const provInf = int64(1) << 61

func (t term) String() string {
	if t.v == nil {
		return "0"
	}
	if t.isLen {
		return "len(" + t.v.Name() + ")"
	}
	return t.v.Name()
}

type goalKey struct {
	a, b term
	blk  *ssa.BasicBlock
}

// fact: x <= y + k
type fact struct {
	x, y term
	k    int64
}

type prover struct {
	prog        *Program
	depthIP     int // interprocedural depth (caller guards)
	fn          *ssa.Function
	word        int // bits of int
	facts       map[*ssa.BasicBlock][]fact
	inProg      map[goalKey]int64
	failMemo    map[goalKey]int64
	okMemo      map[goalKey]int64
	cycHits     int
	chain       int
	phiSteps    int
	inProgPhi   map[goalKey]int
	budget      int
	axioms      []fact                  // caller-supplied (class P parameter ranges etc.)
	lenOf       map[ssa.Value]ssa.Value // canonical len-call value -> operand
	constBounds bool                    // also check constant indices/bounds on input buffers (class K)
	classV      bool                    // computed (non-length-field) bounds on received buffers: off — needs library axioms (bytes.Index) and type invariants (Hash.Length) the prover does not have
	vn          map[ssa.Value]ssa.Value // value numbering: load of x.f -> first load of the same x.f (field never stored in fn)
	edgeBlks    map[[2]*ssa.BasicBlock]*ssa.BasicBlock // (pred, succ) -> synthetic block carrying the facts of that conditional edge
	realBlk     map[*ssa.BasicBlock]*ssa.BasicBlock    // synthetic edge block -> the predecessor it leaves
}

// real: the block of the function a (possibly synthetic) fact block stands for, for dominance questions.
func (p *prover) real(b *ssa.BasicBlock) *ssa.BasicBlock {
	if r, ok := p.realBlk[b]; ok {
		return r
	}
	return b
}

func newProver(fn *ssa.Function) *prover { return newProverP(nil, fn, 0) }

func newProverP(prog *Program, fn *ssa.Function, depthIP int) *prover {
	p := &prover{prog: prog, depthIP: depthIP, fn: fn, word: 64, facts: map[*ssa.BasicBlock][]fact{}, lenOf: map[ssa.Value]ssa.Value{}}
	p.numberLoads()
	p.collectFacts()
	return p
}

// numberLoads: go/ssa does no CSE; two loads of the same field of the same object are the same value when the
// function never stores to that field (calls are assumed not to change the decoder's own length fields).
func (p *prover) numberLoads() {
	p.vn = map[ssa.Value]ssa.Value{}
	type key struct {
		base  ssa.Value
		field int
	}
	stores := map[fieldKey][]*ssa.Store{}
	first := map[key]ssa.Value{}
	for _, b := range p.fn.Blocks {
		for _, in := range b.Instrs {
			if st, ok := in.(*ssa.Store); ok {
				if fa, ok := st.Addr.(*ssa.FieldAddr); ok {
					if k, ok := fieldKeyOf(fa.X.Type(), fa.Field); ok {
						stores[k] = append(stores[k], st)
					}
				}
			}
		}
	}
	firstG := map[*ssa.Global]ssa.Value{}
	firstC := map[*ssa.Function]ssa.Value{}
	for _, b := range p.fn.DomPreorder() {
		for _, in := range b.Instrs {
			if c, ok := in.(*ssa.Call); ok && p.prog != nil {
				// a parameterless function that only combines constants and lengths of never-reassigned
				// package variables returns the same number on every call
				if callee := c.Common().StaticCallee(); callee != nil && len(c.Common().Args) == 0 && p.prog.stableNullary(callee) {
					if f, ok := firstC[callee]; ok {
						p.vn[c] = f
					} else {
						firstC[callee] = c
					}
				}
				continue
			}
			u, ok := in.(*ssa.UnOp)
			if !ok || u.Op != token.MUL {
				continue
			}
			if g, ok := u.X.(*ssa.Global); ok && p.prog != nil && p.prog.stableGlobal(g) {
				if f, ok := firstG[g]; ok {
					p.vn[u] = f
				} else {
					firstG[g] = u
				}
				continue
			}
			fa, ok := u.X.(*ssa.FieldAddr)
			if !ok {
				continue
			}
			fk, ok := fieldKeyOf(fa.X.Type(), fa.Field)
			if !ok {
				continue
			}
			k := key{fa.X, fa.Field}
			if f, ok := first[k]; ok {
				// another function may assign the field: then a call between the two loads may have changed it
				if p.prog == nil || !p.prog.storedElsewhere(fk, p.fn) || !p.storingCallBetween(fk, f, u) {
					p.vn[u] = f
					continue
				}
				first[k] = u // start a new run of equal loads from here
				continue
			}
			// a load can serve as the canonical value only if every store to the field executes before it
			allBefore := true
			for _, st := range stores[fk] {
				if !instrBefore(st, u) {
					allBefore = false
				}
			}
			if allBefore {
				first[k] = u
			}
		}
	}
}

// storedElsewhere: some acra function other than self stores to the field.
func (p *Program) storedElsewhere(k fieldKey, self *ssa.Function) bool {
	if p.fieldStoreFns == nil {
		p.fieldStoreFns = map[fieldKey]map[*ssa.Function]bool{}
		for _, fn := range p.srcFns {
			for _, b := range fn.Blocks {
				for _, in := range b.Instrs {
					if st, ok := in.(*ssa.Store); ok {
						if fa, ok := st.Addr.(*ssa.FieldAddr); ok {
							if fk, ok := fieldKeyOf(fa.X.Type(), fa.Field); ok {
								if p.fieldStoreFns[fk] == nil {
									p.fieldStoreFns[fk] = map[*ssa.Function]bool{}
								}
								p.fieldStoreFns[fk][fn] = true
							}
						}
					}
				}
			}
		}
	}
	for fn := range p.fieldStoreFns[k] {
		if fn != self {
			return true
		}
	}
	return false
}

// mayStore: functions from which a function that stores to field k is reachable (reverse closure over the call graph).
func (p *Program) mayStore(k fieldKey) map[*ssa.Function]bool {
	if p.mayStoreC == nil {
		p.mayStoreC = map[fieldKey]map[*ssa.Function]bool{}
	}
	if m, ok := p.mayStoreC[k]; ok {
		return m
	}
	p.storedElsewhere(k, nil)
	out := map[*ssa.Function]bool{}
	var work []*ssa.Function
	for fn := range p.fieldStoreFns[k] {
		out[fn] = true
		work = append(work, fn)
	}
	cg := p.CallGraph()
	for len(work) > 0 {
		fn := work[len(work)-1]
		work = work[:len(work)-1]
		if n := cg.Nodes[fn]; n != nil {
			for _, e := range n.In {
				if e.Caller != nil && e.Caller.Func != nil && !out[e.Caller.Func] {
					out[e.Caller.Func] = true
					work = append(work, e.Caller.Func)
				}
			}
		}
	}
	p.mayStoreC[k] = out
	return out
}

// storingCallBetween: some call in the function that may (transitively) assign field k can execute after load a and before load b.
func (p *prover) storingCallBetween(k fieldKey, a, b ssa.Value) bool {
	ai, ok1 := a.(ssa.Instruction)
	bi, ok2 := b.(ssa.Instruction)
	if !ok1 || !ok2 {
		return true
	}
	ms := p.prog.mayStore(k)
	cg := p.prog.CallGraph()
	node := cg.Nodes[p.fn]
	// call sites of this function that may reach a storing function
	risky := map[ssa.Instruction]bool{}
	if node != nil {
		for _, e := range node.Out {
			if e.Site != nil && e.Callee != nil && e.Callee.Func != nil && ms[e.Callee.Func] {
				risky[e.Site] = true
			}
		}
	}
	for _, blk := range p.fn.Blocks {
		for _, in := range blk.Instrs {
			ci, isCall := in.(ssa.CallInstruction)
			if !isCall {
				continue
			}
			if _, isB := ci.Common().Value.(*ssa.Builtin); isB {
				continue
			}
			// unresolved dynamic calls are risky as well
			if !risky[in] {
				if ci.Common().StaticCallee() != nil || ci.Common().IsInvoke() && node != nil && hasEdgeFor(node, in) {
					continue
				}
				if _, isFn := ci.Common().Value.(*ssa.Function); isFn {
					continue
				}
			}
			after := in.Block() == ai.Block() && instrBefore(ai, in) || in.Block() != ai.Block() && reaches(ai.Block(), in.Block(), nil)
			before := in.Block() == bi.Block() && instrBefore(in, bi) || in.Block() != bi.Block() && reaches(in.Block(), bi.Block(), nil)
			if after && before {
				return true
			}
		}
	}
	return false
}

func hasEdgeFor(n *callgraph.Node, site ssa.Instruction) bool {
	for _, e := range n.Out {
		if e.Site == site {
			return true
		}
	}
	return false
}

// noCallBetween: a and b are in the same block, a first, and nothing between them can run other code.
func noCallBetween(a, b ssa.Value) bool {
	ai, ok1 := a.(ssa.Instruction)
	bi, ok2 := b.(ssa.Instruction)
	if !ok1 || !ok2 || ai.Block() != bi.Block() {
		return false
	}
	seen := false
	for _, in := range ai.Block().Instrs {
		if in == ai {
			seen = true
			continue
		}
		if in == bi {
			return seen
		}
		if !seen {
			continue
		}
		switch x := in.(type) {
		case *ssa.Call:
			if _, isB := x.Call.Value.(*ssa.Builtin); !isB {
				return false
			}
		case *ssa.Go, *ssa.Defer:
			return false
		}
	}
	return false
}

// stableGlobal: a package variable of acra that no function other than a package initialiser ever stores to
// (directly or through its address: the address is only ever loaded from).
func (p *Program) stableGlobal(g *ssa.Global) bool {
	if p.stableG == nil {
		p.stableG = map[*ssa.Global]bool{}
		unstable := map[*ssa.Global]bool{}
		for _, fn := range p.srcFns {
			isInit := fn.Name() == "init" && fn.Synthetic != ""
			for _, b := range fn.Blocks {
				for _, in := range b.Instrs {
					for _, op := range in.Operands(nil) {
						gl, ok := (*op).(*ssa.Global)
						if !ok {
							continue
						}
						if u, isU := in.(*ssa.UnOp); isU && u.Op == token.MUL && u.X == ssa.Value(gl) {
							continue // plain load
						}
						if st, isSt := in.(*ssa.Store); isSt && st.Addr == ssa.Value(gl) && isInit {
							continue
						}
						unstable[gl] = true // stored to outside init, or its address escapes
					}
				}
			}
		}
		for _, pk := range p.SSA.AllPackages() {
			for _, m := range pk.Members {
				if gl, ok := m.(*ssa.Global); ok && isAcraPath(pk.Pkg.Path()) && !unstable[gl] {
					p.stableG[gl] = true
				}
			}
		}
	}
	return p.stableG[g]
}

// stableNullary: fn has no parameters and its single block only loads stable globals, takes lengths,
// adds/subtracts/multiplies constants and returns.
func (p *Program) stableNullary(fn *ssa.Function) bool {
	if p.stableF == nil {
		p.stableF = map[*ssa.Function]bool{}
	}
	if v, ok := p.stableF[fn]; ok {
		return v
	}
	ok := len(fn.Params) == 0 && len(fn.FreeVars) == 0 && len(fn.Blocks) == 1 && isAcraPath(fnPkgPath(fn))
	if ok {
		for _, in := range fn.Blocks[0].Instrs {
			switch x := in.(type) {
			case *ssa.UnOp:
				g, isG := x.X.(*ssa.Global)
				if x.Op != token.MUL || !isG || !p.stableGlobal(g) {
					ok = false
				}
			case *ssa.BinOp, *ssa.Return, *ssa.Convert, *ssa.DebugRef:
			case *ssa.Call:
				if _, isLen := isLenCall(x); !isLen {
					if c := x.Common().StaticCallee(); c == nil || len(x.Common().Args) != 0 || c == fn || !p.stableNullary(c) {
						ok = false
					}
				}
			default:
				ok = false
			}
		}
	}
	p.stableF[fn] = ok
	return ok
}

// needleMinLen: a lower bound of the length of the needle of strings./bytes. Index / LastIndex (0 = unknown).
func (p *prover) needleMinLen(c *ssa.Call) int64 {
	co := calleeOfCommon(c.Common())
	if co == nil || len(c.Common().Args) < 2 {
		return 0
	}
	if co.Name() != "Index" && co.Name() != "LastIndex" {
		return 1
	}
	n := c.Common().Args[1]
	if s, ok := constStringOf(n); ok {
		return int64(len(s))
	}
	// []byte{...} literal, here or as the initial value of a never-reassigned package variable
	lit := func(v ssa.Value) int64 {
		if sl, ok := v.(*ssa.Slice); ok && sl.Low == nil && sl.High == nil {
			if al, ok := sl.X.(*ssa.Alloc); ok {
				if k, ok := arrayLen(al.Type()); ok {
					return k
				}
			}
		}
		return 0
	}
	if k := lit(n); k > 0 {
		return k
	}
	if u, ok := n.(*ssa.UnOp); ok {
		if g, ok := u.X.(*ssa.Global); ok && p.prog != nil && p.prog.stableGlobal(g) {
			if init := g.Pkg.Func("init"); init != nil {
				for _, b := range init.Blocks {
					for _, in := range b.Instrs {
						if st, ok := in.(*ssa.Store); ok && st.Addr == ssa.Value(g) {
							if k := lit(st.Val); k > 0 {
								return k
							}
						}
					}
				}
			}
		}
	}
	return 0
}

// libIndexCall: v is the result of strings./bytes. Index, IndexByte, IndexRune, IndexAny, IndexFunc, LastIndex*:
// returns the haystack and whether a found position is strictly below its length.
func libIndexCall(v ssa.Value) (hay ssa.Value, strict bool, ok bool) {
	c, isC := v.(*ssa.Call)
	if !isC {
		return nil, false, false
	}
	co := calleeOfCommon(c.Common())
	if co == nil || co.Pkg() == nil || (co.Pkg().Path() != "strings" && co.Pkg().Path() != "bytes") {
		return nil, false, false
	}
	n := co.Name()
	if !(strings.HasPrefix(n, "Index") || strings.HasPrefix(n, "LastIndex")) || len(c.Common().Args) < 2 {
		return nil, false, false
	}
	strict = true
	if n == "Index" || n == "LastIndex" {
		// an empty needle is found at len(haystack) by LastIndex and at 0 by Index
		strict = false
		if s, isS := constStringOf(c.Common().Args[1]); isS && len(s) > 0 {
			strict = true
		}
	}
	return c.Common().Args[0], strict, true
}

// strictIndex: libIndexCall's strictness, also recognising a one-element needle held in a literal or a stable package variable.
func (p *prover) strictIndex(c *ssa.Call, strict bool) bool {
	return strict || p.needleMinLen(c) >= 1
}

func intConst(v ssa.Value) (int64, bool) {
	c, ok := v.(*ssa.Const)
	if !ok || c.Value == nil || c.Value.Kind() != constant.Int {
		return 0, false
	}
	if i, ok := constant.Int64Val(c.Value); ok {
		return i, true
	}
	return 0, false
}

func isLenCall(v ssa.Value) (ssa.Value, bool) {
	c, ok := v.(*ssa.Call)
	if !ok {
		return nil, false
	}
	b, ok := c.Call.Value.(*ssa.Builtin)
	if !ok || (b.Name() != "len" && b.Name() != "cap") || len(c.Call.Args) != 1 {
		return nil, false
	}
	return c.Call.Args[0], true
}

func basicInfo(t types.Type) (bits int, unsigned bool, ok bool) {
	b, isB := t.Underlying().(*types.Basic)
	if !isB || b.Info()&types.IsInteger == 0 {
		return 0, false, false
	}
	switch b.Kind() {
	case types.Int8:
		return 8, false, true
	case types.Int16:
		return 16, false, true
	case types.Int32:
		return 32, false, true
	case types.Int64, types.Int:
		return 64, false, true
	case types.Uint8:
		return 8, true, true
	case types.Uint16:
		return 16, true, true
	case types.Uint32:
		return 32, true, true
	case types.Uint64, types.Uint, types.Uintptr:
		return 64, true, true
	}
	return 0, false, false
}

// norm peels constant additions and value-preserving conversions: v == base + off.
func (p *prover) norm(v ssa.Value) (term, int64) {
	var off int64
	for depth := 0; depth < 16; depth++ {
		if r, ok := p.vn[v]; ok {
			v = r
		}
		if c, ok := intConst(v); ok {
			return zeroT, off + c
		}
		if x, ok := isLenCall(v); ok {
			cx := canonLenOperand(x)
			if r, ok := p.vn[cx]; ok {
				cx = r
			}
			return term{cx, true}, off
		}
		switch x := v.(type) {
		case *ssa.BinOp:
			_, uns, _ := basicInfo(x.Type())
			if c, ok := intConst(x.Y); ok && !uns {
				switch x.Op {
				case token.ADD:
					off += c
					v = x.X
					continue
				case token.SUB:
					off -= c
					v = x.X
					continue
				}
			}
			if c, ok := intConst(x.X); ok && x.Op == token.ADD && !uns {
				off += c
				v = x.Y
				continue
			}
		case *ssa.Convert:
			if p.convPreserves(x) {
				v = x.X
				continue
			}
		case *ssa.ChangeType:
			v = x.X
			continue
		}
		break
	}
	if r, ok := p.vn[v]; ok {
		v = r
	}
	return term{v, false}, off
}

// canonLenOperand: value numbering for len(): strip conversions string<->[]byte? (no: lengths equal) and ChangeType.
func canonLenOperand(v ssa.Value) ssa.Value {
	for {
		switch x := v.(type) {
		case *ssa.ChangeType:
			v = x.X
		case *ssa.Convert:
			// []byte(s) / string(b) keep the length
			_, fromS := x.X.Type().Underlying().(*types.Basic)
			_, toSl := x.Type().Underlying().(*types.Slice)
			_, fromSl := x.X.Type().Underlying().(*types.Slice)
			_, toS := x.Type().Underlying().(*types.Basic)
			if (fromS && toSl) || (fromSl && toS) {
				v = x.X
				continue
			}
			return v
		default:
			return v
		}
	}
}

// convPreserves: the numeric value is unchanged by the conversion for every input.
func (p *prover) convPreserves(c *ssa.Convert) bool {
	fb, fu, ok1 := basicInfo(c.X.Type())
	tb, tu, ok2 := basicInfo(c.Type())
	if !ok1 || !ok2 {
		return false
	}
	switch {
	case !fu && !tu:
		return tb >= fb
	case fu && tu:
		return tb >= fb
	case fu && !tu:
		return tb > fb // uint32 -> int64 fine; uint64 -> int not
	case !fu && tu:
		return false // negative values wrap
	}
	return false
}

// collectFacts: for every block, the branch conditions that hold on entry (from dominating Ifs).
func (p *prover) collectFacts() {
	fn := p.fn
	if len(fn.Blocks) == 0 {
		return
	}
	own := map[*ssa.BasicBlock][]fact{}
	for _, b := range fn.Blocks {
		if len(b.Instrs) == 0 {
			continue
		}
		i, ok := b.Instrs[len(b.Instrs)-1].(*ssa.If)
		if !ok {
			continue
		}
		for si, succ := range b.Succs {
			if len(succ.Preds) != 1 {
				continue // the edge is not the only way in: condition not guaranteed
			}
			own[succ] = append(own[succ], p.condFacts(i.Cond, si == 0)...)
		}
	}
	// callee summaries: on the err == nil edge of a call, what the callee guarantees about its integer results
	if p.prog != nil {
		for _, b := range fn.Blocks {
			if len(b.Instrs) == 0 {
				continue
			}
			i, ok := b.Instrs[len(b.Instrs)-1].(*ssa.If)
			if !ok {
				continue
			}
			bo, ok := i.Cond.(*ssa.BinOp)
			if !ok || (bo.Op != token.NEQ && bo.Op != token.EQL) {
				continue
			}
			var errv ssa.Value
			if isNilConst(bo.Y) {
				errv = bo.X
			} else if isNilConst(bo.X) {
				errv = bo.Y
			}
			ex, ok := errv.(*ssa.Extract)
			if !ok {
				continue
			}
			call, ok := ex.Tuple.(*ssa.Call)
			if !ok {
				continue
			}
			nilSucc := b.Succs[1]
			if bo.Op == token.EQL {
				nilSucc = b.Succs[0]
			}
			if len(nilSucc.Preds) != 1 {
				continue
			}
			own[nilSucc] = append(own[nilSucc], p.prog.summaryFacts(call, p.depthIP)...)
		}
	}
	canon := func(t term) term {
		if t.v != nil {
			if r, ok := p.vn[t.v]; ok {
				t.v = r
			}
		}
		return t
	}
	for _, b := range fn.Blocks {
		var fs []fact
		for d := b; d != nil; d = d.Idom() {
			for _, f := range own[d] {
				fs = append(fs, fact{canon(f.x), canon(f.y), f.k})
			}
		}
		p.facts[b] = fs
	}
}

// edgeBlock: the block whose dominating facts may be used when reasoning about the i-th edge of a phi:
// the i-th predecessor, provided the phi's block dominates the point of use (otherwise keep the current block).
func (p *prover) edgeBlock(ph *ssa.Phi, i int, cur *ssa.BasicBlock) *ssa.BasicBlock {
	pb := ph.Block()
	if rc := p.real(cur); i < len(pb.Preds) && (pb == rc || pb.Dominates(rc)) {
		pred := pb.Preds[i]
		// the edge itself may be one arm of a conditional (an `if` without else: the untaken arm goes straight to
		// the join): on it the condition holds with the arm's polarity, besides everything that dominates pred.
		if n := len(pred.Instrs); n > 0 {
			if iff, ok := pred.Instrs[n-1].(*ssa.If); ok && len(pred.Succs) == 2 && pred.Succs[0] != pred.Succs[1] {
				key := [2]*ssa.BasicBlock{pred, pb}
				if eb, ok := p.edgeBlks[key]; ok {
					return eb
				}
				eb := &ssa.BasicBlock{Comment: "edge"}
				fs := append([]fact{}, p.facts[pred]...)
				for _, f := range p.condFacts(iff.Cond, pred.Succs[0] == pb) {
					fs = append(fs, fact{p.canonT(f.x), p.canonT(f.y), f.k})
				}
				if p.edgeBlks == nil {
					p.edgeBlks = map[[2]*ssa.BasicBlock]*ssa.BasicBlock{}
					p.realBlk = map[*ssa.BasicBlock]*ssa.BasicBlock{}
				}
				p.facts[eb] = fs
				p.edgeBlks[key] = eb
				p.realBlk[eb] = pred
				return eb
			}
		}
		return pred
	}
	return cur
}

// backEdgeOK: following the i-th edge of phi ph while the other side of the goal is `other`. Across a back edge the
// SSA names of values defined inside the loop denote the previous round's instances, so facts about them say nothing
// about this round's: induction over a loop-carried value is accepted only against something defined outside the loop.
func (p *prover) backEdgeOK(ph *ssa.Phi, i int, other term) bool {
	pb := ph.Block()
	if i >= len(pb.Preds) || !pb.Dominates(pb.Preds[i]) {
		return true // not a back edge
	}
	in, ok := other.v.(ssa.Instruction)
	if other.v == nil || !ok {
		return true // constant, parameter, free variable, global
	}
	db := in.Block()
	return db != nil && db != pb && db.Dominates(pb)
}

func (p *prover) canonT(t term) term {
	if t.v != nil {
		if r, ok := p.vn[t.v]; ok {
			t.v = r
		}
	}
	return t
}

func (p *prover) lenTerm(v ssa.Value) term {
	c := canonLenOperand(v)
	if r, ok := p.vn[c]; ok {
		c = r
	}
	return term{c, true}
}

// condFacts translates a condition (with polarity) into difference facts.
func (p *prover) condFacts(cond ssa.Value, truth bool) []fact {
	switch c := cond.(type) {
	case *ssa.UnOp:
		if c.Op == token.NOT {
			return p.condFacts(c.X, !truth)
		}
	case *ssa.BinOp:
		op := c.Op
		if !truth {
			switch op {
			case token.LSS:
				op = token.GEQ
			case token.LEQ:
				op = token.GTR
			case token.GTR:
				op = token.LEQ
			case token.GEQ:
				op = token.LSS
			case token.EQL:
				op = token.NEQ
			case token.NEQ:
				op = token.EQL
			default:
				return nil
			}
		}
		if _, _, ok := basicInfo(c.X.Type()); !ok {
			return nil
		}
		// unsigned comparisons are only sound as integer facts when both sides are value-preserved below
		x, xo := p.norm(c.X)
		y, yo := p.norm(c.Y)
		// x+xo OP y+yo
		switch op {
		case token.LSS: // x + xo <= y + yo - 1
			return []fact{{x, y, yo - xo - 1}}
		case token.LEQ:
			return []fact{{x, y, yo - xo}}
		case token.GTR: // y + yo <= x + xo - 1
			return []fact{{y, x, xo - yo - 1}}
		case token.GEQ:
			return []fact{{y, x, xo - yo}}
		case token.EQL:
			return []fact{{x, y, yo - xo}, {y, x, xo - yo}}
		case token.NEQ:
			// r != -1 for a position returned by an Index function (r >= -1): r >= 0
			if y.v == nil && yo-xo == -1 && x.v != nil && !x.isLen {
				if _, _, ok := libIndexCall(x.v); ok {
					return []fact{{zeroT, x, 0}}
				}
			}
			if x.v == nil && xo-yo == -1 && y.v != nil && !y.isLen {
				if _, _, ok := libIndexCall(y.v); ok {
					return []fact{{zeroT, y, 0}}
				}
			}
			// x != k where x >= k is known by type (length or unsigned, k == 0 after normalisation): x >= k+1
			_, xu, _ := basicInfo(c.X.Type())
			if y.v == nil && yo-xo == 0 && x.v != nil && (x.isLen || xu) {
				return []fact{{zeroT, x, -1}}
			}
			if x.v == nil && xo-yo == 0 && y.v != nil && (y.isLen || xu) {
				return []fact{{zeroT, y, -1}}
			}
		}
	}
	return nil
}

// Prove a + ao <= b + bo at block blk.
func (p *prover) Prove(a ssa.Value, ao int64, b ssa.Value, bo int64, blk *ssa.BasicBlock) bool {
	ta, oa := p.termOf(a)
	tb, ob := p.termOf(b)
	p.inProg, p.failMemo, p.okMemo = map[goalKey]int64{}, map[goalKey]int64{}, map[goalKey]int64{}
	p.budget = 30000
	return p.prove(ta, tb, (ob+bo)-(oa+ao), blk, 0)
}

func (p *prover) termOf(v ssa.Value) (term, int64) {
	if v == nil {
		return zeroT, 0
	}
	return p.norm(v)
}

// ProveLen: a + ao <= len(x) + bo
func (p *prover) ProveLen(a ssa.Value, ao int64, x ssa.Value, bo int64, blk *ssa.BasicBlock) bool {
	ta, oa := p.termOf(a)
	p.inProg, p.failMemo, p.okMemo = map[goalKey]int64{}, map[goalKey]int64{}, map[goalKey]int64{}
	p.budget = 30000
	return p.prove(ta, p.lenTerm(x), bo-(oa+ao), blk, 0)
}

// prove a <= b + c (memoised per Prove call: the block is fixed within one call).
func (p *prover) prove(a, b term, c int64, blk *ssa.BasicBlock, depth int) bool {
	if c > provInf {
		c = provInf
	}
	if c < -provInf {
		c = -provInf
	}
	key := goalKey{a, b, blk}
	if p.failMemo != nil {
		if fc, ok := p.failMemo[key]; ok && c <= fc {
			return false
		}
		if oc, ok := p.okMemo[key]; ok && c >= oc {
			return true
		}
	}
	hits := p.cycHits
	res := p.prove1(a, b, c, blk, depth)
	if p.failMemo != nil {
		if res {
			if oc, ok := p.okMemo[key]; !ok || c < oc {
				if p.cycHits == hits {
					p.okMemo[key] = c
				}
			}
		} else if p.cycHits == hits && p.budget > 0 {
			if fc, ok := p.failMemo[key]; !ok || c > fc {
				p.failMemo[key] = c
			}
		}
	}
	return res
}

func (p *prover) prove1(a, b term, c int64, blk *ssa.BasicBlock, depth int) bool {
	if traceProver && depth < 7 {
		fmt.Fprintf(os.Stderr, "%s? %s <= %s + %d   [%s | %s]\n", strings.Repeat("  ", depth), a, b, c, descr(a), descr(b))
	}
	p.budget--
	if depth > 30 || p.budget < 0 {
		return false
	}
	if a == b {
		return c >= 0
	}
	if a.v == nil && b.v == nil {
		return c >= 0
	}
	key := goalKey{a, b, blk}
	if c0, ok := p.inProg[key]; ok {
		// cycle. Sound to assume only for a genuine induction: the goal was reached again through at least
		// one phi (a loop-carried value) and the bound did not get tighter on the way round. A cycle that
		// merely walks facts and definitions in a circle proves nothing.
		p.cycHits++
		return p.phiSteps > p.inProgPhi[key] && c >= c0
	}
	p.inProg[key] = c
	if p.inProgPhi == nil {
		p.inProgPhi = map[goalKey]int{}
	}
	p.inProgPhi[key] = p.phiSteps
	defer func() { delete(p.inProg, key); delete(p.inProgPhi, key) }()

	// --- facts that dominate the use
	for _, f := range append(p.facts[blk], p.axioms...) {
		if f.x == a && f.y == b && f.k <= c {
			return true
		}
	}
	// a length never exceeds MaxInt
	if a.v != nil && a.isLen && b.v == nil && c >= provInf {
		return true
	}
	if a.v == nil && b.v != nil && !b.isLen && c >= 0 {
		// 0 <= result of a function known to return a non-negative number
		if p.nonNegValue(b.v) {
			return true
		}
	}
	// positions returned by strings/bytes Index functions: -1 <= r, and r < len(haystack) (r <= len for a possibly empty needle)
	if b.v != nil && !b.isLen {
		if _, _, ok := libIndexCall(b.v); ok {
			if p.prove(a, zeroT, c-1, blk, depth+1) {
				return true
			}
		}
	}
	if a.v != nil && !a.isLen {
		if hay, strict, ok := libIndexCall(a.v); ok {
			k := c
			if call0, isCall0 := a.v.(*ssa.Call); isCall0 && p.strictIndex(call0, strict) {
				k = c + 1
			}
			// a found position leaves room for the whole needle: r + len(needle) <= len(haystack) once r >= 0 is known
			if call, isCall := a.v.(*ssa.Call); isCall && depth < 6 {
				if L := p.needleMinLen(call); L > 1 && p.prove(zeroT, a, 0, blk, depth+1) {
					k = c + L
				}
			}
			if p.prove(term{canonLenOperand(hay), true}, b, k, blk, depth+1) {
				return true
			}
		}
	}
	if a.v != nil && !a.isLen {
		if lo, hi, ok := p.rangeOfCallResult(a.v); ok {
			_ = lo
			if p.prove(zeroT, b, c-hi, blk, depth+1) {
				return true
			}
		}
	}
	if b.v != nil && !b.isLen {
		if lo, _, ok := p.rangeOfCallResult(b.v); ok {
			if p.prove(a, zeroT, c+lo, blk, depth+1) {
				return true
			}
		}
	}
	// split rule: u + w <= len(x) + c  <=  w <= len(x[u:]) + c   (x[u:] evaluated earlier: 0 <= u <= len(x))
	if a.v != nil && !a.isLen && b.v != nil && b.isLen {
		if bo, ok := a.v.(*ssa.BinOp); ok && bo.Op == token.ADD {
			for _, pair := range [][2]ssa.Value{{bo.X, bo.Y}, {bo.Y, bo.X}} {
				u, w := pair[0], pair[1]
				for _, sl := range p.slicesOf(b.v) {
					_ = sl
					if sl.High == nil && sl.Low != nil && (sl.Block() == p.real(blk) || sl.Block().Dominates(p.real(blk))) {
						// u = Low + d for a constant d: u + w <= len(x) + c  <=  w <= len(x[Low:]) + c - d
						d, same := int64(0), sameValue(sl.Low, u)
						if !same {
							tu, ou := p.norm(u)
							tl, ol := p.norm(sl.Low)
							if tu == tl && tu.v != nil {
								d, same = ou-ol, true
							}
						}
						if !same {
							continue
						}
						tw, ow := p.norm(w)
						if p.prove(tw, term{sl, true}, c-ow-d, blk, depth+1) {
							return true
						}
					}
				}
			}
		}
	}
	// sum rule: u + w <= P + c  when a dominating fact says  w' <= (P - u) + k  with w a faithful conversion of w'
	if a.v != nil && !a.isLen && b.v != nil {
		if bo, ok := a.v.(*ssa.BinOp); ok && bo.Op == token.ADD {
			for _, pair := range [][2]ssa.Value{{bo.X, bo.Y}, {bo.Y, bo.X}} {
				if p.sumRule(pair[0], pair[1], b, c, blk, depth) {
					return true
				}
			}
		}
	}
	// --- upper bounds of a from its definition
	if a.v != nil {
		if a.isLen {
			if p.proveLenUpper(a, b, c, blk, depth) {
				return true
			}
		} else if p.proveDefUpper(a, b, c, blk, depth) {
			return true
		}
	}
	// --- lower bounds of b from its definition
	if b.v != nil {
		if b.isLen {
			// len >= 0
			if p.prove(a, zeroT, c, blk, depth+1) {
				return true
			}
			if p.proveLenLower(a, b, c, blk, depth) {
				return true
			}
		} else if p.proveDefLower(a, b, c, blk, depth) {
			return true
		}
	}
	// --- chaining through dominating facts (bounded chain length)
	if p.chain < 3 {
		p.chain++
		for _, f := range append(p.facts[blk], p.axioms...) {
			if f.x == a && f.y != a {
				if p.prove(f.y, b, c-f.k, blk, depth+1) {
					p.chain--
					return true
				}
			}
		}
		for _, f := range append(p.facts[blk], p.axioms...) {
			if f.y == b && f.x != b && f.x != a {
				if p.prove(a, f.x, c-f.k, blk, depth+1) {
					p.chain--
					return true
				}
			}
		}
		p.chain--
	}
	// --- caller guards (closed world): parameters and lengths of parameters
	if p.prog != nil && !p.prog.noCallers && p.depthIP < 2 && (isParamTerm(a) || isParamTerm(b)) && (a.v == nil || isParamTerm(a)) && (b.v == nil || isParamTerm(b)) {
		if p.proveViaCallers(a, b, c) {
			return true
		}
	}
	return false
}

// stripAllConv removes every integer conversion (faithful or not).
func stripAllConv(v ssa.Value) ssa.Value {
	for {
		switch x := v.(type) {
		case *ssa.Convert:
			v = x.X
		case *ssa.ChangeType:
			v = x.X
		default:
			return v
		}
	}
}

// sumRule: prove u + w <= b + c using a fact  w0 <= S + k  where w0 is w without conversions and S (without
// conversions) is the difference P - u', with P == b and u' == u. The conversions involved are faithful because
// 0 <= P - u is proven (so S is the exact difference) and then w0 <= S <= MaxInt.
func (p *prover) sumRule(u, w ssa.Value, b term, c int64, blk *ssa.BasicBlock, depth int) bool {
	tw0, ow := p.norm(stripAllConv(w))
	if tw0.v != nil && !tw0.isLen {
		t2, o2 := p.norm(stripAllConv(tw0.v))
		tw0, ow = t2, ow+o2
	}
	tu, ou := p.norm(u)
	for _, f := range p.facts[blk] {
		if f.x != tw0 || f.y.v == nil || f.y.isLen {
			continue
		}
		sub, ok := stripAllConv(f.y.v).(*ssa.BinOp)
		if !ok || sub.Op != token.SUB {
			continue
		}
		tp, op := p.norm(sub.X)
		tq, oq := p.norm(sub.Y)
		if tq != tu || tp != b {
			continue
		}
		// the difference must not have wrapped: for unsigned operands that needs q <= P; for signed ones with
		// P a length (0..MaxInt) it is enough that q is not negative
		_, uns, _ := basicInfo(sub.Type())
		if uns || !tp.isLen {
			if !p.prove(tq, tp, op-oq, blk, depth+1) {
				continue
			}
		} else if !p.prove(zeroT, tq, oq, blk, depth+1) && !p.prove(tq, tp, op-oq, blk, depth+1) {
			continue
		}
		// u + w = (tu+ou) + (w0+ow') ; w0 <= (tp+op) - (tq+oq) + k  =>  u + w <= tp + op + (ou-oq) + ow + k
		if op+(ou-oq)+ow+f.k <= c {
			return true
		}
	}
	return false
}

func isParamTerm(t term) bool {
	if t.v == nil {
		return false
	}
	_, ok := t.v.(*ssa.Parameter)
	return ok
}

func sameValue(a, b ssa.Value) bool {
	if a == b {
		return true
	}
	ca, ok1 := intConst(a)
	cb, ok2 := intConst(b)
	return ok1 && ok2 && ca == cb
}

// slicesOf lists Slice instructions of the function whose operand is x (canonical).
func (p *prover) slicesOf(x ssa.Value) []*ssa.Slice {
	var out []*ssa.Slice
	for _, b := range p.fn.Blocks {
		for _, in := range b.Instrs {
			if sl, ok := in.(*ssa.Slice); ok && p.lenTerm(sl.X).v == x {
				out = append(out, sl)
			}
		}
	}
	return out
}

// nonNegValue: results that are non-negative by contract (frozen table, justified where the value is produced).
var nonNegResults = map[string]string{
	"encryptor/base/config.BasicColumnEncryptionSetting.GetPartialPlaintextLen": "ValidateMaskingParams rejects a negative plaintext_length for every masked setting (R11.4)",
	"encryptor/base/config.ColumnEncryptionSetting.GetPartialPlaintextLen":      "ValidateMaskingParams rejects a negative plaintext_length for every masked setting (R11.4)",
	"crypto/sha256.Size": "", "hash.Hash.Size": "hash sizes are positive",
	"acrastruct.GetMinAcraStructLength": "sum of positive constants",
}

func (p *prover) nonNegValue(v ssa.Value) bool {
	var call *ssa.Call
	switch x := v.(type) {
	case *ssa.Call:
		call = x
	case *ssa.Extract:
		call, _ = x.Tuple.(*ssa.Call)
	}
	if call == nil {
		return false
	}
	co := calleeOfCommon(call.Common())
	if co == nil {
		return false
	}
	if _, ok := nonNegResults[funcFullName(co)]; ok {
		return true
	}
	switch co.FullName() {
	case "copy", "(*bytes.Buffer).Len", "(*bytes.Reader).Len", "(hash.Hash).Size", "(io.Reader).Read", "(io.Writer).Write":
		return true
	}
	return false
}

// rangeOfCallResult: value range of a call result derived from the callee's body: every return yields a
// value-preserving conversion of an unsigned value narrower than 64 bits (e.g. int(binary.Uint16(..))).
func (p *prover) rangeOfCallResult(v ssa.Value) (int64, int64, bool) {
	if p.prog == nil {
		return 0, 0, false
	}
	var call *ssa.Call
	idx := 0
	switch x := v.(type) {
	case *ssa.Call:
		call = x
	case *ssa.Extract:
		call, _ = x.Tuple.(*ssa.Call)
		idx = x.Index
	}
	if call == nil {
		return 0, 0, false
	}
	callee := call.Common().StaticCallee()
	if callee == nil || callee.Blocks == nil {
		return 0, 0, false
	}
	var hi int64 = -1
	var lo int64 = provInf
	for _, ret := range returnsOf(callee) {
		if isRecoverBlock(ret.Block()) || idx >= len(ret.Results) {
			continue
		}
		rv := retValue(ret, idx)
		if c, ok := intConst(rv); ok {
			if c < 0 {
				return 0, 0, false
			}
			if c > hi {
				hi = c
			}
			if c < lo {
				lo = c
			}
			continue
		}
		cv, ok := rv.(*ssa.Convert)
		if !ok {
			return 0, 0, false
		}
		fb, fu, ok := basicInfo(cv.X.Type())
		tb, tu, ok2 := basicInfo(cv.Type())
		if !ok || !ok2 || !fu || fb >= 63 || (!tu && tb <= fb) {
			return 0, 0, false
		}
		lo = 0
		if m := int64(1)<<fb - 1; m > hi {
			hi = m
		}
	}
	if hi < 0 {
		return 0, 0, false
	}
	return lo, hi, true
}

// proveViaCallers: a <= b + c where a, b are parameters, lengths of parameters or zero: must hold at every call site.
func (p *prover) proveViaCallers(a, b term, c int64) bool {
	_, callers := p.prog.callSites()
	var sites []ssa.CallInstruction
	for _, site := range callers[p.fn] {
		if par := site.Parent(); par != nil && par.Synthetic != "" && len(callers[par]) == 0 {
			continue // compiler-generated wrapper that nothing calls
		}
		sites = append(sites, site)
	}
	if len(sites) == 0 {
		return false
	}
	for _, site := range sites {
		cc := site.Common()
		caller := site.Parent()
		if caller != nil && caller.Synthetic != "" {
			return false // reached through a wrapper that is itself called: not followed
		}
		if caller == nil || caller.Blocks == nil {
			return false
		}
		argOf := func(t term) (term, bool) {
			if t.v == nil {
				return zeroT, true
			}
			idx := paramIndex(p.fn, t.v)
			if cc.IsInvoke() {
				if idx == 0 {
					return term{cc.Value, t.isLen}, true
				}
				idx-- // invoke: the receiver is not in Args
			}
			if idx < 0 || idx >= len(cc.Args) {
				return term{}, false
			}
			return term{cc.Args[idx], t.isLen}, true
		}
		ta, ok1 := argOf(a)
		tb, ok2 := argOf(b)
		if !ok1 || !ok2 {
			return false
		}
		cp := p.prog.proverFor(caller, p.depthIP+1)
		var oa, ob int64
		if !ta.isLen && ta.v != nil {
			ta, oa = cp.norm(ta.v)
		} else if ta.isLen {
			ta = term{canonLenOperand(ta.v), true}
		}
		if !tb.isLen && tb.v != nil {
			tb, ob = cp.norm(tb.v)
		} else if tb.isLen {
			tb = term{canonLenOperand(tb.v), true}
		}
		cp.inProg, p.failMemo, p.okMemo = map[goalKey]int64{}, map[goalKey]int64{}, map[goalKey]int64{}
		cp.budget = 20000
		if !cp.prove(ta, tb, c+ob-oa, site.Block(), 0) {
			return false
		}
	}
	return true
}

// a (a plain value) <= b + c through a's definition.
func (p *prover) proveDefUpper(a, b term, c int64, blk *ssa.BasicBlock, depth int) bool {
	bits, uns, isInt := basicInfo(a.v.Type())
	switch x := a.v.(type) {
	case *ssa.Phi:
		// on the path through edge i every fact that dominates the i-th predecessor holds
		p.phiSteps++
		defer func() { p.phiSteps-- }()
		for i, e := range x.Edges {
			te, oe := p.norm(e)
			if !p.backEdgeOK(x, i, b) || !p.prove(te, b, c-oe, p.edgeBlock(x, i, blk), depth+1) {
				return false
			}
		}
		return true
	case *ssa.BinOp:
		switch x.Op {
		case token.REM:
			if m, ok := intConst(x.Y); ok && m > 0 {
				// a <= m-1 (and >= -(m-1))
				return p.prove(zeroT, b, c-(m-1), blk, depth+1)
			}
		case token.AND:
			if m, ok := intConst(x.Y); ok && m >= 0 {
				return p.prove(zeroT, b, c-m, blk, depth+1)
			}
			if m, ok := intConst(x.X); ok && m >= 0 {
				return p.prove(zeroT, b, c-m, blk, depth+1)
			}
		case token.SHR:
			// x >> k <= x for x >= 0
			tx, ox := p.norm(x.X)
			if p.prove(zeroT, tx, ox, blk, depth+1) {
				return p.prove(tx, b, c-ox, blk, depth+1)
			}
		case token.SUB:
			// a = x - y with y >= 0  => a <= x
			if !uns {
				ty, oy := p.norm(x.Y)
				if p.prove(zeroT, ty, oy, blk, depth+1) { // 0 <= y
					tx, ox := p.norm(x.X)
					if p.prove(tx, b, c-ox, blk, depth+1) {
						return true
					}
				}
				// a = x - y, and want a <= b + c where b == x's base ... covered above; also y >= k
			}
		case token.ADD:
			// a = x + y with y <= K (constant bound via facts) : try y's upper const bound 0 only for negatives; skip
		case token.QUO:
			if m, ok := intConst(x.Y); ok && m >= 1 {
				tx, ox := p.norm(x.X)
				if p.prove(zeroT, tx, ox, blk, depth+1) {
					return p.prove(tx, b, c-ox, blk, depth+1)
				}
			}
		}
	case *ssa.Call:
		if bi, ok := x.Call.Value.(*ssa.Builtin); ok && bi.Name() == "min" {
			for _, arg := range x.Call.Args {
				ta, oa := p.norm(arg)
				if p.prove(ta, b, c-oa, blk, depth+1) {
					return true
				}
			}
		}
	case *ssa.Convert:
		// narrowing or sign-changing conversion of a value proven to fit keeps the value
		fb, fu, ok := basicInfo(x.X.Type())
		if ok && isInt {
			tx, ox := p.norm(x.X)
			fits := false
			if fu {
				// source >= 0; fits if source <= MaxOfTarget
				var maxT int64 = provInf
				if !uns && bits < 64 {
					maxT = 1<<(bits-1) - 1
				} else if uns && bits < 64 {
					maxT = 1<<bits - 1
				}
				fits = p.prove(tx, zeroT, maxT-ox, blk, depth+1)
			} else if !uns || fb > 0 {
				// signed source into unsigned/narrower target: need 0 <= src (and src <= max)
				if uns {
					fits = p.prove(zeroT, tx, ox, blk, depth+1)
				} else if bits >= fb {
					fits = true
				}
			}
			if fits {
				return p.prove(tx, b, c-ox, blk, depth+1)
			}
		}
	}
	// integers assembled from bytes: at most as many bits as were put in
	if mb := maxBits(a.v, 0); mb > 0 && mb < 62 {
		if p.prove(zeroT, b, c-(int64(1)<<mb-1), blk, depth+1) {
			return true
		}
	}
	// type range: unsigned N-bit <= 2^N - 1
	if isInt && uns && bits < 63 {
		if p.prove(zeroT, b, c-(1<<bits-1), blk, depth+1) {
			return true
		}
	}
	if isInt && !uns && bits < 63 {
		if p.prove(zeroT, b, c-(1<<(bits-1)-1), blk, depth+1) {
			return true
		}
	}
	return false
}

// a <= b + c through b's definition (lower bounds of b).
func (p *prover) proveDefLower(a, b term, c int64, blk *ssa.BasicBlock, depth int) bool {
	bits, uns, isInt := basicInfo(b.v.Type())
	_ = bits
	switch x := b.v.(type) {
	case *ssa.Phi:
		p.phiSteps++
		defer func() { p.phiSteps-- }()
		for i, e := range x.Edges {
			te, oe := p.norm(e)
			if !p.backEdgeOK(x, i, a) || !p.prove(a, te, c+oe, p.edgeBlock(x, i, blk), depth+1) {
				return false
			}
		}
		return true
	case *ssa.Call:
		if bi, ok := x.Call.Value.(*ssa.Builtin); ok && bi.Name() == "max" {
			for _, arg := range x.Call.Args {
				ta, oa := p.norm(arg)
				if p.prove(a, ta, c+oa, blk, depth+1) {
					return true
				}
			}
		}
	case *ssa.BinOp:
		switch x.Op {
		case token.REM, token.AND, token.SHR, token.QUO:
			// result >= 0 when the left operand is >= 0 (REM, SHR, QUO by positive) or mask non-negative
			if !uns {
				if x.Op == token.AND {
					if m, ok := intConst(x.Y); ok && m >= 0 {
						return p.prove(a, zeroT, c, blk, depth+1)
					}
				}
				tx, ox := p.norm(x.X)
				if p.prove(zeroT, tx, ox, blk, depth+1) {
					return p.prove(a, zeroT, c, blk, depth+1)
				}
			}
		case token.ADD:
			// 0 <= x + y when both are non-negative (linear special case, tried first)
			if !uns && a.v == nil && c >= 0 {
				tx, ox := p.norm(x.X)
				ty, oy := p.norm(x.Y)
				if p.prove(zeroT, tx, ox, blk, depth+1) && p.prove(zeroT, ty, oy, blk, depth+1) {
					return true
				}
				return false
			}
			// b = x + y with y >= 0 => b >= x
			if !uns {
				ty, oy := p.norm(x.Y)
				if p.prove(zeroT, ty, oy, blk, depth+1) {
					tx, ox := p.norm(x.X)
					if p.prove(a, tx, c+ox, blk, depth+1) {
						return true
					}
				}
				tx, ox := p.norm(x.X)
				if p.prove(zeroT, tx, ox, blk, depth+1) {
					ty, oy := p.norm(x.Y)
					if p.prove(a, ty, c+oy, blk, depth+1) {
						return true
					}
				}
			}
		case token.SUB:
			// b = x - y:   a <= x - y + c  when a == 0:  y <= x + c
			if !uns && a.v == nil {
				tx, ox := p.norm(x.X)
				ty, oy := p.norm(x.Y)
				if p.prove(ty, tx, c+ox-oy, blk, depth+1) {
					return true
				}
			}
		}
	case *ssa.Convert:
		fb, fu, ok := basicInfo(x.X.Type())
		_ = fb
		if ok && isInt {
			tx, ox := p.norm(x.X)
			fits := false
			if fu {
				var maxT int64 = provInf
				if !uns && bits < 64 {
					maxT = 1<<(bits-1) - 1
				} else if uns && bits < 64 {
					maxT = 1<<bits - 1
				}
				fits = p.prove(tx, zeroT, maxT-ox, blk, depth+1)
			} else if uns {
				fits = p.prove(zeroT, tx, ox, blk, depth+1)
			} else if bits >= fb {
				fits = true
			}
			if fits {
				return p.prove(a, tx, c+ox, blk, depth+1)
			}
		}
	}
	if isInt && uns {
		// b >= 0
		if p.prove(a, zeroT, c, blk, depth+1) {
			return true
		}
	}
	return false
}

// len(x) as a: upper bounds.  len(s[lo:hi]) == hi - lo ; len(make(n)) == n ; len(const) etc.
func (p *prover) proveLenUpper(a, b term, c int64, blk *ssa.BasicBlock, depth int) bool {
	switch x := a.v.(type) {
	case *ssa.Slice:
		lo, hasLo := int64(0), true
		if x.Low != nil {
			lo, hasLo = intConstOr(x.Low)
		}
		if x.High == nil {
			base := term{canonLenOperand(x.X), true}
			if hasLo {
				return p.prove(base, b, c+lo, blk, depth+1)
			}
			// len(x[lo:]) = len(x) - lo <= len(x) when lo >= 0
			return p.prove(base, b, c, blk, depth+1)
		}
		th, oh := p.norm(x.High)
		if hasLo {
			return p.prove(th, b, c-oh+lo, blk, depth+1)
		}
		return p.prove(th, b, c-oh, blk, depth+1)
	case *ssa.MakeSlice:
		tl, ol := p.norm(x.Len)
		return p.prove(tl, b, c-ol, blk, depth+1)
	case *ssa.Const:
		if x.Value != nil && x.Value.Kind() == constant.String {
			n := int64(len(constant.StringVal(x.Value)))
			return p.prove(zeroT, b, c-n, blk, depth+1)
		}
	case *ssa.Phi:
		p.phiSteps++
		defer func() { p.phiSteps-- }()
		for i, e := range x.Edges {
			if !p.backEdgeOK(x, i, b) || !p.prove(term{canonLenOperand(e), true}, b, c, p.edgeBlock(x, i, blk), depth+1) {
				return false
			}
		}
		return true
	}
	if arr, ok := arrayLen(a.v.Type()); ok {
		return p.prove(zeroT, b, c-arr, blk, depth+1)
	}
	return false
}

// a <= len(x) + c through len's definition (lower bounds of len).
func (p *prover) proveLenLower(a, b term, c int64, blk *ssa.BasicBlock, depth int) bool {
	switch x := b.v.(type) {
	case *ssa.Slice:
		lo, hasLo := int64(0), true
		if x.Low != nil {
			lo, hasLo = intConstOr(x.Low)
		}
		if x.High == nil && hasLo {
			return p.prove(a, term{canonLenOperand(x.X), true}, c-lo, blk, depth+1)
		}
		if x.High != nil && hasLo {
			th, oh := p.norm(x.High)
			return p.prove(a, th, c+oh-lo, blk, depth+1)
		}
		if x.High == nil && !hasLo {
			// len(x[lo:]) = len(x) - lo ; 0 <= len(x) - lo + c  <=>  lo <= len(x) + c
			if a == zeroT {
				if _, isArr := x.X.Type().Underlying().(*types.Pointer); !isArr {
					tl, ol := p.norm(x.Low)
					return p.prove(tl, term{canonLenOperand(x.X), true}, c-ol, blk, depth+1)
				}
			}
			return false
		}
		if x.High != nil && !hasLo && a == zeroT {
			// len(x[lo:hi]) = hi - lo ; 0 <= hi - lo + c  <=>  lo <= hi + c
			tl, ol := p.norm(x.Low)
			th, oh := p.norm(x.High)
			return p.prove(tl, th, c+oh-ol, blk, depth+1)
		}
	case *ssa.MakeSlice:
		tl, ol := p.norm(x.Len)
		return p.prove(a, tl, c+ol, blk, depth+1)
	case *ssa.Const:
		if x.Value != nil && x.Value.Kind() == constant.String {
			n := int64(len(constant.StringVal(x.Value)))
			return p.prove(a, zeroT, c+n, blk, depth+1)
		}
	case *ssa.Phi:
		p.phiSteps++
		defer func() { p.phiSteps-- }()
		for i, e := range x.Edges {
			if !p.backEdgeOK(x, i, a) || !p.prove(a, term{canonLenOperand(e), true}, c, p.edgeBlock(x, i, blk), depth+1) {
				return false
			}
		}
		return true
	}
	if arr, ok := arrayLen(b.v.Type()); ok {
		return p.prove(a, zeroT, c+arr, blk, depth+1)
	}
	return false
}

func intConstOr(v ssa.Value) (int64, bool) {
	if v == nil {
		return 0, true
	}
	return intConst(v)
}

func arrayLen(t types.Type) (int64, bool) {
	if pt, ok := t.Underlying().(*types.Pointer); ok {
		t = pt.Elem()
	}
	if a, ok := t.Underlying().(*types.Array); ok {
		return a.Len(), true
	}
	return 0, false
}

// ---- sinks -------------------------------------------------------------------

type boundSink struct {
	Instr     ssa.Instruction
	Kind      string // index | slice | make
	Container ssa.Value
	Idx       ssa.Value // index
	Lo, Hi    ssa.Value // slice bounds (nil = absent)
	Len       ssa.Value // make length
	Width     int64     // fixed: bytes the callee reads/writes at the start of Container
}

// fixedWidthAccess recognises encoding/binary's fixed-width byte order accessors.
func fixedWidthAccess(c *ssa.Call) (int64, ssa.Value) {
	co := calleeOfCommon(c.Common())
	if co == nil || co.Pkg() == nil || co.Pkg().Path() != "encoding/binary" {
		return 0, nil
	}
	recv := co.Type().(*types.Signature).Recv()
	if recv == nil {
		return 0, nil
	}
	var n int64
	switch strings.TrimPrefix(co.Name(), "Put") {
	case "Uint16":
		n = 2
	case "Uint32":
		n = 4
	case "Uint64":
		n = 8
	default:
		return 0, nil
	}
	args := c.Common().Args
	if c.Common().IsInvoke() {
		if len(args) < 1 {
			return 0, nil
		}
		return n, args[0]
	}
	if len(args) < 2 {
		return 0, nil
	}
	return n, args[1]
}

func boundSinks(fn *ssa.Function) []boundSink {
	var out []boundSink
	for _, b := range fn.Blocks {
		for _, in := range b.Instrs {
			switch x := in.(type) {
			case *ssa.IndexAddr:
				out = append(out, boundSink{Instr: x, Kind: "index", Container: x.X, Idx: x.Index})
			case *ssa.Index:
				out = append(out, boundSink{Instr: x, Kind: "index", Container: x.X, Idx: x.Index})
			case *ssa.Slice:
				out = append(out, boundSink{Instr: x, Kind: "slice", Container: x.X, Lo: x.Low, Hi: x.High})
			case *ssa.MakeSlice:
				out = append(out, boundSink{Instr: x, Kind: "make", Len: x.Len})
			case *ssa.Call:
				// binary.{Little,Big}Endian.UintN(b) / PutUintN(b, v) index b[N/8-1] unconditionally
				if n, buf := fixedWidthAccess(x); n > 0 {
					out = append(out, boundSink{Instr: x, Kind: "fixed", Container: buf, Width: n})
				}
			}
		}
	}
	return out
}

// risky: classifies why a bound needs a proof. "" = not risky (constant, len, range index, ...).
func (p *prover) risky(v ssa.Value, classP map[ssa.Value]bool) string {
	if v == nil {
		return ""
	}
	if _, ok := intConst(v); ok {
		return ""
	}
	seen := map[ssa.Value]bool{}
	why := ""
	var walk func(v ssa.Value, depth int)
	walk = func(v ssa.Value, depth int) {
		if v == nil || seen[v] || why != "" || depth > 14 {
			return
		}
		seen[v] = true
		if classP[v] {
			why = "P: index chosen by the caller (" + v.Name() + ")"
			return
		}
		switch x := v.(type) {
		case *ssa.Const, *ssa.Parameter, *ssa.FreeVar, *ssa.Global:
			return
		case *ssa.Call:
			if _, ok := isLenCall(x); ok {
				return
			}
			if co := calleeOfCommon(x.Common()); co != nil {
				full := co.FullName()
				if strings.HasPrefix(full, "(encoding/binary.") && (strings.Contains(full, ").Uint") || strings.Contains(full, ").Varint") || strings.Contains(full, ").Uvarint")) {
					why = "T: decoded from input by " + co.Name()
					return
				}
				if (strings.HasPrefix(full, "strings.") || strings.HasPrefix(full, "bytes.")) && (strings.HasPrefix(co.Name(), "Index") || strings.HasPrefix(co.Name(), "LastIndex")) {
					why = "N: position from " + co.Name() + ", -1 when nothing is found"
					return
				}
				if strings.HasPrefix(full, "strconv.") || full == "encoding/binary.Read" {
					why = "T: parsed from input by " + co.Name()
					return
				}
				if tSummary[funcFullName(co)] {
					why = "T: length taken from input by " + funcFullName(co)
					return
				}
			}
			return
		case *ssa.Extract:
			if nx, ok := x.Tuple.(*ssa.Next); ok && !nx.IsString && x.Index == 1 {
				if rg, ok := nx.Iter.(*ssa.Range); ok {
					if _, isMap := rg.X.Type().Underlying().(*types.Map); isMap {
						why = "M: key of a map (whatever number was stored as a key)"
						return
					}
				}
			}
			walk(x.Tuple, depth+1)
		case *ssa.BinOp:
			switch x.Op {
			case token.SUB:
				if _, ok := intConst(x.Y); !ok {
					why = "S: difference " + x.X.Name() + " - " + x.Y.Name()
					return
				}
				// x - const: may go negative
				if _, ok := isLenCall(x.X); ok {
					why = "S: len - constant"
					return
				}
				walk(x.X, depth+1)
			case token.SHL, token.OR:
				// manual integer assembly from bytes
				if isByteLoad(x.X) || isByteLoad(x.Y) {
					why = "T: integer assembled from input bytes"
					return
				}
				walk(x.X, depth+1)
				walk(x.Y, depth+1)
			default:
				walk(x.X, depth+1)
				walk(x.Y, depth+1)
			}
		case *ssa.Convert:
			fb, fu, ok := basicInfo(x.X.Type())
			tb, tu, ok2 := basicInfo(x.Type())
			if ok && ok2 && !p.convPreserves(x) && !(fb == 8 && fu) {
				_ = tb
				_ = tu
				// narrowing / sign change of something that is not a constant
				inner := ""
				walk(x.X, depth+1)
				inner = why
				if inner == "" && isByteLoad(x.X) {
					return
				}
				if inner == "" {
					if _, isLen := isLenCall(x.X); !isLen {
						why = "T: lossy conversion " + x.X.Type().String() + " -> " + x.Type().String()
					}
				}
				return
			}
			walk(x.X, depth+1)
		case *ssa.Phi:
			// loop-carried cursors are followed too: the prover closes their invariants by induction over the phi
			// (a goal met again through a phi with a bound that did not tighten) when the loop re-checks the cursor
			// against the buffer on every round; a cursor bounded only by a relational pre-check stays unproven.
			for _, e := range x.Edges {
				walk(e, depth+1)
			}
		case *ssa.UnOp:
			if x.Op == token.MUL {
				// load: field of a decoder struct carrying a decoded length
				if _, f, ok := fieldOfLoad(x); ok && tFields[f] {
					why = "T: field " + f + " holds a length decoded from input"
				}
				return
			}
			walk(x.X, depth+1)
		case *ssa.ChangeType:
			walk(x.X, depth+1)
		}
	}
	walk(v, 0)
	return why
}

func isByteLoad(v ssa.Value) bool {
	for {
		if c, ok := v.(*ssa.Convert); ok {
			v = c.X
			continue
		}
		break
	}
	u, ok := v.(*ssa.UnOp)
	if !ok || u.Op != token.MUL {
		return false
	}
	_, ok = u.X.(*ssa.IndexAddr)
	if !ok {
		return false
	}
	b, isB := u.Type().Underlying().(*types.Basic)
	return isB && b.Kind() == types.Uint8
}

// functions whose integer result is a length taken from the input (class T summaries, confirmed by reading)
var tSummary = map[string]bool{
	"acrastruct.GetDataLengthFromAcraStruct":               true,
	"acrablock.AcraBlock.EncryptedDataEncryptionKeyLength": true,
	"decryptor/mysql/base.LengthEncodedInt":                true,
	"decryptor/postgresql.ColumnData.Length":               true,
	"utils.ReadDataLength":                                 true,
	"decryptor/mysql/base.LengthEncodedString":             true,
	"decryptor/mysql/base.SkipLengthEncodedString":         true,
	"crypto.ExtractSerializedContainer":                    true,
	"acrablock.ExtractAcraBlockFromData":                   true,
}

// struct fields that carry a decoded length between functions
var tFields = map[string]bool{"dataLength": true, "columnCount": true}

// Obligation outcome for one sink.
type boundVerdict struct {
	Sink    boundSink
	Why     string // risk class
	Proven  bool
	Missing string
}

// CheckSinks proves every risky sink of fn.
func (p *prover) CheckSinks(classP map[ssa.Value]bool) []boundVerdict {
	var out []boundVerdict
	for _, s := range boundSinks(p.fn) {
		blk := s.Instr.Block()
		switch s.Kind {
		case "index":
			why := p.risky(s.Idx, classP)
			if why == "" && p.constBounds && inputContainer(s.Container) {
				if _, isC := intConst(s.Idx); isC {
					why = "K: constant index into a buffer received from outside"
				} else if p.variableBound(s.Idx) {
					why = "V: computed index into a buffer received from outside"
				}
			}
			if why == "" {
				continue
			}
			v := boundVerdict{Sink: s, Why: why, Proven: true}
			if !p.Prove(nil, 0, s.Idx, 0, blk) {
				v.Proven, v.Missing = false, "0 <= index"
			} else if !p.proveUpperIdx(s.Idx, s.Container, blk) {
				v.Proven, v.Missing = false, "index < len"
			}
			out = append(out, v)
		case "slice":
			whyLo, whyHi := p.risky(s.Lo, classP), p.risky(s.Hi, classP)
			if whyLo == "" && whyHi == "" && p.constBounds && inputContainer(s.Container) {
				_, loC := intConstOr(s.Lo)
				_, hiC := intConstOr(s.Hi)
				if loC && hiC && !(s.Lo == nil && s.Hi == nil) {
					if c, _ := intConstOr(s.Hi); s.Hi != nil && c > 0 {
						whyHi = "K: constant bound on a buffer received from outside"
					} else if c, _ := intConstOr(s.Lo); s.Lo != nil && c > 0 {
						whyLo = "K: constant bound on a buffer received from outside"
					}
				}
			}
			if whyLo == "" && whyHi == "" && p.constBounds && inputContainer(s.Container) {
				if p.variableBound(s.Hi) {
					whyHi = "V: computed bound on a buffer received from outside"
				} else if p.variableBound(s.Lo) {
					whyLo = "V: computed bound on a buffer received from outside"
				}
			}
			if whyLo == "" && whyHi == "" {
				continue
			}
			why := whyLo
			if why == "" {
				why = whyHi
			}
			v := boundVerdict{Sink: s, Why: why, Proven: true}
			capOK := func(x ssa.Value) bool { // x <= len(container)  (cap >= len; we prove against len)
				return p.ProveLen(x, 0, s.Container, 0, blk) || p.proveArrayBound(x, s.Container, blk)
			}
			if s.Lo != nil && !p.Prove(nil, 0, s.Lo, 0, blk) {
				v.Proven, v.Missing = false, "0 <= low"
			}
			if v.Proven && s.Hi != nil {
				if !capOK(s.Hi) {
					v.Proven, v.Missing = false, "high <= len"
				}
				if v.Proven && s.Lo != nil && !p.Prove(s.Lo, 0, s.Hi, 0, blk) {
					v.Proven, v.Missing = false, "low <= high"
				}
				if v.Proven && s.Lo == nil && !p.Prove(nil, 0, s.Hi, 0, blk) {
					v.Proven, v.Missing = false, "0 <= high"
				}
			}
			if v.Proven && s.Hi == nil && s.Lo != nil && !capOK(s.Lo) {
				v.Proven, v.Missing = false, "low <= len"
			}
			out = append(out, v)
		case "fixed":
			if !p.constBounds || !inputContainer(s.Container) {
				continue
			}
			v := boundVerdict{Sink: s, Why: "K: fixed-width read of a buffer received from outside", Proven: true}
			okW := false
			if sl, isSl := s.Container.(*ssa.Slice); isSl && sl.High != nil {
				// len(x[lo:hi]) == hi-lo once the slice expression itself succeeded (its own obligation)
				okW = p.Prove(sl.Low, s.Width, sl.High, 0, blk)
			} else if isSl && sl.High == nil {
				// len(x[lo:]) == len(x)-lo
				if _, isArr := sl.X.Type().Underlying().(*types.Pointer); !isArr {
					okW = p.ProveLen(sl.Low, s.Width, sl.X, 0, blk)
				}
			}
			if !okW && !p.ProveLen(nil, s.Width, s.Container, 0, blk) {
				v.Proven, v.Missing = false, fmt.Sprintf("%d <= len", s.Width)
			}
			out = append(out, v)
		case "make":
			why := p.risky(s.Len, classP)
			if why == "" {
				continue
			}
			v := boundVerdict{Sink: s, Why: why, Proven: true}
			if !p.Prove(nil, 0, s.Len, 0, blk) {
				v.Proven, v.Missing = false, "0 <= length"
			}
			out = append(out, v)
		}
	}
	return out
}

func (p *prover) proveUpperIdx(idx, container ssa.Value, blk *ssa.BasicBlock) bool {
	if p.ProveLen(idx, 1, container, 0, blk) {
		return true
	}
	if n, ok := arrayLen(container.Type()); ok {
		ti, oi := p.norm(idx)
		p.inProg, p.failMemo, p.okMemo = map[goalKey]int64{}, map[goalKey]int64{}, map[goalKey]int64{}
		p.budget = 30000
		return p.prove(ti, zeroT, n-1-oi, blk, 0)
	}
	return false
}

func (p *prover) proveArrayBound(x, container ssa.Value, blk *ssa.BasicBlock) bool {
	if n, ok := arrayLen(container.Type()); ok {
		tx, ox := p.norm(x)
		p.inProg, p.failMemo, p.okMemo = map[goalKey]int64{}, map[goalKey]int64{}, map[goalKey]int64{}
		p.budget = 30000
		return p.prove(tx, zeroT, n-ox, blk, 0)
	}
	return false
}

func sinkText(p *Program, s boundSink) string {
	name := func(v ssa.Value) string {
		if v == nil {
			return ""
		}
		if c, ok := v.(*ssa.Const); ok && c.Value != nil {
			return c.Value.String()
		}
		return exprTextOf(p, v)
	}
	switch s.Kind {
	case "index":
		return fmt.Sprintf("%s[%s]", name(s.Container), name(s.Idx))
	case "slice":
		return fmt.Sprintf("%s[%s:%s]", name(s.Container), name(s.Lo), name(s.Hi))
	case "fixed":
		return fmt.Sprintf("%d bytes of %s", s.Width, name(s.Container))
	}
	return fmt.Sprintf("make(len %s)", name(s.Len))
}

// exprTextOf gives a stable, line-free description of an SSA value: source variable name when there is one.
func exprTextOf(p *Program, v ssa.Value) string {
	switch x := v.(type) {
	case *ssa.Parameter:
		return x.Name()
	case *ssa.Phi:
		if x.Comment != "" {
			return x.Comment
		}
	case *ssa.Call:
		if op, ok := isLenCall(x); ok {
			return "len(" + exprTextOf(p, op) + ")"
		}
		if ce := p.callExprAt(x.Pos()); ce != nil {
			return types.ExprString(ce)
		}
	case *ssa.BinOp:
		return exprTextOf(p, x.X) + x.Op.String() + exprTextOf(p, x.Y)
	case *ssa.Convert:
		return exprTextOf(p, x.X)
	case *ssa.Const:
		if x.Value != nil {
			return x.Value.String()
		}
	case *ssa.Extract:
		return fmt.Sprintf("%s#%d", exprTextOf(p, x.Tuple), x.Index)
	case *ssa.UnOp:
		if _, f, ok := fieldOfLoad(x); ok {
			return "." + f
		}
		if a, ok := x.X.(*ssa.Alloc); ok && a.Comment != "" {
			return a.Comment
		}
	case *ssa.Slice:
		return exprTextOf(p, x.X) + "[:]"
	case *ssa.Alloc:
		if x.Comment != "" {
			return x.Comment
		}
	case *ssa.FieldAddr:
		if _, f, ok := fieldOfAddr(x); ok {
			return "." + f
		}
	}
	return "_"
}

// inputContainer: the indexed value is a byte slice/string that comes from outside the function's own
// allocations: a parameter, a field, a call result or a slice of one of those.
func inputContainer(v ssa.Value) bool {
	switch t := v.Type().Underlying().(type) {
	case *types.Slice:
		if b, ok := t.Elem().Underlying().(*types.Basic); !ok || b.Kind() != types.Uint8 {
			return false
		}
	case *types.Basic:
		if t.Info()&types.IsString == 0 {
			return false
		}
	default:
		return false
	}
	for depth := 0; depth < 10; depth++ {
		switch x := v.(type) {
		case *ssa.Parameter:
			return true
		case *ssa.Slice:
			v = x.X
		case *ssa.ChangeType:
			v = x.X
		case *ssa.Convert:
			v = x.X
		case *ssa.Phi:
			for _, e := range x.Edges {
				if inputContainer(e) {
					return true
				}
			}
			return false
		case *ssa.Call:
			// the content of a bytes.Buffer that was filled from the wire
			if co := calleeOfCommon(x.Common()); co != nil && co.FullName() == "(*bytes.Buffer).Bytes" {
				return true
			}
			return false
		default:
			// struct fields and call results carry invariants established where they were built
			// (type-level invariants are outside this prover: stated limitation)
			return false
		}
	}
	return false
}

// phiInCycle: the phi (transitively) depends on itself, i.e. it is loop-carried.
func phiInCycle(ph *ssa.Phi) bool {
	seen := map[ssa.Value]bool{}
	var dfs func(v ssa.Value, depth int) bool
	dfs = func(v ssa.Value, depth int) bool {
		if v == ssa.Value(ph) && depth > 0 {
			return true
		}
		if seen[v] || depth > 40 {
			return false
		}
		seen[v] = true
		in, ok := v.(ssa.Instruction)
		if !ok {
			return false
		}
		for _, op := range in.Operands(nil) {
			if *op != nil && dfs(*op, depth+1) {
				return true
			}
		}
		return false
	}
	return dfs(ph, 0)
}

var traceProver = os.Getenv("ACRAVERIFY_TRACE") != ""

func descr(t term) string {
	if t.v == nil {
		return "0"
	}
	s := t.v.String()
	if len(s) > 60 {
		s = s[:60]
	}
	return s
}

// maxBits: upper bound on the number of significant bits of a non-negative value built from byte loads,
// shifts by constants, ors and zero-extending conversions (0 = unknown).
func maxBits(v ssa.Value, depth int) int {
	if depth > 12 {
		return 0
	}
	if isByteLoad(v) {
		return 8
	}
	switch x := v.(type) {
	case *ssa.Convert:
		fb, fu, ok := basicInfo(x.X.Type())
		if !ok {
			return 0
		}
		if in := maxBits(x.X, depth+1); in > 0 {
			return in
		}
		if fu && fb < 64 {
			return fb
		}
	case *ssa.BinOp:
		switch x.Op {
		case token.SHL:
			if k, ok := intConst(x.Y); ok && k >= 0 && k < 64 {
				if in := maxBits(x.X, depth+1); in > 0 {
					return in + int(k)
				}
			}
		case token.OR, token.XOR:
			l, r := maxBits(x.X, depth+1), maxBits(x.Y, depth+1)
			if l > 0 && r > 0 {
				if l > r {
					return l
				}
				return r
			}
		}
	case *ssa.Call, *ssa.Extract:
		// result of a function whose every return is such a value
		var call *ssa.Call
		idx := 0
		if c, ok := x.(*ssa.Call); ok {
			call = c
		} else {
			ex := x.(*ssa.Extract)
			call, _ = ex.Tuple.(*ssa.Call)
			idx = ex.Index
		}
		if call == nil {
			return 0
		}
		callee := call.Common().StaticCallee()
		if callee == nil || callee.Blocks == nil {
			return 0
		}
		best := 0
		for _, ret := range returnsOf(callee) {
			if isRecoverBlock(ret.Block()) || idx >= len(ret.Results) {
				continue
			}
			b := maxBits(retValue(ret, idx), depth+1)
			if b == 0 {
				return 0
			}
			if b > best {
				best = b
			}
		}
		return best
	}
	return 0
}

// UpperBounded: the value has some finite bound that the other side does not control alone: a constant up to
// 64 MiB, the length of something already held, or the Len() of a reader/buffer.
func (p *prover) UpperBounded(n ssa.Value, blk *ssa.BasicBlock) (bool, string) {
	if p.Prove(n, 0, nil, 1<<26, blk) {
		return true, "<= 64 MiB constant bound"
	}
	tn, on := p.norm(n)
	for _, f := range p.facts[blk] {
		if f.x != tn || f.y.v == nil {
			continue
		}
		_ = on
		if f.y.isLen {
			return true, "<= len(" + f.y.v.Name() + ")"
		}
		if c, ok := f.y.v.(*ssa.Call); ok {
			if co := calleeOfCommon(c.Common()); co != nil && (co.Name() == "Len" || co.Name() == "Size") {
				return true, "<= " + co.Name() + "() of the source"
			}
		}
	}
	return false, ""
}

// variableBound: the bound is computed (not a constant, not a length, not a loop-carried cursor): e.g. the
// Size() of a hash chosen by a byte of the input.
func (p *prover) variableBound(v ssa.Value) bool {
	if v == nil || !p.classV {
		return false
	}
	t, _ := p.norm(v)
	if t.v == nil || t.isLen {
		return false
	}
	switch x := t.v.(type) {
	case *ssa.Phi:
		_ = x
		return true
	case *ssa.Parameter:
		_, _, isInt := basicInfo(x.Type())
		return isInt
	case *ssa.Call, *ssa.Extract, *ssa.BinOp, *ssa.Convert:
		return true
	}
	return false
}
