package main

import (
	"go/token"
	"fmt"
	"go/types"
	"strings"

	"golang.org/x/tools/go/ssa"
)

func init() {
	register(&Property{ID: "C09", Patterns: []string{"./..."}, Run: runC09})
}

func runC09(p *Program, r *Report) {
	r.Rule("R09.1", "E2", 8, "one hash function, one key owner, plaintext is hashed: every blind-index computation calls hmac.GenerateHMAC with a key that derives only from GetHMACSecretKey(...) (whose id argument is decided by R02.3); where the input may already be an envelope (MatchDataSignature edge) the value hashed is the result of decrypting it, never the envelope")
	ruleR091(p, r)
	r.Rule("R09.2", "E2", 3, "one prefix length: the substring length that both dialects put into the rewritten condition derives from hmac.GetDefaultHashSize(), the same function the prefix extractor is built on; GetDefaultHashSize is the size of the default hash plus the id byte")
	ruleR092(p, r)
	r.Rule("R09.3", "E1", 2, "placeholder positions are range-checked on both sides: in the OnBind handlers of both dialects the zero-based index derived from the placeholder number is proven 0 <= index < len(values) where it is recorded for replacement")
	ruleBindIndex(p, r, "R09.3", []string{"hmac/decryptor/postgresql.(*HashQuery).OnBind", "hmac/decryptor/mysql.(*HashQuery).OnBind"})
	r.Rule("R09.5", "E3", 2, "a bound value is hashed once: in both dialects the loop that replaces bound values by their hashes skips an index it has already processed (the outgoing slice shares the value objects with the incoming one)")
	ruleTransformOnce(p, r, "R09.5", []string{"hmac/decryptor/postgresql.(*HashQuery).replaceValuesWithHMACs", "hmac/decryptor/mysql.(*HashQuery).replaceValuesWithHMACs"})
	r.Rule("R09.6", "E3", 8, "the search key is single-use: hmac.GenerateHMAC overwrites the key it is given, so a key buffer passed to it (directly or through a helper that passes it on) is obtained again before every further hash - it is never passed twice, never passed inside a loop that does not reload it, and never read afterwards")
	ruleUseAfterWipe(p, r, "R09.6", func(s wipeSite) bool {
		pp := fnPkgPath(s.Fn)
		return strings.HasPrefix(pp, acraMod+"/hmac") || strings.HasPrefix(pp, acraMod+"/cmd/acra-translator")
	})
	r.Rule("R09.7", "E3", 3, "a search literal is decoded as the client wrote it: a function that hands a literal to UpdateExpressionValue (decode, transform, re-encode) does not change that literal's type or bytes before the call - the value hashed must be the value an INSERT of the same literal stores")
	ruleR097(p, r)
	r.Rule("R09.8", "E3", 4, "a row is handed out as matching only after its index was compared: in every function that compares a search hash with decrypted content, each nil-error return is reachable only over the 'equal' edge of IsEqual or over the 'no hash present' edge (same rule as R03.6)")
	ruleVerifiedSuccess(p, r, "R09.8")
	r.Rule("R09.9", "E3", 2, "write path and search path agree on the empty value (PostgreSQL): the statement encryptor leaves an empty value as it is (no envelope, no blind index), so the search rewriter leaves an empty searched value as it is too - calculateHmac returns its argument on the len == 0 edge before any hash is computed; if one side treats the empty value differently from the other, rows holding the empty value are never (or always) selected")
	ruleR099(p, r)
	r.Rule("R09.4", "E3", 2, "index re-verification is wired: in both proxy factories the HMAC processor is subscribed both before and after the container detector (strip-and-remember, then verify after decryption)")
	ruleR094(p, r)
}

func ruleR091(p *Program, r *Report) { ruleHashedPlaintext(p, r, "R09.1") }

func ruleHashedPlaintext(p *Program, r *Report, rule string) {
	gen := p.FuncObj("hmac.GenerateHMAC")
	if gen == nil {
		r.Anchor(rule, "hmac.GenerateHMAC")
		return
	}
	n := 0
	for _, fn := range p.srcFns {
		pp := strings.TrimPrefix(fnPkgPath(fn), acraMod+"/")
		if strings.HasPrefix(pp, "hmac") && fn.Name() == "GenerateHMAC" {
			continue
		}
		for _, cs := range callsTo(fn, gen) {
			n++
			name := fnName(fn)
			args := cs.Instr.Common().Args
			// key provenance
			bad := ""
			for _, leaf := range leavesOf(args[0], leafOpts{}) {
				ok := false
				if ex, isEx := leaf.(*ssa.Extract); isEx {
					if c, isC := ex.Tuple.(*ssa.Call); isC {
						if co := calleeOfCommon(c.Common()); co != nil && co.Name() == "GetHMACSecretKey" && ex.Index == 0 {
							ok = true
						}
					}
				}
				if pr, isP := leaf.(*ssa.Parameter); isP && (strings.HasPrefix(pp, "hmac") && (pr.Name() == "key" || pr.Name() == "hmacKey")) {
					ok = true // library helper: the key is its caller's (checked at the callers)
				}
				if !ok {
					bad = leaf.String()
				}
			}
			r.Check(bad == "", rule, name, "GenerateHMAC key ("+operandText(p, cs.Instr)+")", p.Pos(cs.Instr.Pos()), "key = GetHMACSecretKey(id)", "the blind index is keyed with something other than the client's search key: "+bad)
			// plaintext, not envelope: if the function tests MatchDataSignature(x), the hash on the matched edge must take the Process result
			for _, m := range callsIn(fn) {
				mc, ok := m.Instr.(*ssa.Call)
				if !ok || m.Callee == nil || m.Callee.Name() != "MatchDataSignature" {
					continue
				}
				for _, i := range condIfs(mc) {
					matched := i.Block().Succs[0]
					if u, isU := i.Cond.(*ssa.UnOp); isU && u.Op.String() == "!" {
						matched = i.Block().Succs[1]
					}
					unmatched := i.Block().Succs[0]
					if unmatched == matched {
						unmatched = i.Block().Succs[1]
					}
					if unmatched.Dominates(cs.Block) && !matched.Dominates(cs.Block) {
						continue // raw value: hashed as it came
					}
					// on the matched edge, hoisted above the test, or after the join: the hashed value must come from Process
					fromProcess := false
					for v := range backClosure(args[1]) {
						if ex, isEx := v.(*ssa.Extract); isEx && ex.Index == 0 {
							if c, isC := ex.Tuple.(*ssa.Call); isC && c.Common().IsInvoke() && c.Common().Method.Name() == "Process" {
								fromProcess = true
							}
						}
					}
					r.Check(fromProcess, rule, name, "hash of an already protected value uses its plaintext", p.Pos(cs.Instr.Pos()), "GenerateHMAC(key, Process(data))", "on the 'already an envelope' edge the blind index is computed over the envelope bytes: the stored hash never equals the hash of the searched plaintext")
				}
			}
		}
	}
	if n < 6 {
		r.Bad(rule, "hmac", "GenerateHMAC call sites", "-", "fewer blind-index computations found than the six confirmed by reading")
	}
}

func ruleR092(p *Program, r *Report) {
	size := p.FuncObj("hmac.GetDefaultHashSize")
	if size == nil {
		r.Anchor("R09.2", "hmac.GetDefaultHashSize")
		return
	}
	// definition: Size()+1
	if fn := p.Func2(size); fn != nil && fn.Blocks != nil {
		ok := false
		for _, ret := range returnsOf(fn) {
			if bo, isBo := retValue(ret, 0).(*ssa.BinOp); isBo {
				if c, isC := intConst(bo.Y); isC && c == 1 {
					ok = true
				}
			}
		}
		r.Check(ok, "R09.2", fnName(fn), "size = hash size + id byte", p.Pos(fn.Pos()), "returns Size()+1", "the advertised prefix length is no longer the hash size plus the algorithm id byte")
	}
	for _, spec := range []string{"hmac/decryptor/postgresql.(*HashQuery).getSubstrFuncNode", "hmac/decryptor/mysql.(*HashQuery).OnQuery"} {
		fn := p.Func(spec)
		if fn == nil || fn.Blocks == nil {
			// pg helper may be a plain function
			fn = p.Func(strings.Replace(spec, "(*HashQuery).", "", 1))
		}
		if fn == nil || fn.Blocks == nil {
			r.Anchor("R09.2", spec)
			continue
		}
		n := len(callsTo(fn, size))
		// no integer literal 33 in the function
		lit := false
		for _, b := range fn.Blocks {
			for _, in := range b.Instrs {
				for _, op := range in.Operands(nil) {
					if c, ok := intConst(*op); ok && c == 33 {
						lit = true
					}
				}
			}
		}
		r.Check(n > 0 && !lit, "R09.2", fnName(fn), "substring length from GetDefaultHashSize()", p.Pos(fn.Pos()), "length derives from the shared size function", "the rewritten condition uses a prefix length that does not come from hmac.GetDefaultHashSize(): stored prefix and searched prefix can differ in length")
	}
}

// ruleBindIndex: the value appended to the index list is proven within [0, len(values)).
func ruleBindIndex(p *Program, r *Report, rule string, specs []string) {
	for _, spec := range specs {
		fn := p.Func(spec)
		if fn == nil || fn.Blocks == nil {
			r.Anchor(rule, spec)
			continue
		}
		values := paramByName(fn, "values")
		if values == nil {
			r.Anchor(rule, spec+" parameter values")
			continue
		}
		pr := newProverP(p, fn, 0)
		n := 0
		for _, b := range fn.Blocks {
			for _, in := range b.Instrs {
				c, ok := in.(*ssa.Call)
				if !ok {
					continue
				}
				bi, isB := c.Call.Value.(*ssa.Builtin)
				if !isB || bi.Name() != "append" || len(c.Call.Args) != 2 {
					continue
				}
				// append(indexes, index): element type int, the variadic slice holds one stored value
				var elem ssa.Value
				if sl, ok := c.Call.Args[1].(*ssa.Slice); ok {
					if al, ok := sl.X.(*ssa.Alloc); ok {
						if refs := al.Referrers(); refs != nil {
							for _, rf := range *refs {
								if ia, ok := rf.(*ssa.IndexAddr); ok {
									if irefs := ia.Referrers(); irefs != nil {
										for _, ir := range *irefs {
											if st, ok := ir.(*ssa.Store); ok {
												elem = st.Val
											}
										}
									}
								}
							}
						}
					}
				}
				if elem == nil {
					continue
				}
				if _, _, isInt := basicInfo(elem.Type()); !isInt {
					continue
				}
				n++
				lower := pr.Prove(nil, 0, elem, 0, c.Block())
				upper := pr.ProveLen(elem, 1, values, 0, c.Block())
				r.Check(lower && upper, rule, fnName(fn), "recorded placeholder index", p.Pos(c.Pos()), "0 <= index < len(values) proven where the index is recorded", "the placeholder index is recorded without a two-sided range check (lower proven: "+boolStr(lower)+", upper proven: "+boolStr(upper)+"): a statement with placeholder number 0 indexes the bound values out of range")
			}
		}
		if n == 0 {
			r.Bad(rule, fnName(fn), "recorded placeholder index", p.Pos(fn.Pos()), "no placeholder index is recorded; the handler has changed shape")
		}
	}
}

func boolStr(b bool) string {
	if b {
		return "yes"
	}
	return "no"
}

func ruleR094(p *Program, r *Report) {
	for _, spec := range proxyFactories {
		fn := p.Func(spec)
		if fn == nil || fn.Blocks == nil {
			r.Anchor("R09.4", spec)
			continue
		}
		evs := wireEvents(fn)
		hm := findEvents(evs, "Subscribe", "hmac.Processor")
		det := findEvents(evs, "Subscribe", "EnvelopeDetector")
		det = append(det, findEvents(evs, "Subscribe", "OldContainerDetectorWrapper")...)
		before, after := false, false
		for _, h := range hm {
			if precedesAll([]wireEvent{h}, det) {
				before = true
			}
			if precedesAll(det, []wireEvent{h}) {
				after = true
			}
		}
		r.Check(len(det) > 0 && before && after, "R09.4", fnName(fn), "HMAC processor before and after the container detector", p.Pos(fn.Pos()), "subscribed twice around the detector", "the search-hash processor is not subscribed on both sides of the container detector: the hash prefix is not stripped before decryption or not verified after it")
	}
}

func init() {
	mut("C09", "query hash keyed by the column's own key lookup under a fixed id", "hmac/decryptor/postgresql/hashQuery.go", "		key, err := encryptor.keystore.GetHMACSecretKey(accessContext.GetClientID())\n		if err != nil {\n			logrus.WithError(err).Debugln(\"Can't load key for hmac\")\n			return nil, err\n		}\n		logrus.Debugln(\"Searchable column with raw data, replace with HMAC\")\n		return hmac.GenerateHMAC(key, data), nil", "		key, err := encryptor.keystore.GetHMACSecretKey(accessContext.GetClientID())\n		if err != nil {\n			logrus.WithError(err).Debugln(\"Can't load key for hmac\")\n			return nil, err\n		}\n		logrus.Debugln(\"Searchable column with raw data, replace with HMAC\")\n		return hmac.GenerateHMAC(append(key[:0:0], accessContext.GetClientID()...), data), nil", "R09.1", "GenerateHMAC key")
	mut("C09", "write path hashes the envelope instead of its plaintext", "hmac/dataEncryptor.go", "			hash = GenerateHMAC(key, data)\n		} else {", "			hash = GenerateHMAC(key, encryptedData)\n		} else {", "R09.1", "already protected value")
	mut("C09", "write path hashes before it knows whether the value is an envelope", "hmac/dataEncryptor.go", "		var encryptedData, hash []byte\n		if e.decryptor.MatchDataSignature(data) {", "		var encryptedData, hash []byte\n		hash0 := GenerateHMAC(key, data)\n		_ = hash0\n		if e.decryptor.MatchDataSignature(data) {", "R09.1", "already protected value")
	mut("C09", "key loaded once for all placeholders of a statement", "hmac/decryptor/postgresql/hashQuery.go", "	processed := make(map[int]struct{}, len(placeholders))\n	for _, valueIndex := range placeholders {", "	processed := make(map[int]struct{}, len(placeholders))\n	sharedKey, _ := encryptor.keystore.GetHMACSecretKey(base.AccessContextFromContext(ctx).GetClientID())\n	for _, valueIndex := range placeholders {\n		_ = hmac.GenerateHMAC(sharedKey, nil)", "R09.6", "handed to GenerateHMAC")
	mut("C09", "mysql substring length hard-coded", "hmac/decryptor/mysql/hashQuery.go", "	hashSize := []byte(fmt.Sprintf(\"%d\", hmac.GetDefaultHashSize()))\n	for _, item := range items {\n		if !item.Setting.IsSearchable() {\n			continue\n		}\n\n		// column = 'value'", "	hashSize := []byte(fmt.Sprintf(\"%d\", 32))\n	for _, item := range items {\n		if !item.Setting.IsSearchable() {\n			continue\n		}\n\n		// column = 'value'", "R09.2", "mysql")
	mut("C09", "pg OnBind: lower bound dropped (original defect)", "hmac/decryptor/postgresql/hashQuery.go", "		if index < 0 || index >= len(values) {", "		if index >= len(values) {", "R09.3", "OnBind")
	mut("C09", "pg: repeated placeholder hashed twice (original defect)", "hmac/decryptor/postgresql/hashQuery.go", "		if _, done := processed[valueIndex]; done {\n			continue\n		}\n", "", "R09.5", "transformed once")
	mut("C09", "pg factory: hmac processor only before the detector", "decryptor/postgresql/proxy.go", "	if hmacProcessor != nil {\n		// added same hmacProcessor to check hmac validation after decryption\n		proxy.SubscribeOnAllColumnsDecryption(hmacProcessor)\n	}\n", "", "R09.4", "postgresql")
}

// guardedBySeenSet: instr executes only on the 'not seen' edge of `_, ok := m[key]` over a local map that is
// updated with the same key on that edge.
func guardedBySeenSet(instr ssa.Instruction, key ssa.Value) bool {
	fn := instr.Parent()
	for _, b := range fn.Blocks {
		for _, in := range b.Instrs {
			lk, ok := in.(*ssa.Lookup)
			if !ok || !lk.CommaOk || lk.Index != key {
				continue
			}
			if _, isMk := lk.X.(*ssa.MakeMap); !isMk {
				continue
			}
			okV := extractOf(lk, 1)
			if okV == nil {
				continue
			}
			for _, i := range ifsOn(okV) {
				notSeen := i.Block().Succs[1]
				if !notSeen.Dominates(instr.Block()) {
					continue
				}
				// the key is recorded on that edge
				for _, b2 := range fn.Blocks {
					for _, in2 := range b2.Instrs {
						if mu, ok := in2.(*ssa.MapUpdate); ok && mu.Map == lk.X && mu.Key == key && notSeen.Dominates(b2) {
							return true
						}
					}
				}
			}
		}
	}
	return false
}

// ruleTransformOnce: bound values are objects shared between the incoming and the outgoing slice, so a value
// whose placeholder occurs in several conditions must be transformed once.
func ruleTransformOnce(p *Program, r *Report, rule string, replaceSpecs []string) {
	for _, spec := range replaceSpecs {
		fn := p.Func(spec)
		if fn == nil || fn.Blocks == nil {
			r.Anchor(rule, spec)
			continue
		}
		n := 0
		for _, cs := range callsIn(fn) {
			cm := cs.Instr.Common()
			if !cm.IsInvoke() || cm.Method.Name() != "SetData" {
				continue
			}
			// receiver = *(&slice[idx])
			var idx ssa.Value
			if u, ok := cm.Value.(*ssa.UnOp); ok {
				if ia, ok := u.X.(*ssa.IndexAddr); ok {
					idx = ia.Index
				}
			}
			if idx == nil {
				continue
			}
			n++
			r.Check(guardedBySeenSet(cs.Instr, idx), rule, fnName(fn), "each bound value is transformed once", p.Pos(cs.Instr.Pos()), "SetData runs only for an index not seen before", "a placeholder that occurs in several conditions is transformed again from its already transformed value (the bound value object is shared): hash of a hash / token of a token is sent to the database and no row matches")
		}
		if n == 0 {
			r.Bad(rule, fnName(fn), "each bound value is transformed once", p.Pos(fn.Pos()), "no SetData on an indexed bound value found; the function has changed shape")
		}
	}
}

func ruleR097(p *Program, r *Report) {
	n := 0
	for _, pk := range []string{"hmac/decryptor/mysql", "hmac/decryptor/postgresql", "pseudonymization"} {
		for _, fn := range p.SrcFuncs(pk) {
			for _, c := range callsNamed(fn, "UpdateExpressionValue") {
				n++
				expr := c.Common().Args[1]
				// objects the expression may denote: the interface value, or what a type assertion of the same source yields
				var roots []ssa.Value
				roots = append(roots, expr)
				if mi, ok := expr.(*ssa.MakeInterface); ok {
					roots = append(roots, mi.X)
				}
				src := expr
				if u, ok := expr.(*ssa.UnOp); ok {
					src = u.X // loaded from a field: other loads of that field denote the same node
				}
				bad := ""
				for _, b := range fn.Blocks {
					for _, in := range b.Instrs {
						st, isSt := in.(*ssa.Store)
						if !isSt {
							continue
						}
						fa, isFa := st.Addr.(*ssa.FieldAddr)
						if !isFa {
							continue
						}
						// the stored-to object derives from the same node?
						same := false
						if er, ep := accessPath(expr); ep != "" {
							for v := range backClosure(fa.X) {
								if ta, ok := v.(*ssa.TypeAssert); ok {
									if r2, p2 := accessPath(ta.X); r2 == er && p2 == ep {
										same = true
									}
								}
							}
						}
						for v := range backClosure(fa.X) {
							for _, rt := range roots {
								if v == rt {
									same = true
								}
							}
							if u, ok := v.(*ssa.UnOp); ok && u.X == src && src != expr {
								same = true
							}
						}
						if !same {
							continue
						}
						// only SQLVal-like literal nodes matter (Type / Val fields)
						stt := fa.X.Type().Underlying().(*types.Pointer).Elem().Underlying().(*types.Struct)
						fname := stt.Field(fa.Field).Name()
						if fname != "Type" && fname != "Val" {
							continue
						}
						before := st.Block() == c.Block() && instrBefore(st, c) || st.Block() != c.Block() && reaches(st.Block(), c.Block(), nil)
						if before {
							bad = "sets ." + fname + " of the literal before it is decoded"
						}
					}
				}
				r.Check(bad == "", "R09.7", fnName(fn), "literal untouched before UpdateExpressionValue", p.Pos(c.Pos()), "no store to the literal's Type/Val precedes the call", bad+": the transformation is applied to other bytes than the client's literal denotes (a hex literal is hashed as its text, a string starting with 0x as decoded bytes), so the rewritten condition never matches what INSERT stored")
			}
		}
	}
	if n < 3 {
		r.Bad("R09.7", "hmac/decryptor, pseudonymization", "UpdateExpressionValue call sites", "-", "fewer call sites found than confirmed by reading")
	}
}

func init() {
	mut("C09", "mysql literal retyped before decoding (original defect)", "hmac/decryptor/mysql/hashQuery.go", "			hexNumLiteral = rVal\n		}", "			hexNumLiteral = rVal\n			rVal.Type = sqlparser.HexNum\n		}", "R09.7", "literal untouched")
}

func init() {
	mut("C09", "hmac processor skips the comparison for a hash it has seen pass", "hmac/dataProcessor.go", "	if p.hashData != nil && !p.matchedHash.IsEqual(data, accessContext.GetClientID(), p.hmacStore) {", "	if p.hashData != nil && len(p.hashData) == len(p.rawData) {\n		return data, nil\n	}\n	if p.hashData != nil && !p.matchedHash.IsEqual(data, accessContext.GetClientID(), p.hmacStore) {", "R09.8", "Process")
}

// ---- R09.9
func ruleR099(p *Program, r *Report) {
	emptySkip := func(fn *ssa.Function, what func(v ssa.Value) bool) (*ssa.BasicBlock, bool) {
		// an If on len(x) == 0 (or != 0) with x satisfying `what`; returns the 'empty' successor
		for _, b := range fn.Blocks {
			iff, ok := b.Instrs[len(b.Instrs)-1].(*ssa.If)
			if !ok {
				continue
			}
			bo, ok := iff.Cond.(*ssa.BinOp)
			if !ok || (bo.Op != token.EQL && bo.Op != token.NEQ) {
				continue
			}
			x, isLen := isLenCall(bo.X)
			k, isK := intConst(bo.Y)
			if !isLen || !isK || k != 0 || !what(x) {
				continue
			}
			if bo.Op == token.EQL {
				return b.Succs[0], true
			}
			return b.Succs[1], true
		}
		return nil, false
	}
	// write side: encryptValuesWithPlaceholders skips empty bound values, the literal callback returns empty data as it is
	wr := p.Func("encryptor/postgresql.(*QueryDataEncryptor).encryptValuesWithPlaceholders")
	if wr == nil || wr.Blocks == nil {
		r.Anchor("R09.9", "encryptor/postgresql.(*QueryDataEncryptor).encryptValuesWithPlaceholders")
		return
	}
	_, writeSkips := emptySkip(wr, func(v ssa.Value) bool {
		for x := range backClosure(v) {
			if c, ok := x.(*ssa.Call); ok && c.Call.IsInvoke() && c.Call.Method.Name() == "GetData" {
				return true
			}
		}
		return false
	})
	r.Check(true, "R09.9", fnName(wr), "write path: empty bound value", p.Pos(wr.Pos()), fmt.Sprintf("left as it is: %v", writeSkips), "")
	se := p.Func("hmac/decryptor/postgresql.(*HashQuery).calculateHmac")
	if se == nil || se.Blocks == nil {
		r.Anchor("R09.9", "hmac/decryptor/postgresql.(*HashQuery).calculateHmac")
		return
	}
	data := paramByName(se, "data")
	emptyBlk, searchSkips := emptySkip(se, func(v ssa.Value) bool { return v == ssa.Value(data) })
	okSkip := false
	if searchSkips {
		okSkip = allReturns(emptyBlk, nil, func(ret *ssa.Return) bool {
			return retValue(ret, 0) == ssa.Value(data) && isNilConst(retValue(ret, 1))
		})
		// and no hash is computed before the test
		for _, c := range callsNamed(se, "GenerateHMAC") {
			if !reaches(se.Blocks[0], c.Block(), map[*ssa.BasicBlock]bool{emptyBlk: true}) {
				okSkip = false
			}
			if c.Block() == se.Blocks[0] {
				okSkip = false
			}
		}
	}
	agree := writeSkips == (searchSkips && okSkip)
	r.Check(agree, "R09.9", fnName(se), "search path treats the empty value as the write path does", p.Pos(se.Pos()), "both leave an empty value as it is", fmt.Sprintf("the write path leaves an empty value unprotected (%v) but the search rewriter does not leave an empty searched value alone (%v): `col = ''` compares the column's prefix with the HMAC of the empty string and never selects the rows that hold the empty value", writeSkips, searchSkips && okSkip))
}

func init() {
	mut("C09", "pg search hashes the empty searched value (original defect)", "hmac/decryptor/postgresql/hashQuery.go", "	if len(data) == 0 {\n		// an empty value is stored as it is, without encryption and without a hash:\n		// it is found by comparing the (empty) prefix of the column with the empty value\n		return data, nil\n	}\n", "", "R09.9", "calculateHmac")
	mut("C09", "pg write path starts to protect empty bound values while the search still skips them", "encryptor/postgresql/queryDataEncryptor.go", "		if len(valueData) == 0 {\n			continue\n		}\n		encryptedData, err := encryptor.encryptWithColumnSettings(ctx, setting, valueData)", "		encryptedData, err := encryptor.encryptWithColumnSettings(ctx, setting, valueData)", "R09.9", "calculateHmac")
}
