package main

import (
	"fmt"
	"go/token"
	"go/ast"
	"go/constant"
	"go/types"
	"sort"
	"strings"

	"golang.org/x/tools/go/ssa"
)

func init() {
	register(&Property{ID: "C19", Patterns: []string{"./..."}, Run: runC19})
}

func runC19(p *Program, r *Report) {
	r.Rule("R19.1", "E4", 10, "every declared type has an encoder: each database type id that the configuration can assign to a column (the two type -> id tables) is registered with an encoder by an init function of that database's types package, and the id -> name tables list exactly the same ids")
	ruleR191(p, r)
	r.Rule("R19.2", "E4+E3", 32, "the failure policy is decided exhaustively and fails closed: every EncodeOnFail has a case for each response_on_fail constant; 'error' returns a non-nil error and no data; 'ciphertext' (and the empty policy) returns no replacement; 'default' returns the encoded default; anything else is an error")
	ruleR192(p, r)
	r.Rule("R19.3", "E2", 6, "description and data agree: the type id written into the row/column/parameter description and the encoder picked for the data both come from the column setting's GetDBDataTypeID(), and a description is only retyped to an id that has a registered encoder")
	ruleR193(p, r)
	r.Rule("R19.4", "E3", 2, "configuration validation: a default value is validated by the encoder of the column's type id before the setting is accepted, and is only accepted together with the 'default' policy")
	ruleR194(p, r)
	r.Rule("R19.6", "E2", 3, "per-column state stays per column: the context a row decoder hands to the column subscribers is the row's own context, never the context the previous column's subscribers returned (which carries that column's 'decrypted' mark and setting)")
	ruleR196(p, r)
	r.Rule("R19.5", "E3", 8, "a value that was not revealed goes through the policy: in every type encoder, the exit of Encode that hands the incoming bytes back unchanged is reached on the 'not decrypted' edge only after EncodeOnFail answered 'no replacement, no error'")
	ruleR195(p, r)
	r.Rule("R19.7", "E2", 2, "result and parameter format codes are read by the protocol rule only: a slice of Bind format codes (BindPacket.paramFormats / resultFormats, the result of GetResultFormats, or a parameter such a slice is passed to) is indexed by a column or parameter number only inside GetParameterFormatByIndex (no codes = text, one code = every column, n codes = per column); direct indexing loses the one-code-for-all rule and typed columns after the first come back in the wrong format")
	ruleR197(p, r)
	r.Rule("R19.8", "E3", 2, "every row of a described result set is processed: in the MySQL response handler the call that decodes, reveals and re-encodes a row (processTextDataRow / processBinaryDataRow) is bypassed inside its loop only by the read-error exit, the end-of-rows packet and the 'no columns described' test on the very slice handed to it; any other skip delivers stored ciphertext under an already rewritten column type")
	ruleR198(p, r)
}

func constOfExpr(info *types.Info, e ast.Expr) (constant.Value, bool) {
	if tv, ok := info.Types[e]; ok && tv.Value != nil {
		return tv.Value, true
	}
	return nil, false
}

func ruleR191(p *Program, r *Report) {
	cpk := p.Pkg("encryptor/base/config/common")
	if cpk == nil {
		r.Anchor("R19.1", "encryptor/base/config/common")
		return
	}
	tables := map[string]map[string]bool{} // table name -> set of id constants (exact strings)
	ast.Inspect(cpk.Syntax[0], func(ast.Node) bool { return false })
	for _, f := range cpk.Syntax {
		ast.Inspect(f, func(n ast.Node) bool {
			vs, ok := n.(*ast.ValueSpec)
			if !ok || len(vs.Names) != 1 || len(vs.Values) != 1 {
				return true
			}
			name := vs.Names[0].Name
			cl, ok := vs.Values[0].(*ast.CompositeLit)
			if !ok {
				return true
			}
			switch name {
			case "MySQLEncryptedTypeDataTypeIDs", "PostgreSQLEncryptedTypeDataTypeIDs":
				tables[name] = map[string]bool{}
				for _, e := range cl.Elts {
					if kv, ok := e.(*ast.KeyValueExpr); ok {
						if v, ok := constOfExpr(cpk.TypesInfo, kv.Value); ok {
							tables[name][v.ExactString()] = true
						}
					}
				}
			case "MySQLDataTypeIDEncryptedType", "PostgreSQLDataTypeIDEncryptedType":
				tables[name] = map[string]bool{}
				for _, e := range cl.Elts {
					if kv, ok := e.(*ast.KeyValueExpr); ok {
						if v, ok := constOfExpr(cpk.TypesInfo, kv.Key); ok {
							tables[name][v.ExactString()] = true
						}
					}
				}
			}
			return true
		})
	}
	for _, db := range []struct{ name, fwd, back, reg, pkg string }{
		{"PostgreSQL", "PostgreSQLEncryptedTypeDataTypeIDs", "PostgreSQLDataTypeIDEncryptedType", "RegisterPostgreSQLDataTypeIDEncoder", "decryptor/postgresql/types"},
		{"MySQL", "MySQLEncryptedTypeDataTypeIDs", "MySQLDataTypeIDEncryptedType", "RegisterMySQLDataTypeIDEncoder", "decryptor/mysql/types"},
	} {
		if len(tables[db.fwd]) == 0 || len(tables[db.back]) == 0 {
			r.Anchor("R19.1", db.fwd+" / "+db.back)
			continue
		}
		registered := map[string]bool{}
		for _, fn := range p.srcFns {
			if fn.Name() != "init" && !strings.HasPrefix(fn.Name(), "init#") {
				continue
			}
			if !strings.HasSuffix(fnPkgPath(fn), db.pkg) {
				continue
			}
			for _, cs := range callsIn(fn) {
				if cs.Callee != nil && cs.Callee.Name() == db.reg {
					if c, ok := cs.Instr.Common().Args[0].(*ssa.Const); ok && c.Value != nil {
						registered[c.Value.ExactString()] = true
					}
				}
			}
		}
		var ids []string
		for id := range tables[db.fwd] {
			ids = append(ids, id)
		}
		sort.Strings(ids)
		for _, id := range ids {
			r.Check(registered[id], "R19.1", db.pkg, db.name+" type id "+id+" has a registered encoder", "-", "registered by an init of "+db.pkg, "the configuration maps a declared data type to "+db.name+" type id "+id+" but no encoder is registered for it: the setting's default value validation dereferences a nil encoder and typed results are not encoded")
			r.Check(tables[db.back][id], "R19.1", "encryptor/base/config/common", db.name+" type id "+id+" is in the id -> name table", "-", "listed", "type id "+id+" can be assigned from a data_type but is missing from "+db.back)
		}
	}
}

func ruleR192(p *Program, r *Report) {
	onFail := p.Type("encryptor/base/config/common.ResponseOnFail")
	if onFail == nil {
		r.Anchor("R19.2", "common.ResponseOnFail")
		return
	}
	all := constsOfType(onFail.Pkg(), onFail.Type())
	n := 0
	for _, pkn := range []string{"decryptor/postgresql/types", "decryptor/mysql/types"} {
		for _, fn := range p.SrcFuncs(pkn) {
			if fn.Name() != "EncodeOnFail" || fn.Blocks == nil {
				continue
			}
			obj, _ := fn.Object().(*types.Func)
			fd, pk := p.FuncDecl(obj)
			if fd == nil {
				r.Anchor("R19.2", fnName(fn)+" declaration")
				continue
			}
			n++
			var sw *ast.SwitchStmt
			ast.Inspect(fd.Body, func(nd ast.Node) bool {
				if s, ok := nd.(*ast.SwitchStmt); ok && sw == nil && s.Tag != nil {
					if tv, ok := pk.TypesInfo.Types[s.Tag]; ok && types.Identical(tv.Type, onFail.Type()) {
						sw = s
					}
				}
				return true
			})
			if sw == nil {
				r.Bad("R19.2", fnName(fn), "switch over the failure policy", p.Pos(fn.Pos()), "EncodeOnFail does not switch over the response_on_fail value")
				continue
			}
			cases, _ := switchCaseConsts(pk.TypesInfo, sw)
			for _, c := range all {
				cc := cases[c]
				if cc == nil {
					r.Bad("R19.2", fnName(fn), "case "+c.Name(), p.Pos(sw.Pos()), "no case for "+c.Name()+": that policy ends in the 'unknown action' error or, worse, in another policy's branch")
					continue
				}
				// classify the returns of the case
				bad := ""
				for _, st := range cc.Body {
					ast.Inspect(st, func(nd ast.Node) bool {
						ret, ok := nd.(*ast.ReturnStmt)
						if !ok || len(ret.Results) != 3 {
							return true
						}
						dataNil := isNilIdent(pk.TypesInfo, ret.Results[1])
						errNil := isNilIdent(pk.TypesInfo, ret.Results[2])
						switch c.Name() {
						case "ResponseOnFailError":
							if errNil || !dataNil {
								bad = "the 'error' policy does not return (no data, error)"
							}
						case "ResponseOnFailCiphertext", "ResponseOnFailEmpty":
							if !dataNil || !errNil {
								bad = "the 'ciphertext' policy returns a replacement value or an error"
							}
						}
						return true
					})
				}
				if c.Name() == "ResponseOnFailDefault" {
					uses := false
					for _, st := range cc.Body {
						ast.Inspect(st, func(nd ast.Node) bool {
							if ce, ok := nd.(*ast.CallExpr); ok {
								if se, ok := ce.Fun.(*ast.SelectorExpr); ok && se.Sel.Name == "GetDefaultDataValue" {
									uses = true
								}
							}
							return true
						})
					}
					if !uses {
						bad = "the 'default' policy does not take the configured default value"
					}
				}
				r.Check(bad == "", "R19.2", fnName(fn), "case "+c.Name(), p.Pos(cc.Pos()), "returns what the policy says", bad)
			}
			// after the switch: an error
			okTail := false
			if len(fd.Body.List) > 0 {
				if ret, ok := fd.Body.List[len(fd.Body.List)-1].(*ast.ReturnStmt); ok && len(ret.Results) == 3 && !isNilIdent(pk.TypesInfo, ret.Results[2]) && isNilIdent(pk.TypesInfo, ret.Results[1]) {
					okTail = true
				}
			}
			r.Check(okTail, "R19.2", fnName(fn), "unknown policy is an error", p.Pos(fd.Pos()), "falls out of the switch into (no data, error)", "a policy value outside the known set is not rejected")
		}
	}
	if n < 8 {
		r.Bad("R19.2", "decryptor/*/types", "EncodeOnFail implementations", "-", "fewer EncodeOnFail implementations found than the eight confirmed by reading")
	}
}

func ruleR193(p *Program, r *Report) {
	// (a) every lookup in the encoder registries is keyed by GetDBDataTypeID() of a column setting
	n := 0
	for _, pkn := range []string{"decryptor/postgresql", "decryptor/mysql"} {
		for _, fn := range p.SrcFuncs(pkn) {
			for _, b := range fn.Blocks {
				for _, in := range b.Instrs {
					lk, ok := in.(*ssa.Lookup)
					if !ok {
						continue
					}
					c, isC := lk.X.(*ssa.Call)
					if !isC {
						continue
					}
					co := calleeOfCommon(c.Common())
					if co == nil || (co.Name() != "GetPostgreSQLDataTypeIDEncoders" && co.Name() != "GetMySQLDataTypeIDEncoders") {
						continue
					}
					n++
					fromSetting := false
					if kc, isKc := lk.Index.(*ssa.Call); isKc && kc.Common().IsInvoke() && kc.Common().Method.Name() == "GetDBDataTypeID" {
						fromSetting = true
					}
					if prm, isP := lk.Index.(*ssa.Parameter); isP && (fn.Name() == "mapEncryptedTypeToOID" || fn.Name() == "mapEncryptedTypeToField") {
						fromSetting = true // checked at the callers below
						_ = prm
					}
					r.Check(fromSetting, "R19.3", fnName(fn), "encoder looked up by the setting's type id", p.Pos(lk.Pos()), "registry[setting.GetDBDataTypeID()]", "the encoder for a column is chosen by something other than the column setting's GetDBDataTypeID()")
				}
			}
		}
	}
	// (b) the retyping helpers return their argument only when an encoder exists, and are called with GetDBDataTypeID()
	for _, spec := range []string{"decryptor/postgresql.mapEncryptedTypeToOID", "decryptor/mysql.mapEncryptedTypeToField"} {
		fn := p.Func(spec)
		if fn == nil || fn.Blocks == nil {
			r.Anchor("R19.3", spec)
			continue
		}
		ok := false
		for _, ret := range returnsOf(fn) {
			if c, isC := retValue(ret, 1).(*ssa.Const); isC && c.Value != nil && c.Value.String() == "true" {
				ok = retValue(ret, 0) == ssa.Value(fn.Params[0])
				// dominated by the found edge of a registry lookup
				found := false
				for _, b := range fn.Blocks {
					for _, in := range b.Instrs {
						if lk, isLk := in.(*ssa.Lookup); isLk && lk.CommaOk {
							if okV := extractOf(lk, 1); okV != nil {
								for _, i := range ifsOn(okV) {
									if edgeOnly(i, i.Block().Succs[0], i.Block().Succs[1], ret.Block()) {
										found = true
									}
								}
								// `if _, ok := m[k]; !ok { return 0,false }`
								for _, rf := range *okV.Referrers() {
									if u, isU := rf.(*ssa.UnOp); isU {
										for _, i := range ifsOn(u) {
											if edgeOnly(i, i.Block().Succs[1], i.Block().Succs[0], ret.Block()) {
												found = true
											}
										}
									}
								}
							}
						}
					}
				}
				ok = ok && found
			}
		}
		r.Check(ok, "R19.3", fnName(fn), "retypes only to an id with a registered encoder", p.Pos(fn.Pos()), "returns (id, true) on the found edge only", "a description can be retyped to an id for which no encoder will convert the data")
		// callers
		obj, _ := fn.Object().(*types.Func)
		for _, g := range p.SrcFuncs("decryptor/postgresql", "decryptor/mysql") {
			for _, cs := range callsTo(g, obj) {
				n++
				a := cs.Instr.Common().Args[0]
				kc, isKc := a.(*ssa.Call)
				okArg := isKc && kc.Common().IsInvoke() && kc.Common().Method.Name() == "GetDBDataTypeID"
				// and the result is what is stored into the description
				r.Check(okArg, "R19.3", fnName(g), "description retyped from the setting's type id", p.Pos(cs.Instr.Pos()), fn.Name()+"(setting.GetDBDataTypeID())", "the description is retyped from another value than the one the data encoder is chosen by")
			}
		}
	}
	_ = n
}

func ruleR194(p *Program, r *Report) {
	fn := p.Func("encryptor/base/config.(*BasicColumnEncryptionSetting).Init")
	if fn == nil || fn.Blocks == nil {
		r.Anchor("R19.4", "BasicColumnEncryptionSetting.Init")
		return
	}
	name := fnName(fn)
	val := callNamedIn(fn, "ValidateDefaultValue")
	ok, why := false, "the default value is not validated by an encoder"
	if val != nil && val.Common().IsInvoke() {
		// encoder = registry[s.DataTypeID]
		fromRegistry := false
		for v := range backClosure(val.Common().Value) {
			if lk, isLk := v.(*ssa.Lookup); isLk {
				if _, f, okF := fieldOfLoad(lk.Index); okF && f == "DataTypeID" {
					fromRegistry = true
				}
			}
		}
		// its error is returned
		retErr := errorEdgeReturnsError(fn, val)
		// every success return that can follow a configured default passes the validation: the validation block dominates
		// the setting of SettingDefaultDataValueFlag... simpler: the success return is not reachable from the 'default != nil' edge without it
		switch {
		case !fromRegistry:
			why = "the validating encoder is not the one registered for the setting's type id"
		case !retErr:
			why = "a validation failure is not returned"
		default:
			ok = true
		}
	}
	r.Check(ok, "R19.4", name, "default value validated by the encoder of the column's type id", p.Pos(fn.Pos()), "registry[DataTypeID].ValidateDefaultValue(default) -> error returned", why+": a default that cannot be encoded as the declared type is accepted and fails (or is sent as the wrong type) at query time")
	// default value only with the default policy
	okPol := false
	for _, i := range allIfs(fn) {
		bo, isBo := i.Cond.(*ssa.BinOp)
		if !isBo || bo.Op.String() != "!=" {
			continue
		}
		_, f, okF := fieldOfLoad(bo.X)
		c, isC := bo.Y.(*ssa.Const)
		if okF && f == "ResponseOnFail" && isC && c.Value != nil && constant.StringVal(c.Value) == "default_value" {
			for _, ret := range returnsOf(fn) {
				if i.Block().Succs[0].Dominates(ret.Block()) && !isNilConst(retValue(ret, 0)) {
					okPol = true
				}
			}
		}
	}
	r.Check(okPol, "R19.4", name, "a default value requires the 'default' policy", p.Pos(fn.Pos()), "ResponseOnFail != default_value -> error", "a default value configured together with another policy is accepted")
}

func ruleR195(p *Program, r *Report) {
	n := 0
	for _, pkn := range []string{"decryptor/postgresql/types", "decryptor/mysql/types"} {
		for _, fn := range p.SrcFuncs(pkn) {
			if fn.Name() != "Encode" || fn.Blocks == nil || fn.Signature.Recv() == nil {
				continue
			}
			n++
			data := paramByName(fn, "data")
			var isDec *ssa.Call
			for _, c := range callsNamed(fn, "IsDecryptedFromContext") {
				isDec = c
			}
			onFail := callNamedIn(fn, "EncodeOnFail")
			ok, why := false, ""
			switch {
			case isDec == nil || onFail == nil:
				why = "Encode does not consult the decrypted flag and EncodeOnFail"
			default:
				// EncodeOnFail is called on the not-decrypted edge
				notDec := (*ssa.BasicBlock)(nil)
				for _, rf := range *isDec.Referrers() {
					if u, isU := rf.(*ssa.UnOp); isU && u.Op.String() == "!" {
						for _, i := range ifsOn(u) {
							notDec = i.Block().Succs[0]
						}
					}
				}
				for _, i := range ifsOn(isDec) {
					notDec = i.Block().Succs[1]
				}
				if notDec == nil || !notDec.Dominates(onFail.Block()) {
					why = "EncodeOnFail is not what the 'not decrypted' edge runs"
					break
				}
				// on that edge: error -> returned; value != nil -> returned; only otherwise may data be returned
				errOK := errorEdgeReturnsError(fn, onFail)
				valRet := false
				v := extractOf(onFail, 1)
				for _, ret := range returnsOf(fn) {
					if v != nil && retValue(ret, 1) == ssa.Value(v) && isNilConst(retValue(ret, 2)) {
						valRet = true
					}
				}
				// the replacement is told from 'no replacement' by a nil test (an empty default is a replacement)
				nilTest := false
				if v != nil {
					for _, i := range allIfs(fn) {
						if _, nonNil, isN := nilBranches(i, v); isN {
							for _, ret := range returnsOf(fn) {
								if retValue(ret, 1) == ssa.Value(v) && nonNil.Dominates(ret.Block()) {
									nilTest = true
								}
							}
						}
					}
				}
				if !errOK {
					why = "an error of the policy is not returned"
				} else if valRet && !nilTest {
					why = "the policy's replacement is recognised by its length, not by being non-nil: an empty default value is treated as 'no replacement'"
				} else if !valRet {
					why = "the replacement value of the policy is not returned"
				} else {
					ok = true
				}
				// no return of the raw data inside the not-decrypted region before EncodeOnFail answered
				for _, ret := range returnsOf(fn) {
					if retValue(ret, 1) == ssa.Value(data) && notDec.Dominates(ret.Block()) && !onFail.Block().Dominates(ret.Block()) {
						ok, why = false, "the incoming bytes are returned on the not-decrypted edge without asking the policy"
					}
				}
			}
			r.Check(ok, "R19.5", fnName(fn), "not-revealed value goes through the failure policy", p.Pos(fn.Pos()), "!decrypted -> EncodeOnFail -> (error | replacement | fall through)", why+": a reader without keys receives the stored bytes although the column's policy says default value or error")
		}
	}
	if n < 8 {
		r.Bad("R19.5", "decryptor/*/types", "Encode implementations", "-", "fewer Encode implementations found than the eight confirmed by reading")
	}
}

func init() {
	mut("C19", "int8 encoder registered under the int4 id", "decryptor/postgresql/types/int8.go", "RegisterPostgreSQLDataTypeIDEncoder(pgtype.Int8OID,", "RegisterPostgreSQLDataTypeIDEncoder(pgtype.Int4OID,", "R19.1", "has a registered encoder")
	mut("C19", "error policy returns the ciphertext silently", "decryptor/postgresql/types/int4.go", "	case common.ResponseOnFailError:\n		return nil, nil, base.NewEncodingError(format.GetColumnName())", "	case common.ResponseOnFailError:\n		return ctx, nil, nil", "R19.2", "ResponseOnFailError")
	mut("C19", "mysql string encoder loses the default case", "decryptor/mysql/types/string.go", "	case common.ResponseOnFailDefault:", "	case common.ResponseOnFail(\"default\"):", "R19.2", "ResponseOnFailDefault")
	mut("C19", "pg description retyped from the token type", "decryptor/postgresql/pg_decryptor.go", "			newOID, ok := mapEncryptedTypeToOID(setting.Setting().GetDBDataTypeID())", "			newOID, ok := mapEncryptedTypeToOID(uint32(setting.Setting().GetTokenType()))", "R19.3", "retyped from the setting")
	mut("C19", "retyping helper accepts unregistered ids", "decryptor/postgresql/type_conversion.go", "	if _, ok := pgsqlEncoders[dataTypeID]; !ok {\n		return 0, false\n	}\n", "	_ = pgsqlEncoders\n", "R19.3", "registered encoder")
	mut("C19", "default value no longer validated", "encryptor/base/config/encryptionSettings.go", "		if err = dataTypeEncoder.ValidateDefaultValue(s.DefaultDataValue); err != nil {\n			return fmt.Errorf(\"invalid default value: %w\", err)\n		}", "		_ = dataTypeEncoder", "R19.4", "validated")
	mut("C19", "text encoder skips the policy", "decryptor/postgresql/types/text.go", "	if !base.IsDecryptedFromContext(ctx) {\n		ctx, value, err := t.EncodeOnFail(ctx, format)\n		if err != nil {\n			return ctx, nil, err\n		} else if value != nil {\n			return ctx, value, nil\n		}\n	}\n\n	return ctx, data, nil\n}\n\n// Decode", "	if !base.IsDecryptedFromContext(ctx) {\n		ctx, value, err := t.EncodeOnFail(ctx, format)\n		if err != nil {\n			return ctx, data, nil\n		} else if value != nil {\n			return ctx, value, nil\n		}\n	}\n\n	return ctx, data, nil\n}\n\n// Decode", "R19.5", "failure policy")
}

func ruleR196(p *Program, r *Report) {
	for _, spec := range []string{"decryptor/mysql.(*Handler).processTextDataRow", "decryptor/mysql.(*Handler).processBinaryDataRow", "decryptor/postgresql.(*PgProxy).handleQueryDataPacket"} {
		fn := p.Func(spec)
		if fn == nil || fn.Blocks == nil {
			r.Anchor("R19.6", spec)
			continue
		}
		ctx := paramByName(fn, "ctx")
		n := 0
		for _, c := range callsNamed(fn, "onColumnDecryption") {
			n++
			a := plainArgs(c)[0]
			ok := a == ssa.Value(ctx)
			if !ok {
				// a context derived once, outside the column loop, is fine; one that merges a previous column's result is not
				if _, isPhi := a.(*ssa.Phi); !isPhi {
					derived := true
					for v := range backClosure(a) {
						if ex, isEx := v.(*ssa.Extract); isEx && ex.Tuple == ssa.Value(c) {
							derived = false
						}
					}
					ok = derived
				}
			}
			r.Check(ok, "R19.6", fnName(fn), "column subscribers get the row context", p.Pos(c.Pos()), "onColumnDecryption(ctx, ...) with the function's own ctx", "the context returned for one column is passed on to the next column: its 'decrypted' mark and column setting leak, so a later column that was not revealed skips its failure policy or is described with the wrong type")
		}
		if n == 0 {
			r.Bad("R19.6", fnName(fn), "column subscribers get the row context", p.Pos(fn.Pos()), "no onColumnDecryption call found; the row decoder has changed shape")
		}
	}
}

func init() {
	mut("C19", "mysql text row reuses the previous column's context", "decryptor/mysql/response_proxy.go", "		decrCtx, value, err = handler.onColumnDecryption(ctx, i, value, false, fields[i])", "		ctx, value, err = handler.onColumnDecryption(ctx, i, value, false, fields[i])\n		decrCtx = ctx", "R19.6", "row context")
	mut("C19", "empty default treated as no replacement", "decryptor/postgresql/types/text.go", "		} else if value != nil {\n			return ctx, value, nil\n		}\n	}\n\n	return ctx, data, nil\n}\n\n// Decode", "		} else if len(value) > 0 {\n			return ctx, value, nil\n		}\n	}\n\n	return ctx, data, nil\n}\n\n// Decode", "R19.5", "failure policy")
}

// ---- R19.7
func ruleR197(p *Program, r *Report) { ruleFormatCodes(p, r, "R19.7") }

func ruleFormatCodes(p *Program, r *Report, rule string) {
	allowed := map[string]string{
		"GetParameterFormatByIndex": "the protocol rule itself",
		"writeUint16Array":          "serialises every code as it is",
	}
	fmtSlices := map[ssa.Value]bool{}
	var work []ssa.Value
	add := func(v ssa.Value) {
		if v != nil && !fmtSlices[v] {
			fmtSlices[v] = true
			work = append(work, v)
		}
	}
	fns := p.SrcFuncs("decryptor/postgresql")
	for _, fn := range fns {
		for _, b := range fn.Blocks {
			for _, in := range b.Instrs {
				switch x := in.(type) {
				case *ssa.UnOp:
					if _, f, ok := fieldOfLoad(x); ok && (f == "paramFormats" || f == "resultFormats") {
						add(x)
					}
				case *ssa.Extract:
					if c, ok := x.Tuple.(*ssa.Call); ok && x.Index == 0 {
						if co := calleeOfCommon(c.Common()); co != nil && co.Name() == "GetResultFormats" {
							add(x)
						}
					}
				}
			}
		}
	}
	if len(work) < 3 {
		r.Anchor(rule, "loads of BindPacket.paramFormats/resultFormats and GetResultFormats results")
		return
	}
	for len(work) > 0 {
		v := work[len(work)-1]
		work = work[:len(work)-1]
		refs := v.Referrers()
		if refs == nil {
			continue
		}
		for _, rf := range *refs {
			switch x := rf.(type) {
			case *ssa.Phi:
				add(x)
			case *ssa.Slice:
				if x.X == v {
					add(x)
				}
			case *ssa.Store:
				// kept in a local variable
				if x.Val == v {
					if al, ok := x.Addr.(*ssa.Alloc); ok && al.Referrers() != nil {
						for _, ar := range *al.Referrers() {
							if u, ok := ar.(*ssa.UnOp); ok {
								add(u)
							}
						}
					}
				}
			case ssa.CallInstruction:
				callee := x.Common().StaticCallee()
				if callee == nil || callee.Blocks == nil {
					continue
				}
				for i, a := range x.Common().Args {
					if a == v && i < len(callee.Params) {
						add(callee.Params[i])
					}
				}
			}
		}
	}
	n := 0
	for v := range fmtSlices {
		refs := v.Referrers()
		if refs == nil {
			continue
		}
		for _, rf := range *refs {
			ia, ok := rf.(*ssa.IndexAddr)
			if !ok || ia.X != v {
				continue
			}
			if _, isConst := intConst(ia.Index); isConst {
				continue
			}
			// a read of the element
			read := false
			if ir := ia.Referrers(); ir != nil {
				for _, u := range *ir {
					if l, ok := u.(*ssa.UnOp); ok && l.Op == token.MUL {
						read = true
					}
				}
			}
			if !read {
				continue
			}
			n++
			fn := ia.Parent()
			if why, ok := allowed[fn.Name()]; ok {
				r.OK(rule, fnName(fn), "format code read by index", p.Pos(ia.Pos()), why)
				continue
			}
			r.Bad(rule, fnName(fn), "format code read by index", p.Pos(ia.Pos()), "a Bind format-code slice is indexed directly by a column/parameter number: with a single code (meaning: all columns) only index 0 gets it, every later typed column is encoded in the wrong format")
		}
	}
	if n < 2 {
		r.Bad(rule, "decryptor/postgresql", "format code reads", "-", fmt.Sprintf("%d indexed reads of format-code slices found, at least 2 confirmed by reading (GetParameterFormatByIndex, writeUint16Array)", n))
	}
}

// ---- R19.8
func ruleR198(p *Program, r *Report) {
	fn := p.Func("decryptor/mysql.(*Handler).QueryResponseHandler")
	if fn == nil || fn.Blocks == nil {
		r.Anchor("R19.8", "decryptor/mysql.(*Handler).QueryResponseHandler")
		return
	}
	n := 0
	for _, name := range []string{"processTextDataRow", "processBinaryDataRow"} {
		for _, c := range callsNamed(fn, name) {
			n++
			args := plainArgs(c)
			fields := args[len(args)-1]
			// the loop: nearest block that dominates the call and is the target of a back edge from a block it dominates
			var header *ssa.BasicBlock
			for d := c.Block(); d != nil; d = d.Idom() {
				for _, pr := range d.Preds {
					if d.Dominates(pr) && reaches(c.Block(), pr, nil) {
						if header == nil {
							header = d
						}
					}
				}
				if header != nil {
					break
				}
			}
			if header == nil {
				r.Bad("R19.8", fnName(fn), name+" runs for every row", p.Pos(c.Pos()), "the row-processing call is not inside a row loop")
				continue
			}
			bad := ""
			for _, b := range fn.Blocks {
				if !(header.Dominates(b) && b.Dominates(c.Block())) || b == c.Block() && false {
					continue
				}
				iff, ok := b.Instrs[len(b.Instrs)-1].(*ssa.If)
				if !ok || b == c.Block() {
					continue
				}
				okCond := false
				for v := range backClosure(iff.Cond) {
					switch x := v.(type) {
					case *ssa.Extract:
						if cc, isC := x.Tuple.(*ssa.Call); isC && isErrorType(x.Type()) {
							if co := calleeOfCommon(cc.Common()); co != nil && co.Name() == "ReadPacket" {
								okCond = true // read error
							}
						}
					case *ssa.Call:
						if co := calleeOfCommon(x.Common()); co != nil && co.Name() == "IsEOF" {
							okCond = true
						}
						if arg, isLen := isLenCall(x); isLen && sameCellLoad(arg, fields) {
							okCond = true // no columns described
						}
					case *ssa.Const:
						if k, isK := intConst(x); isK && k == 0xfe {
							okCond = true // data[0] == EOFPacket
						}
					}
				}
				if !okCond {
					bad = "the test at " + p.Pos(iff.Cond.Pos()) + " can bypass the row processing and is none of: read error, end-of-rows packet, 'no columns described' on the slice handed to " + name
				}
			}
			r.Check(bad == "", "R19.8", fnName(fn), name+" runs for every row", p.Pos(c.Pos()), "only the read error, the end-of-rows packet and len(fields) == 0 bypass it", bad+": rows of a result set whose columns were already retyped reach the client undecoded (stored ciphertext in an integer-described column)")
		}
	}
	if n < 2 {
		r.Bad("R19.8", fnName(fn), "row processing calls", "-", "fewer than the two row-processing calls (text, binary) found")
	}
}

func init() {
	mut("C19", "pg result format taken by index from the resolved list", "decryptor/postgresql/pg_decryptor.go", "			boundFormat, err := GetParameterFormatByIndex(i, bindPacket.resultFormats)", "			var err error\n			boundFormat := base.TextFormat\n			if i < len(bindPacket.resultFormats) {\n				boundFormat = base.BoundValueFormat(bindPacket.resultFormats[i])\n			}", "R19.7", "handleQueryDataPacket")
	mut("C19", "mysql text rows skipped when no column is binary after the type rewrite", "decryptor/mysql/response_proxy.go", "				if len(fields) == 0 {\n					continue\n				}\n				dataLog.Debugln(\"Process data text row\")", "				if len(binaryFieldIndexes) == 0 {\n					continue\n				}\n				dataLog.Debugln(\"Process data text row\")", "R19.8", "processTextDataRow")
}
