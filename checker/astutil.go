package main

import (
	"go/ast"
	"go/constant"
	"go/token"
	"go/types"
	"sort"
	"strings"

	"golang.org/x/tools/go/packages"
)

// methodDecls returns name -> decl for all methods whose receiver's named type is tn.
func methodDecls(pk *packages.Package, tn *types.TypeName) map[string]*ast.FuncDecl {
	out := map[string]*ast.FuncDecl{}
	for _, f := range pk.Syntax {
		for _, d := range f.Decls {
			fd, ok := d.(*ast.FuncDecl)
			if !ok || fd.Recv == nil || len(fd.Recv.List) == 0 {
				continue
			}
			obj, _ := pk.TypesInfo.Defs[fd.Name].(*types.Func)
			if obj == nil {
				continue
			}
			if recvNamed(obj) == tn {
				out[fd.Name.Name] = fd
			}
		}
	}
	return out
}

func recvNamed(f *types.Func) *types.TypeName {
	sig, _ := f.Type().(*types.Signature)
	if sig == nil || sig.Recv() == nil {
		return nil
	}
	t := sig.Recv().Type()
	if pt, ok := t.(*types.Pointer); ok {
		t = pt.Elem()
	}
	if n, ok := t.(*types.Named); ok {
		return n.Obj()
	}
	return nil
}

func recvIdent(fd *ast.FuncDecl, info *types.Info) types.Object {
	if fd.Recv == nil || len(fd.Recv.List) == 0 || len(fd.Recv.List[0].Names) == 0 {
		return nil
	}
	return info.Defs[fd.Recv.List[0].Names[0]]
}

// fieldsReadOffReceiver returns the struct fields selected directly off the
// receiver variable in fd's body, following calls to other methods of the same
// receiver (recv.m(...)) transitively.
func fieldsReadOffReceiver(pk *packages.Package, tn *types.TypeName, fd *ast.FuncDecl, methods map[string]*ast.FuncDecl) map[*types.Var]token.Pos {
	out := map[*types.Var]token.Pos{}
	seen := map[*ast.FuncDecl]bool{}
	var visit func(fd *ast.FuncDecl)
	visit = func(fd *ast.FuncDecl) {
		if fd == nil || fd.Body == nil || seen[fd] {
			return
		}
		seen[fd] = true
		recv := recvIdent(fd, pk.TypesInfo)
		if recv == nil {
			return
		}
		ast.Inspect(fd.Body, func(n ast.Node) bool {
			sel, ok := n.(*ast.SelectorExpr)
			if !ok {
				return true
			}
			id, ok := ast.Unparen(sel.X).(*ast.Ident)
			if !ok || pk.TypesInfo.Uses[id] != recv {
				return true
			}
			switch o := pk.TypesInfo.Uses[sel.Sel].(type) {
			case *types.Var:
				if o.IsField() {
					if _, dup := out[o]; !dup {
						out[o] = sel.Pos()
					}
				}
			case *types.Func:
				if recvNamed(o) == tn {
					visit(methods[o.Name()])
				}
			}
			return true
		})
	}
	visit(fd)
	return out
}

// constsOfType lists the package-level constants whose type is exactly named.
func constsOfType(tp *types.Package, named types.Type) []*types.Const {
	var out []*types.Const
	for _, n := range tp.Scope().Names() {
		if c, ok := tp.Scope().Lookup(n).(*types.Const); ok && types.Identical(c.Type(), named) {
			out = append(out, c)
		}
	}
	sort.Slice(out, func(i, j int) bool { return out[i].Name() < out[j].Name() })
	return out
}

// switchCaseConsts returns the constant objects named in the case clauses of sw
// (expression switch) and whether it has a default clause.
func switchCaseConsts(info *types.Info, sw *ast.SwitchStmt) (map[*types.Const]*ast.CaseClause, *ast.CaseClause) {
	out := map[*types.Const]*ast.CaseClause{}
	var def *ast.CaseClause
	for _, s := range sw.Body.List {
		cc := s.(*ast.CaseClause)
		if cc.List == nil {
			def = cc
			continue
		}
		for _, e := range cc.List {
			if c := constObj(info, e); c != nil {
				out[c] = cc
			}
		}
	}
	return out, def
}

func constObj(info *types.Info, e ast.Expr) *types.Const {
	switch x := ast.Unparen(e).(type) {
	case *ast.Ident:
		c, _ := info.Uses[x].(*types.Const)
		return c
	case *ast.SelectorExpr:
		c, _ := info.Uses[x.Sel].(*types.Const)
		return c
	}
	return nil
}

// constValueEq reports equal constant values.
func constValueEq(a, b constant.Value) bool {
	return a != nil && b != nil && constant.Compare(a, token.EQL, b)
}

// calleeObj resolves the static callee of a call expression (function or method), nil if dynamic.
func calleeObj(info *types.Info, call *ast.CallExpr) *types.Func {
	switch f := ast.Unparen(call.Fun).(type) {
	case *ast.Ident:
		fn, _ := info.Uses[f].(*types.Func)
		return fn
	case *ast.SelectorExpr:
		fn, _ := info.Uses[f.Sel].(*types.Func)
		return fn
	case *ast.IndexExpr:
		if id, ok := f.X.(*ast.Ident); ok {
			fn, _ := info.Uses[id].(*types.Func)
			return fn
		}
	}
	return nil
}

// funcFullName gives "pkgpath.Name" or "pkgpath.Type.Name" (module prefix stripped).
func funcFullName(f *types.Func) string {
	if f == nil {
		return ""
	}
	pkg := ""
	if f.Pkg() != nil {
		pkg = strings.TrimPrefix(f.Pkg().Path(), acraMod+"/")
	}
	if tn := recvNamed(f); tn != nil {
		return pkg + "." + tn.Name() + "." + f.Name()
	}
	return pkg + "." + f.Name()
}

func exprStr(e ast.Expr) string { return types.ExprString(e) }

// enclosingFuncs maps every FuncDecl in the package by its object.
func funcDeclsOf(pk *packages.Package) map[*types.Func]*ast.FuncDecl {
	out := map[*types.Func]*ast.FuncDecl{}
	for _, f := range pk.Syntax {
		for _, d := range f.Decls {
			if fd, ok := d.(*ast.FuncDecl); ok {
				if o, _ := pk.TypesInfo.Defs[fd.Name].(*types.Func); o != nil {
					out[o] = fd
				}
			}
		}
	}
	return out
}

// isErrNilCheck matches `x != nil` / `x == nil` where x has type error; returns the ident object and whether it is !=.
func isNilCompare(info *types.Info, e ast.Expr) (types.Object, bool, bool) {
	be, ok := ast.Unparen(e).(*ast.BinaryExpr)
	if !ok || (be.Op != token.NEQ && be.Op != token.EQL) {
		return nil, false, false
	}
	x, y := ast.Unparen(be.X), ast.Unparen(be.Y)
	if isNilIdent(info, x) {
		x, y = y, x
	}
	if !isNilIdent(info, y) {
		return nil, false, false
	}
	id, ok := x.(*ast.Ident)
	if !ok {
		return nil, false, false
	}
	return info.Uses[id], be.Op == token.NEQ, true
}

func isNilIdent(info *types.Info, e ast.Expr) bool {
	id, ok := e.(*ast.Ident)
	if !ok {
		return false
	}
	_, isNil := info.Uses[id].(*types.Nil)
	return isNil
}
