package main

import (
	"fmt"
	"go/ast"
	"go/token"
	"go/types"
	"os"
	"sort"
	"strings"
	"time"

	"golang.org/x/tools/go/callgraph"
	"golang.org/x/tools/go/callgraph/cha"
	"golang.org/x/tools/go/callgraph/vta"
	"golang.org/x/tools/go/packages"
	"golang.org/x/tools/go/ssa"
	"golang.org/x/tools/go/ssa/ssautil"
)

const acraMod = "github.com/cossacklabs/acra"
const themisPrefix = "github.com/cossacklabs/themis/gothemis"

// Program is the resolved program every rule works on.
type Program struct {
	stableG map[*ssa.Global]bool
	fieldStoreFns map[fieldKey]map[*ssa.Function]bool
	mayStoreC     map[fieldKey]map[*ssa.Function]bool
	wipeSumm map[*ssa.Function]map[int]bool
	stableF map[*ssa.Function]bool
	RepoDir  string
	Fset     *token.FileSet
	Roots    []*packages.Package
	All      map[string]*packages.Package // by import path (all deps)
	Acra     map[string]*packages.Package // packages of the acra module
	SSA      *ssa.Program
	SSAPkgs  map[string]*ssa.Package
	LoadSecs float64
	SSASecs  float64

	cg      *callgraph.Graph
	allFns  map[*ssa.Function]bool
	srcFns  []*ssa.Function // functions with bodies in acra packages (incl. anonymous)
	fnByObj map[types.Object]*ssa.Function

	callIdx     map[token.Pos]*ast.CallExpr
	retIdx      map[token.Pos]string
	provers     map[*ssa.Function]*prover
	summaries   map[*ssa.Function]*fnSummary
	summariesReady bool
	noCallers   bool
	siteCallees map[ssa.CallInstruction][]*ssa.Function
	fnCallers   map[*ssa.Function][]ssa.CallInstruction
}

// LoadOpts selects what is loaded.
type LoadOpts struct {
	RepoDir  string
	Patterns []string          // go list patterns relative to RepoDir
	Overlay  map[string][]byte // absolute file -> replacement content
	GOARCH   string
	NoSSA    bool
}

func repoDir() string {
	if d := os.Getenv("ACRA_REPO"); d != "" {
		return d
	}
	return "/repo"
}

// Load type-checks the requested packages from source (with all deps) and
// builds SSA for the acra packages. Packages outside the acra module are
// created type-only (no bodies): every rule treats them as opaque.
// gothemis is cgo and its headers are absent; errors are tolerated only there.
func Load(opts LoadOpts) (*Program, error) {
	t0 := time.Now()
	if opts.RepoDir == "" {
		opts.RepoDir = repoDir()
	}
	env := append(os.Environ(), "GOFLAGS=-mod=mod", "GOPROXY=off", "GOSUMDB=off", "GOTOOLCHAIN=local", "GOWORK=off", "CGO_ENABLED=1")
	if opts.GOARCH != "" {
		env = append(env, "GOARCH="+opts.GOARCH)
	}
	fset := token.NewFileSet()
	cfg := &packages.Config{
		Mode:    packages.LoadAllSyntax,
		Dir:     opts.RepoDir,
		Fset:    fset,
		Env:     env,
		Tests:   false,
		Overlay: opts.Overlay,
	}
	roots, err := packages.Load(cfg, opts.Patterns...)
	if err != nil {
		return nil, fmt.Errorf("packages.Load: %w", err)
	}
	if len(roots) == 0 {
		return nil, fmt.Errorf("no packages matched %v", opts.Patterns)
	}
	p := &Program{RepoDir: opts.RepoDir, Fset: fset, Roots: roots, All: map[string]*packages.Package{}, Acra: map[string]*packages.Package{}}
	var order []*packages.Package
	seen := map[*packages.Package]bool{}
	var visit func(pk *packages.Package)
	visit = func(pk *packages.Package) {
		if seen[pk] {
			return
		}
		seen[pk] = true
		paths := make([]string, 0, len(pk.Imports))
		for ip := range pk.Imports {
			paths = append(paths, ip)
		}
		sort.Strings(paths)
		for _, ip := range paths {
			visit(pk.Imports[ip])
		}
		order = append(order, pk)
	}
	for _, r := range roots {
		visit(r)
	}
	var bad []string
	for _, pk := range order {
		p.All[pk.PkgPath] = pk
		isThemis := strings.HasPrefix(pk.PkgPath, themisPrefix)
		if isAcraPath(pk.PkgPath) {
			p.Acra[pk.PkgPath] = pk
		}
		if len(pk.Errors) > 0 && !isThemis {
			for _, e := range pk.Errors {
				bad = append(bad, fmt.Sprintf("%s: %s", pk.PkgPath, e.Error()))
			}
		}
		if pk.Types == nil {
			bad = append(bad, pk.PkgPath+": no type information")
		}
	}
	if len(bad) > 0 {
		if len(bad) > 10 {
			bad = bad[:10]
		}
		return nil, fmt.Errorf("type-check failures outside gothemis (no verdict possible):\n  %s", strings.Join(bad, "\n  "))
	}
	p.LoadSecs = time.Since(t0).Seconds()
	if opts.NoSSA {
		return p, nil
	}
	t1 := time.Now()
	prog := ssa.NewProgram(fset, ssa.InstantiateGenerics)
	p.SSAPkgs = map[string]*ssa.Package{}
	for _, pk := range order {
		if pk.Types == nil {
			continue
		}
		var files []*ast.File
		var info *types.Info
		if isAcraPath(pk.PkgPath) {
			files, info = pk.Syntax, pk.TypesInfo
		}
		sp := prog.CreatePackage(pk.Types, files, info, true)
		p.SSAPkgs[pk.PkgPath] = sp
	}
	for path := range p.Acra {
		p.SSAPkgs[path].Build()
	}
	p.SSA = prog
	p.SSASecs = time.Since(t1).Seconds()
	p.index()
	return p, nil
}

func isAcraPath(path string) bool {
	return path == acraMod || strings.HasPrefix(path, acraMod+"/")
}

func (p *Program) index() {
	p.allFns = ssautil.AllFunctions(p.SSA)
	p.fnByObj = map[types.Object]*ssa.Function{}
	for fn := range p.allFns {
		if fn.Blocks == nil || fn.Pkg == nil && fn.Parent() == nil && fn.Origin() == nil {
			// keep wrappers/synthetics out of srcFns but index objects
		}
		if obj := fn.Object(); obj != nil && fn.Synthetic == "" {
			if _, dup := p.fnByObj[obj]; !dup {
				p.fnByObj[obj] = fn
			}
		}
		if fn.Blocks != nil && fn.Synthetic == "" || (fn.Blocks != nil && fn.Parent() != nil) {
			pk := fnPkgPath(fn)
			if isAcraPath(pk) {
				p.srcFns = append(p.srcFns, fn)
			}
		}
	}
	sort.Slice(p.srcFns, func(i, j int) bool { return fnName(p.srcFns[i]) < fnName(p.srcFns[j]) })
}

func fnPkgPath(fn *ssa.Function) string {
	for f := fn; f != nil; f = f.Parent() {
		if f.Pkg != nil {
			return f.Pkg.Pkg.Path()
		}
		if o := f.Origin(); o != nil && o.Pkg != nil {
			return o.Pkg.Pkg.Path()
		}
	}
	return ""
}

// fnName gives "pkgpath.(Recv).Name" with the acra module prefix stripped.
func fnName(fn *ssa.Function) string {
	s := fn.String()
	s = strings.ReplaceAll(s, acraMod+"/", "")
	return s
}

// SrcFuncs returns acra functions with bodies whose package path has one of
// the given suffix-stripped paths ("keystore/lru" etc). Empty = all.
func (p *Program) SrcFuncs(pkgs ...string) []*ssa.Function {
	if len(pkgs) == 0 {
		return p.srcFns
	}
	var out []*ssa.Function
	for _, fn := range p.srcFns {
		pp := strings.TrimPrefix(fnPkgPath(fn), acraMod+"/")
		for _, want := range pkgs {
			if pp == want || strings.HasSuffix(want, "/...") && (pp == strings.TrimSuffix(want, "/...") || strings.HasPrefix(pp, strings.TrimSuffix(want, "..."))) {
				out = append(out, fn)
				break
			}
		}
	}
	return out
}

// Pkg returns the acra package with the module-relative path rel.
func (p *Program) Pkg(rel string) *packages.Package {
	if rel == "" || rel == "." {
		return p.Acra[acraMod]
	}
	return p.Acra[acraMod+"/"+rel]
}

// CallGraph builds (once) a VTA call graph seeded with CHA.
func (p *Program) CallGraph() *callgraph.Graph {
	if p.cg == nil {
		p.cg = vta.CallGraph(p.allFns, cha.CallGraph(p.SSA))
	}
	return p.cg
}

// Func resolves "rel/pkg.Name" or "rel/pkg.(*T).Name" / "rel/pkg.(T).Name" / "rel/pkg.T.Name" to its SSA function.
func (p *Program) Func(spec string) *ssa.Function {
	obj := p.FuncObj(spec)
	if obj == nil {
		return nil
	}
	return p.Func2(obj)
}

// FuncObj resolves a spec as in Func to its types.Func.
func (p *Program) FuncObj(spec string) *types.Func {
	i := strings.LastIndex(spec, "/")
	j := strings.Index(spec[i+1:], ".")
	if j < 0 {
		return nil
	}
	pkgRel, rest := spec[:i+1+j], spec[i+1+j+1:]
	var tp *types.Package
	if pk := p.Pkg(pkgRel); pk != nil {
		tp = pk.Types
	} else if pk := p.All[pkgRel]; pk != nil {
		tp = pk.Types
	}
	if tp == nil {
		return nil
	}
	rest = strings.NewReplacer("(", "", ")", "", "*", "").Replace(rest)
	parts := strings.Split(rest, ".")
	switch len(parts) {
	case 1:
		f, _ := tp.Scope().Lookup(parts[0]).(*types.Func)
		return f
	case 2:
		tn, _ := tp.Scope().Lookup(parts[0]).(*types.TypeName)
		if tn == nil {
			return nil
		}
		obj, _, _ := types.LookupFieldOrMethod(types.NewPointer(tn.Type()), true, tp, parts[1])
		f, _ := obj.(*types.Func)
		return f
	}
	return nil
}

// Type resolves "rel/pkg.Name" to the named type object.
func (p *Program) Type(spec string) *types.TypeName {
	i := strings.LastIndex(spec, ".")
	if i < 0 {
		return nil
	}
	var tp *types.Package
	if pk := p.Pkg(spec[:i]); pk != nil {
		tp = pk.Types
	} else if pk := p.All[spec[:i]]; pk != nil {
		tp = pk.Types
	}
	if tp == nil {
		return nil
	}
	tn, _ := tp.Scope().Lookup(spec[i+1:]).(*types.TypeName)
	return tn
}

// Lookup resolves any package-level object "rel/pkg.Name".
func (p *Program) Lookup(spec string) types.Object {
	i := strings.LastIndex(spec, ".")
	if i < 0 {
		return nil
	}
	var tp *types.Package
	if pk := p.Pkg(spec[:i]); pk != nil {
		tp = pk.Types
	} else if pk := p.All[spec[:i]]; pk != nil {
		tp = pk.Types
	}
	if tp == nil {
		return nil
	}
	return tp.Scope().Lookup(spec[i+1:])
}

func (p *Program) Pos(pos token.Pos) string {
	if !pos.IsValid() {
		return "-"
	}
	ps := p.Fset.Position(pos)
	return fmt.Sprintf("%s:%d", strings.TrimPrefix(ps.Filename, p.RepoDir+"/"), ps.Line)
}

// FileOf returns the module-relative file name of pos.
func (p *Program) FileOf(pos token.Pos) string {
	if !pos.IsValid() {
		return ""
	}
	return strings.TrimPrefix(p.Fset.Position(pos).Filename, p.RepoDir+"/")
}

// FuncDecl finds the syntax of a function object.
func (p *Program) FuncDecl(obj *types.Func) (*ast.FuncDecl, *packages.Package) {
	if obj == nil || obj.Pkg() == nil {
		return nil, nil
	}
	pk := p.All[obj.Pkg().Path()]
	if pk == nil {
		return nil, nil
	}
	for _, f := range pk.Syntax {
		for _, d := range f.Decls {
			if fd, ok := d.(*ast.FuncDecl); ok && pk.TypesInfo.Defs[fd.Name] == obj {
				return fd, pk
			}
		}
	}
	return nil, pk
}

// Func2 returns the SSA function of a types.Func.
func (p *Program) Func2(obj *types.Func) *ssa.Function {
	if fn := p.SSA.FuncValue(obj); fn != nil {
		return fn
	}
	return p.fnByObj[obj]
}

// callExprAt finds the *ast.CallExpr whose Lparen is at pos (ssa.Call.Pos()).
func (p *Program) callExprAt(pos token.Pos) *ast.CallExpr {
	if p.callIdx == nil {
		p.callIdx = map[token.Pos]*ast.CallExpr{}
		for _, pk := range p.Acra {
			for _, f := range pk.Syntax {
				ast.Inspect(f, func(n ast.Node) bool {
					if c, ok := n.(*ast.CallExpr); ok {
						p.callIdx[c.Lparen] = c
					}
					return true
				})
			}
		}
	}
	return p.callIdx[pos]
}
