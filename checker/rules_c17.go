package main

import (
	"go/types"
	"strings"

	"golang.org/x/tools/go/callgraph"
	"golang.org/x/tools/go/ssa"
)

func init() {
	register(&Property{ID: "C17", Patterns: []string{"./..."}, Run: runC17})
}

func runC17(p *Program, r *Report) {
	r.Rule("R17.1", "E3", 6, "back-end calls happen under the store lock: in the v2 keystore every Backend.Put/Rename/RenameNX is executed with the exclusive store lock held and every Get/ListAll with the shared or exclusive lock held - in the calling function (lock acquired on the dominating success edge, released by a deferred call) or, transitively, in every caller")
	ruleR171(p, r)
	r.Rule("R17.2", "E3", 7, "lock pairing: a function that takes the exclusive (shared) store lock releases exactly that kind in a deferred call; in the file lock every failure exit after the in-process mutex was taken releases it, the success exit keeps it, and Unlock/RUnlock release it on every exit")
	ruleR172(p, r)
	r.Rule("R17.3", "E3", 3, "stale views become errors: each key ring transaction that depends on the state it was built from (current key, key state, free sequence number) compares that state with the freshly pulled ring and returns a transaction error before it changes anything")
	ruleR173(p, r)
	r.Rule("R17.5", "E3", 2, "no write from an unchecked view: every function that stores a ring (pushNewRingState) has, under the same exclusive lock acquisition, first pulled that ring's current state (pullRingUpdates) - a ring is never created or overwritten on the strength of what an earlier, already released lock saw")
	ruleR175(p, r)
	r.Rule("R17.4", "E3+E2", 5, "the shared v1 key cache: every method of the wrapped LRU (all of them reorder or change the list) is called under the exclusive lock, and a reader receives a fresh copy, never the stored slice that eviction wipes in place")
	ruleR174(p, r)
	r.Rule("R17.6", "E2", 3, "objects shared by concurrent keystore users hold no digest state (same rule as R01.11): every hash.Hash that is written to was created in the same function; the v2 keystore's signer is used by all readers under a shared lock")
	rulePerCallDigest(p, r, "R17.6")
}

// fsCall: invoke of a Backend method through the keystore's fs field.
func isFsInvoke(c ssa.CallInstruction, names ...string) bool {
	cm := c.Common()
	if !cm.IsInvoke() {
		return false
	}
	ok := false
	for _, n := range names {
		if cm.Method.Name() == n {
			ok = true
		}
	}
	if !ok {
		return false
	}
	_, f, isF := fieldOfLoad(cm.Value)
	return isF && f == "fs"
}

// holdsAt: fn acquires the store lock of the given kind (exclusive: "Lock"; shared: "RLock" or "Lock") on a success
// edge that is the only way to blk, and releases it in a deferred closure.
func holdsAt(fn *ssa.Function, blk *ssa.BasicBlock, exclusive bool) bool {
	kinds := []string{"Lock"}
	if !exclusive {
		kinds = append(kinds, "RLock")
	}
	for _, cs := range callsIn(fn) {
		c, ok := cs.Instr.(*ssa.Call)
		if !ok || !isFsInvoke(c, kinds...) {
			continue
		}
		if !nilEdgeDominates(c, blk) {
			continue
		}
		want := "Unlock"
		if c.Common().Method.Name() == "RLock" {
			want = "RUnlock"
		}
		// deferred release, registered on the success edge as well
		for _, d := range callsIn(fn) {
			df, isD := d.Instr.(*ssa.Defer)
			if !isD || !nilEdgeDominates(c, df.Block()) {
				continue
			}
			if mc, isMc := df.Call.Value.(*ssa.MakeClosure); isMc {
				for _, in := range callsIn(mc.Fn.(*ssa.Function)) {
					if isFsInvoke(in.Instr, want) {
						return true
					}
				}
			} else if isFsInvoke(df, want) {
				return true
			}
		}
	}
	return false
}

func (p *Program) underLock(fn *ssa.Function, blk *ssa.BasicBlock, exclusive bool, depth int, seen map[*ssa.Function]bool) (bool, string) {
	if holdsAt(fn, blk, exclusive) {
		return true, ""
	}
	if depth > 8 {
		return false, "call chain too deep"
	}
	if seen[fn] {
		return true, "" // recursion: decided by the other entries
	}
	seen[fn] = true
	cg := p.CallGraph()
	node := cg.Nodes[fn]
	var in []*callgraph.Edge
	if node != nil {
		in = node.In
	}
	n := 0
	for _, e := range in {
		if e.Caller == nil || e.Caller.Func == nil || e.Site == nil || !isAcraPath(fnPkgPath(e.Caller.Func)) {
			continue
		}
		if e.Caller.Func.Synthetic != "" {
			continue
		}
		n++
		if ok, why := p.underLock(e.Caller.Func, e.Site.Block(), exclusive, depth+1, seen); !ok {
			if why == "" {
				why = "reached from " + fnName(e.Caller.Func) + " without the lock"
			}
			return false, why
		}
	}
	if n == 0 {
		return false, "entry point " + fnName(fn) + " does not take the store lock"
	}
	return true, ""
}

func ruleR171(p *Program, r *Report) {
	for _, fn := range p.SrcFuncs("keystore/v2/keystore/filesystem") {
		seenC := map[string]int{}
		for _, cs := range callsIn(fn) {
			var exclusive bool
			switch {
			case isFsInvoke(cs.Instr, "Put", "Rename", "RenameNX"):
				exclusive = true
			case isFsInvoke(cs.Instr, "Get", "ListAll"):
				exclusive = false
			default:
				continue
			}
			name := cs.Instr.Common().Method.Name()
			seenC[name]++
			construct := "Backend." + name
			if seenC[name] > 1 {
				construct += " #" + itoa(seenC[name])
			}
			ok, why := p.underLock(fn, cs.Block, exclusive, 0, map[*ssa.Function]bool{})
			kind := "shared or exclusive"
			if exclusive {
				kind = "exclusive"
			}
			r.Check(ok, "R17.1", fnName(fn), construct+" under the "+kind+" store lock", p.Pos(cs.Instr.Pos()), "held here or in every caller", why+": two writers can interleave their read-modify-write of one ring and one update is lost, or a reader sees a half-replaced ring")
		}
	}
}

func ruleR172(p *Program, r *Report) {
	// store lock users
	for _, fn := range p.SrcFuncs("keystore/v2/keystore/filesystem") {
		for _, cs := range callsIn(fn) {
			c, ok := cs.Instr.(*ssa.Call)
			if !ok || !isFsInvoke(c, "Lock", "RLock") {
				continue
			}
			kind := c.Common().Method.Name()
			want, other := "Unlock", "RUnlock"
			if kind == "RLock" {
				want, other = "RUnlock", "Unlock"
			}
			good, bad := false, false
			for _, d := range callsIn(fn) {
				df, isD := d.Instr.(*ssa.Defer)
				if !isD {
					continue
				}
				var inner []callSite
				if mc, isMc := df.Call.Value.(*ssa.MakeClosure); isMc {
					inner = callsIn(mc.Fn.(*ssa.Function))
				}
				for _, in := range inner {
					if isFsInvoke(in.Instr, want) && nilEdgeDominates(c, df.Block()) {
						good = true
					}
					if isFsInvoke(in.Instr, other) {
						bad = true
					}
				}
			}
			// no non-deferred release
			for _, o := range callsIn(fn) {
				if _, isD := o.Instr.(*ssa.Defer); !isD && isFsInvoke(o.Instr, "Unlock", "RUnlock") {
					bad = true
				}
			}
			r.Check(good && !bad, "R17.2", fnName(fn), kind+" released by deferred "+want, p.Pos(c.Pos()), "defer registered on the success edge", "the store lock taken with "+kind+" is not released by a deferred "+want+" (or a release of the other kind / an early release is present)")
		}
	}
	// fileLock
	for _, m := range []string{"Lock", "RLock"} {
		fn := p.Func("keystore/v2/keystore/filesystem/backend.(*fileLock)." + m)
		if fn == nil || fn.Blocks == nil {
			r.Anchor("R17.2", "fileLock."+m)
			continue
		}
		var lk *ssa.Call
		var unlocks []*ssa.Call
		for _, cs := range callsIn(fn) {
			c, ok := cs.Instr.(*ssa.Call)
			if !ok || cs.Callee == nil || cs.Callee.Pkg() == nil || cs.Callee.Pkg().Path() != "sync" {
				continue
			}
			if cs.Callee.Name() == "Lock" && lk == nil {
				lk = c
			}
			if cs.Callee.Name() == "Unlock" {
				unlocks = append(unlocks, c)
			}
		}
		ok := lk != nil
		why := "the in-process mutex is not taken first"
		if ok {
			for _, ret := range returnsOf(fn) {
				released := false
				for _, u := range unlocks {
					if u.Block() == ret.Block() || u.Block().Dominates(ret.Block()) {
						released = true
					}
				}
				isErr := !isNilConst(retValue(ret, 0))
				if isErr && !released {
					ok, why = false, "a failure exit keeps the in-process mutex: the next Lock of this handle deadlocks"
				}
				if !isErr && released {
					ok, why = false, "the success exit has released the in-process mutex: two goroutines of one handle hold the store lock together"
				}
			}
		}
		r.Check(ok, "R17.2", fnName(fn), "in-process mutex held exactly on success", p.Pos(fn.Pos()), "failure exits unlock, success keeps", why)
	}
	for _, m := range []string{"Unlock", "RUnlock"} {
		fn := p.Func("keystore/v2/keystore/filesystem/backend.(*fileLock)." + m)
		if fn == nil || fn.Blocks == nil {
			r.Anchor("R17.2", "fileLock."+m)
			continue
		}
		ok := false
		for _, cs := range callsIn(fn) {
			if df, isD := cs.Instr.(*ssa.Defer); isD && cs.Callee != nil && cs.Callee.Name() == "Unlock" && df.Block() == fn.Blocks[0] {
				ok = true
			}
		}
		r.Check(ok, "R17.2", fnName(fn), "in-process mutex released on every exit", p.Pos(fn.Pos()), "defer lockSync.Unlock() first", "an exit of "+m+" keeps the in-process mutex locked")
	}
}

func ruleR173(p *Program, r *Report) {
	type txSpec struct {
		typ    string
		errs   []string
		reason string
	}
	for _, t := range []txSpec{
		{"txSetKeyCurrent", []string{"errTxConcurrentModification"}, "current key"},
		{"txChangeKeyState", []string{"errTxConcurrentModification"}, "key state"},
		{"txAddKey", []string{"errTxKeyExists"}, "sequence number"},
	} {
		fn := p.Func("keystore/v2/keystore/filesystem.(*" + t.typ + ").Apply")
		if fn == nil || fn.Blocks == nil {
			r.Anchor("R17.3", t.typ+".Apply")
			continue
		}
		var guards []*ssa.Return
		for _, e := range t.errs {
			g := p.Lookup("keystore/v2/keystore/filesystem." + e)
			guards = append(guards, returnsGlobalErr(fn, g)...)
		}
		ok := len(guards) > 0
		why := "no stale-view check"
		if ok {
			// every store into the ring's data happens on the other edge of the guarding test
			for _, b := range fn.Blocks {
				for _, in := range b.Instrs {
					st, isSt := in.(*ssa.Store)
					if !isSt {
						continue
					}
					if _, isAl := st.Addr.(*ssa.Alloc); isAl {
						continue
					}
					// a mutation of ring data or of a key reached from it
					guarded := false
					for _, i := range allIfs(fn) {
						for s := 0; s < 2; s++ {
							errSide, okSide := i.Block().Succs[s], i.Block().Succs[1-s]
							for _, g := range guards {
								if errSide.Dominates(g.Block()) && edgeOnly(i, okSide, errSide, b) {
									guarded = true
								}
							}
						}
					}
					if !guarded {
						ok, why = false, "the ring is changed on a path that has not passed the stale-view check"
					}
				}
			}
		}
		r.Check(ok, "R17.3", fnName(fn), "compares the "+t.reason+" it was built from before changing the ring", p.Pos(fn.Pos()), "mismatch returns a transaction error first", why+": an update computed from a stale view silently overwrites a concurrent writer's update")
	}
}

func ruleR174(p *Program, r *Report) {
	tn := p.Type("keystore/lru.Cache")
	if tn == nil {
		r.Anchor("R17.4", "keystore/lru.Cache")
		return
	}
	n := 0
	for _, fn := range p.SrcFuncs("keystore/lru") {
		if fn.Signature.Recv() == nil || !strings.Contains(fn.Signature.Recv().Type().String(), "lru.Cache") {
			continue
		}
		for _, cs := range callsIn(fn) {
			if cs.Callee == nil || cs.Callee.Pkg() == nil || cs.Callee.Pkg().Path() != "github.com/golang/groupcache/lru" {
				continue
			}
			n++
			// exclusive Lock before, Unlock after (deferred or later), no RLock
			locked, rlocked := false, false
			for _, o := range callsIn(fn) {
				if o.Callee == nil || o.Callee.Pkg() == nil || o.Callee.Pkg().Path() != "sync" {
					continue
				}
				oc, isCall := o.Instr.(*ssa.Call)
				if o.Callee.Name() == "Lock" && isCall && (oc.Block() == cs.Block && instrBefore(oc, cs.Instr.(ssa.Instruction)) || oc.Block().Dominates(cs.Block) && oc.Block() != cs.Block) {
					locked = true
				}
				if o.Callee.Name() == "RLock" {
					rlocked = true
				}
			}
			r.Check(locked && !rlocked, "R17.4", fnName(fn), "lru."+cs.Callee.Name()+" under the exclusive lock", p.Pos(cs.Instr.Pos()), "mutex.Lock() precedes", "the LRU list is touched without the exclusive lock (every groupcache/lru method, Get included, rewrites the list): concurrent connections race on it")
		}
		if fn.Name() == "Add" {
			okOwn := false
			for _, cs := range callsIn(fn) {
				if cs.Callee != nil && cs.Callee.Pkg() != nil && cs.Callee.Pkg().Path() == "github.com/golang/groupcache/lru" && cs.Callee.Name() == "Add" {
					v := cs.Instr.Common().Args[len(cs.Instr.Common().Args)-1]
					okOwn = true
					for x := range backClosure(v) {
						if x == ssa.Value(paramByName(fn, "keyValue")) {
							// the parameter may only be read by len/copy, never stored itself
							if mi, isMi := v.(*ssa.MakeInterface); isMi {
								if mi.X == x {
									okOwn = false
								}
								if phi, isPhi := mi.X.(*ssa.Phi); isPhi {
									for _, e := range phi.Edges {
										if e == x {
											okOwn = false
										}
									}
								}
							}
						}
					}
				}
			}
			r.Check(okOwn, "R17.4", fnName(fn), "the cache stores its own copy", p.Pos(fn.Pos()), "lru.Add(key, fresh copy)", "Add keeps the caller's slice; eviction wipes it in place while the caller may still be using the key")
		}
		readsLRU := false
		for _, cs := range callsIn(fn) {
			if cs.Callee != nil && cs.Callee.Pkg() != nil && cs.Callee.Pkg().Path() == "github.com/golang/groupcache/lru" && cs.Callee.Name() == "Get" {
				readsLRU = true
			}
		}
		// whichever method looks a value up (Get itself or a helper it was split into): the stored slice must not
		// leave the function that holds the lock - the copy is made before the lock is released
		if readsLRU && fn.Signature.Results().Len() > 0 {
			okCopy := false
			for _, ret := range returnsOf(fn) {
				v := retValue(ret, 0)
				if isNilConst(v) {
					continue
				}
				if c, isC := v.(*ssa.Const); isC && c.Value == nil {
					continue
				}
				if _, isMk := v.(*ssa.MakeSlice); isMk {
					okCopy = true
				} else if ph, isPhi := v.(*ssa.Phi); isPhi {
					all := true
					for _, e := range ph.Edges {
						if _, isMk := e.(*ssa.MakeSlice); !isMk && !isNilConst(e) {
							all = false
						}
					}
					okCopy = all
					for _, e := range ph.Edges {
						if _, isTA := e.(*ssa.TypeAssert); isTA {
							r.Bad("R17.4", fnName(fn), "reader receives a copy", p.Pos(ret.Pos()), fn.Name()+" hands the stored slice itself out of the critical section; the eviction callback overwrites it with zeros while the caller is still reading (or copying) it")
						}
					}
				} else if _, isTA := v.(*ssa.TypeAssert); isTA {
					okCopy = false
					r.Bad("R17.4", fnName(fn), "reader receives a copy", p.Pos(ret.Pos()), fn.Name()+" hands the stored slice itself out of the critical section; the eviction callback overwrites it with zeros while the caller is still reading (or copying) it")
				}
			}
			if okCopy {
				r.OK("R17.4", fnName(fn), "reader receives a copy", p.Pos(fn.Pos()), "fresh slice returned")
			}
		}
	}
	if n < 3 {
		r.Bad("R17.4", "keystore/lru", "wrapped LRU calls", "-", "fewer calls into groupcache/lru found than the three confirmed by reading")
	}
	_ = types.Typ
}

func init() {
	mut("C17", "ring written without the store lock", "keystore/v2/keystore/filesystem/keyStoreLoad.go", "func (s *KeyStore) writeKeyRing(ring *KeyRing) (err error) {\n	err = s.fs.Lock()", "func (s *KeyStore) writeKeyRing(ring *KeyRing) (err error) {\n	err = s.fs.RLock()", "R17.1", "exclusive store lock")
	mut("C17", "listing without any lock", "keystore/v2/keystore/filesystem/keyStore.go", "	err = s.fs.RLock()\n	if err != nil {\n		s.log.WithError(err).Debug(\"failed to lock store for reading\")\n		return nil, err\n	}\n	defer func() {\n		err2 := s.fs.RUnlock()", "	err = nil\n	if err != nil {\n		s.log.WithError(err).Debug(\"failed to lock store for reading\")\n		return nil, err\n	}\n	defer func() {\n		err2 := error(nil)", "R17.1", "ListAll")
	mut("C17", "write lock released as a read lock", "keystore/v2/keystore/filesystem/keyStoreLoad.go", "	err = s.fs.Lock()\n	if err != nil {\n		s.log.WithError(err).Debug(\"failed to lock store for writing\")\n		return err\n	}\n	defer func() {\n		err2 := s.fs.Unlock()\n		if err2 != nil {\n			s.log.WithError(err2).Debug(\"failed to unlock store\")\n			if err == nil {\n				err = err2\n			}\n		}\n	}()\n\n	err = s.pullRingUpdates(ring)\n	if err != nil {\n		return err\n	}\n\n	err = ring.applyPendingTX()", "	err = s.fs.Lock()\n	if err != nil {\n		s.log.WithError(err).Debug(\"failed to lock store for writing\")\n		return err\n	}\n	defer func() {\n		err2 := s.fs.RUnlock()\n		if err2 != nil {\n			s.log.WithError(err2).Debug(\"failed to unlock store\")\n			if err == nil {\n				err = err2\n			}\n		}\n	}()\n\n	err = s.pullRingUpdates(ring)\n	if err != nil {\n		return err\n	}\n\n	err = ring.applyPendingTX()", "R17.2", "Lock released by deferred Unlock")
	mut("C17", "file lock keeps the mutex when flock fails", "keystore/v2/keystore/filesystem/backend/file_lock.go", "	err := syscall.Flock(int(l.lockFile.Fd()), syscall.LOCK_EX)\n	if err != nil {\n		l.lockSync.Unlock()\n		return err\n	}", "	err := syscall.Flock(int(l.lockFile.Fd()), syscall.LOCK_EX)\n	if err != nil {\n		return err\n	}", "R17.2", "in-process mutex")
	mut("C17", "set-current ignores a concurrent change", "keystore/v2/keystore/filesystem/keyRingTX.go", "	if ring.data.Current != tx.oldSeqnum {\n		return errTxConcurrentModification\n	}\n", "", "R17.3", "current key")
	mut("C17", "add-key overwrites an existing sequence number", "keystore/v2/keystore/filesystem/keyRingTX.go", "	if k != nil {\n		return errTxKeyExists\n	}\n", "	_ = k\n", "R17.3", "sequence number")
	mut("C17", "cache readers under the read lock (original defect)", "keystore/lru/cache.go", "	cache.mutex.Lock()\n	defer cache.mutex.Unlock()\n	value, ok := cache.lru.Get(keyID)", "	cache.mutex.RLock()\n	defer cache.mutex.RUnlock()\n	value, ok := cache.lru.Get(keyID)", "R17.4", "lru.Get")
	mut("C17", "cache stores the caller's slice (original defect)", "keystore/lru/cache.go", "	cache.lru.Add(keyID, stored)", "	cache.lru.Add(keyID, keyValue)", "R17.4", "own copy")
	mut("C17", "cache hands out the stored slice (original defect)", "keystore/lru/cache.go", "		result := make([]byte, len(stored))\n		copy(result, stored)\n		return result, ok", "		return stored, ok", "R17.4", "copy")
}

func ruleR175(p *Program, r *Report) {
	n := 0
	for _, fn := range p.SrcFuncs("keystore/v2/keystore/filesystem") {
		pushes := callsNamed(fn, "pushNewRingState")
		if len(pushes) == 0 || fn.Name() == "pushNewRingState" {
			continue
		}
		var lock *ssa.Call
		for _, cs := range callsIn(fn) {
			if c, ok := cs.Instr.(*ssa.Call); ok && isFsInvoke(c, "Lock") {
				lock = c
			}
		}
		for _, ps := range pushes {
			n++
			ok, why := false, ""
			switch {
			case lock == nil:
				why = "the ring is stored by a function that does not itself take the exclusive lock and re-read the ring"
			default:
				for _, pl := range callsNamed(fn, "pullRingUpdates") {
					if nilEdgeDominates(lock, pl.Block()) && (pl.Block().Dominates(ps.Block()) || pl.Block() == ps.Block() && instrBefore(pl, ps)) {
						ok = true
					}
				}
				if !ok {
					why = "the ring is stored without having been re-read after the exclusive lock was taken"
				}
			}
			r.Check(ok, "R17.5", fnName(fn), "ring re-read under the lock before it is stored", p.Pos(ps.Pos()), "Lock -> pullRingUpdates -> ... -> pushNewRingState", why+": what another writer stored between the earlier look and this write is overwritten (a freshly created ring wipes the keys another handle just added)")
		}
	}
	if n < 2 {
		r.Bad("R17.5", "keystore/v2/keystore/filesystem", "ring writers", "-", "fewer ring-storing functions found than the two confirmed by reading")
	}
}

func init() {
	mut("C17", "a missing ring is created without looking again under the lock", "keystore/v2/keystore/filesystem/keyStoreLoad.go", "	err = s.pullRingUpdates(ring)\n	if err != nil {\n		// If we tried to pull non-existent key ring, create a new empty one instead.\n		if err == backend.ErrNotExist {\n			return s.pushNewRingState(ring)\n		}\n		return err\n	}\n	return nil", "	return s.pushNewRingState(ring)", "R17.5", "re-read under the lock")
}

func init() {
	mut("C17", "lru Get split: the locked helper returns the stored slice, the copy is made after the lock is released", "keystore/lru/cache.go", "		// the stored slice is wiped in place when its entry is evicted: hand out a copy\n		result := make([]byte, len(stored))\n		copy(result, stored)\n		return result, ok", "		return stored, ok", "R17.4", "reader receives a copy")
}
