package main

import (
	"go/types"
	"strings"

	"golang.org/x/tools/go/ssa"
)

// Wiring of the per-session proxy (shared by C04, C11, C15): events in proxyFactory.New identified by the
// static type of the registered object, so the rules are indifferent to unrelated statement order.
type wireEvent struct {
	Instr ssa.CallInstruction
	Kind  string   // Subscribe | AddCallback | AddQueryObserver
	Types []string // possible concrete types of the argument (phi => several)
}

func concreteTypesOf(v ssa.Value) []string {
	var out []string
	seen := map[ssa.Value]bool{}
	var walk func(v ssa.Value)
	walk = func(v ssa.Value) {
		if v == nil || seen[v] {
			return
		}
		seen[v] = true
		switch x := v.(type) {
		case *ssa.MakeInterface:
			out = append(out, strings.ReplaceAll(x.X.Type().String(), acraMod+"/", ""))
		case *ssa.ChangeInterface:
			walk(x.X)
		case *ssa.Phi:
			for _, e := range x.Edges {
				walk(e)
			}
		case *ssa.UnOp:
			if a, ok := x.X.(*ssa.Alloc); ok {
				for _, s := range storesInto(a) {
					walk(s.Val)
				}
				return
			}
			out = append(out, strings.ReplaceAll(v.Type().String(), acraMod+"/", ""))
		case *ssa.Extract:
			if c, ok := x.Tuple.(*ssa.Call); ok {
				// constructor returning an interface: look at what it returns
				if callee := c.Common().StaticCallee(); callee != nil && callee.Blocks != nil {
					for _, ret := range returnsOf(callee) {
						if x.Index < len(ret.Results) && !isNilConst(retValue(ret, x.Index)) {
							if _, isIface := retValue(ret, x.Index).Type().Underlying().(*types.Interface); isIface {
								walk(retValue(ret, x.Index))
								continue
							}
						}
					}
				}
			}
			out = append(out, strings.ReplaceAll(v.Type().String(), acraMod+"/", ""))
		case *ssa.Call:
			if callee := x.Common().StaticCallee(); callee != nil && callee.Blocks != nil {
				if _, isIface := x.Type().Underlying().(*types.Interface); isIface {
					for _, ret := range returnsOf(callee) {
						if len(ret.Results) > 0 {
							walk(retValue(ret, 0))
						}
					}
					return
				}
			}
			out = append(out, strings.ReplaceAll(v.Type().String(), acraMod+"/", ""))
		default:
			out = append(out, strings.ReplaceAll(v.Type().String(), acraMod+"/", ""))
		}
	}
	walk(v)
	return uniq(out)
}

func wireEvents(fn *ssa.Function) []wireEvent {
	var out []wireEvent
	for _, cs := range callsIn(fn) {
		if cs.Callee == nil {
			continue
		}
		kind := ""
		switch cs.Callee.Name() {
		case "SubscribeOnAllColumnsDecryption":
			kind = "Subscribe"
		case "AddCallback":
			kind = "AddCallback"
		case "AddQueryObserver":
			kind = "AddQueryObserver"
		default:
			continue
		}
		args := cs.Instr.Common().Args
		if len(args) == 0 {
			continue
		}
		out = append(out, wireEvent{cs.Instr, kind, concreteTypesOf(args[len(args)-1])})
	}
	return out
}

func (e wireEvent) has(sub string) bool {
	for _, t := range e.Types {
		if strings.Contains(t, sub) {
			return true
		}
	}
	return false
}

func findEvents(evs []wireEvent, kind, typeSub string) []wireEvent {
	var out []wireEvent
	for _, e := range evs {
		if e.Kind == kind && e.has(typeSub) {
			out = append(out, e)
		}
	}
	return out
}

// precedesAll: every a executes before every b whenever both execute (block dominance / order).
func precedesAll(as, bs []wireEvent) bool {
	for _, a := range as {
		for _, b := range bs {
			ai, bi := a.Instr.(ssa.Instruction), b.Instr.(ssa.Instruction)
			if _, deferred := ai.(*ssa.Defer); deferred {
				return false // runs when the function returns: after everything else
			}
			if _, isGo := ai.(*ssa.Go); isGo {
				return false
			}
			if ai.Block() == bi.Block() {
				if !instrBefore(ai, bi) {
					return false
				}
				continue
			}
			// b can never be followed by a, and a can be followed by b
			if reaches(bi.Block(), ai.Block(), nil) || !reaches(ai.Block(), bi.Block(), nil) {
				return false
			}
		}
	}
	return true
}

var proxyFactories = []string{"decryptor/postgresql.(*proxyFactory).New", "decryptor/mysql.(*proxyFactory).New"}
