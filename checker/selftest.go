package main

import (
	"bytes"
	"fmt"
	"os"
	"os/exec"
	"path/filepath"
	"sort"
	"strings"
	"sync"
)

// Mutant is one self-test: a type-correct edit of one acra file, supplied to the
// loader as an in-memory overlay (nothing is written under /repo), which must
// make the named rule report a violation whose key contains Expect.
type Mutant struct {
	Property string
	Name     string
	File     string // module-relative
	Old, New string // Old must occur exactly once in File
	Rule     string // rule expected to fire
	Expect   string // substring of the violation key (may be empty)
}

var mutants []Mutant

func mut(prop, name, file, old, new, rule, expect string) {
	mutants = append(mutants, Mutant{prop, name, file, old, new, rule, expect})
}

type mutResult struct {
	Name   string `json:"name"`
	Rule   string `json:"rule"`
	Result string `json:"result"` // caught | MISSED | stale | broken-build
	Detail string `json:"detail,omitempty"`
}

func runMutant(m Mutant) mutResult {
	res := mutResult{Name: m.Name, Rule: m.Rule}
	abs := filepath.Join(repoDir(), m.File)
	src, err := os.ReadFile(abs)
	if err != nil {
		res.Result, res.Detail = "stale", err.Error()
		return res
	}
	if n := bytes.Count(src, []byte(m.Old)); n != 1 {
		res.Result, res.Detail = "stale", fmt.Sprintf("mutation site text occurs %d times in %s (source changed since the mutant was written)", n, m.File)
		return res
	}
	tmp, err := os.MkdirTemp("", "acraverify-mut")
	if err != nil {
		res.Result, res.Detail = "stale", err.Error()
		return res
	}
	defer os.RemoveAll(tmp)
	repl := filepath.Join(tmp, "f.go")
	os.WriteFile(repl, bytes.Replace(src, []byte(m.Old), []byte(m.New), 1), 0o644)
	self, _ := os.Executable()
	cmd := exec.Command(self, "check", m.Property, "--overlay", abs+"="+repl, "--no-evidence")
	cmd.Env = append(os.Environ(), "VERIF_DIR="+tmp+"/verif-out", "ACRAVERIFY_LEDGER="+filepath.Join(verifDir(), "known_findings.json"))
	out, _ := cmd.CombinedOutput()
	s := string(out)
	if strings.Contains(s, "type-check failures") {
		res.Result, res.Detail = "broken-build", firstLines(s, 6)
		return res
	}
	// A violation line of the expected rule: "  Rxx.y|func|construct at pos"
	for _, line := range strings.Split(s, "\n") {
		t := strings.TrimSpace(line)
		if strings.HasPrefix(t, m.Rule+"|") && strings.Contains(t, m.Expect) && !strings.HasPrefix(line, "KNOWN-FINDING") {
			res.Result, res.Detail = "caught", t
			return res
		}
	}
	res.Result, res.Detail = "MISSED", firstLines(s, 12)
	return res
}

func firstLines(s string, n int) string {
	l := strings.Split(s, "\n")
	if len(l) > n {
		l = l[:n]
	}
	return strings.Join(l, "\n")
}

func selftest(prop string, jobs int) []mutResult {
	var ms []Mutant
	for _, m := range mutants {
		if prop == "all" || m.Property == prop {
			ms = append(ms, m)
		}
	}
	res := make([]mutResult, len(ms))
	sem := make(chan struct{}, jobs)
	var wg sync.WaitGroup
	for i := range ms {
		wg.Add(1)
		go func(i int) {
			defer wg.Done()
			sem <- struct{}{}
			res[i] = runMutant(ms[i])
			<-sem
		}(i)
	}
	wg.Wait()
	sort.Slice(res, func(i, j int) bool { return res[i].Name < res[j].Name })
	return res
}

func cmdSelftest(args []string) int {
	if len(args) < 1 {
		usage()
	}
	jobs := 4
	for i := 1; i < len(args); i++ {
		if args[i] == "--jobs" {
			i++
			fmt.Sscanf(args[i], "%d", &jobs)
		}
	}
	res := selftest(args[0], jobs)
	exit := 0
	for _, r := range res {
		fmt.Printf("%-12s %-8s %s\n", r.Result, r.Rule, r.Name)
		if r.Result == "MISSED" || r.Result == "broken-build" {
			exit = 1
			fmt.Println(indent(r.Detail))
		}
		if r.Result == "stale" {
			fmt.Println(indent(r.Detail))
		}
	}
	return exit
}

func indent(s string) string { return "    " + strings.ReplaceAll(s, "\n", "\n    ") }

// runSelftestInto runs the property's mutant corpus (thorough tier) and records
// the outcome. A missed mutant means the checker lost its teeth: fatal.
func runSelftestInto(r *Report, prop string) {
	res := selftest(prop, 4)
	caught := 0
	for _, m := range res {
		switch m.Result {
		case "caught":
			caught++
		case "MISSED", "broken-build":
			r.Fatal = append(r.Fatal, fmt.Sprintf("self-test mutant %q (%s) %s: the rule no longer detects its own seeded breakage\n%s", m.Name, m.Rule, m.Result, m.Detail))
		case "stale":
			r.Note("self-test mutant %q is stale: %s", m.Name, m.Detail)
		}
	}
	r.Extra["selftest_mutants"] = res
	r.Extra["selftest_caught"] = caught
	r.Extra["selftest_total"] = len(res)
}
