package main

import (
	"path/filepath"
	"fmt"
	"go/ast"
	"go/token"
	"go/types"
	"strings"

	"golang.org/x/tools/go/ssa"
)

func init() {
	register(&Property{ID: "C05", Patterns: []string{"./..."}, Run: runC05})
}

func runC05(p *Program, r *Report) {
	r.Rule("R05.1", "E3", 6, "verdict withholds the packet: PostgreSQL — sendPacket is unreachable from the censored==true edge within one loop iteration, censored is result 0 of handleClientPacket, every handleQueryPacket verdict is propagated, the firewall-error edge of handleQueryPacket returns true; MySQL — from the HandleQuery error edge no write to the database connection is reachable before the next packet is read; both answer the client with an error")
	r.Rule("R05.2", "E3", 10, "chain semantics: AcraCensor.HandleQuery returns the syntax error before the handler loop unless parse errors are tolerated; inside the loop a handler error is returned as is and 'stop' (continueHandling == false) returns nil; DenyAll always returns an error, AllowAll returns (false, nil); Allow and Deny consult queries, tables and patterns, Deny answering each match with a non-nil error")
	r.Rule("R05.3", "E3", 2, "no pending entry for an unsent statement: in handleClientPacket no return reachable after pendingQueryPackets.Add can carry censored == true")
	r.Rule("R05.4", "E4", 5, "pattern matcher siblings: every handle*Statement reached from checkSinglePatternMatch that compares fields one by one returns true when its last comparison has succeeded")
	ruleR051(p, r)
	ruleR052(p, r)
	ruleR053(p, r)
	ruleR054(p, r)
	r.Rule("R05.5", "E2", 2, "table rules compare whole table names: every lookup into a table-rule set made by the firewall's table matchers uses a key printed from the complete table expression (sqlparser.String of the TableName / table expression, qualifier included), never from a component such as the bare name")
	ruleR055(p, r)
	r.Rule("R05.6", "E3", 1, "every security handler sees every statement: in AcraCensor.HandleQuery the only conditions under which a handler of the chain is skipped are the two handler-kind tests (capture, ignore); no property of the statement - parsed or not - makes the loop pass over an allow/deny/denyall handler")
	ruleR056(p, r)
	r.Rule("R05.7", "E3", 12, "a pattern list matches a list of the same length: in the firewall's pattern matchers every loop that walks a list of the pattern and indexes the corresponding list of the statement is preceded by a comparison of the two lengths (the one confirmed exception, the value tuple, handles a longer statement list through the %%LIST_OF_VALUES%% pattern); without it a statement with extra rows, columns or expressions is admitted by a pattern that describes only its beginning")
	ruleR057(p, r)
}

func blocksWithCall(fn *ssa.Function, pred func(cs callSite) bool) map[*ssa.BasicBlock]bool {
	out := map[*ssa.BasicBlock]bool{}
	for _, cs := range callsIn(fn) {
		if pred(cs) {
			out[cs.Block] = true
		}
	}
	return out
}

func ruleR051(p *Program, r *Report) {
	const pg = "decryptor/postgresql.(*PgProxy)."
	// --- PostgreSQL main loop
	if fn := p.Func(pg + "ProxyClientConnection"); fn == nil || fn.Blocks == nil {
		r.Anchor("R05.1", pg+"ProxyClientConnection")
	} else {
		name := fnName(fn)
		hcp := p.FuncObj(pg + "handleClientPacket")
		send := p.FuncObj("decryptor/postgresql.(*PacketHandler).sendPacket")
		read := p.FuncObj("decryptor/postgresql.(*PacketHandler).ReadClientPacket")
		cerr := p.FuncObj(pg + "sendClientError")
		if hcp == nil || send == nil || read == nil || cerr == nil {
			r.Anchor("R05.1", "handleClientPacket / sendPacket / ReadClientPacket / sendClientError")
		} else {
			sends := callsTo(fn, send)
			readBlocks := blocksWithCall(fn, func(cs callSite) bool { return cs.Callee == read })
			if len(sends) == 0 || len(readBlocks) == 0 {
				r.Bad("R05.1", name, "sendPacket / ReadClientPacket", p.Pos(fn.Pos()), "proxy loop no longer reads or forwards packets through the recognised calls")
			}
			for _, hc := range callsTo(fn, hcp) {
				censored := extractOf(hc.Instr.Value(), 0)
				if censored == nil {
					r.Bad("R05.1", name, "censored := handleClientPacket()", p.Pos(hc.Instr.Pos()), "verdict of handleClientPacket is discarded")
					continue
				}
				ifs := ifsOn(censored)
				if len(ifs) == 0 {
					r.Bad("R05.1", name, "if censored", p.Pos(hc.Instr.Pos()), "the verdict is never branched on")
					continue
				}
				for _, i := range ifs {
					tb := i.Block().Succs[0]
					leak := false
					for _, s := range sends {
						if reaches(tb, s.Block, readBlocks) {
							leak = true
						}
					}
					r.Check(!leak, "R05.1", name, "censored edge never reaches sendPacket", p.Pos(i.Pos()), "within one iteration the rejected packet cannot be forwarded", "a packet rejected by the firewall can still reach packet.sendPacket() in the same iteration")
					answered := false
					for _, c := range callsTo(fn, cerr) {
						if tb.Dominates(c.Block) {
							answered = true
						}
					}
					r.Check(answered, "R05.1", name, "censored edge answers with sendClientError", p.Pos(i.Pos()), "client receives an error", "the client is not told that its statement was rejected")
				}
				// every sendPacket is dominated by the false edge
				for _, s := range sends {
					okDom := false
					for _, i := range ifs {
						if edgeOnly(i, i.Block().Succs[1], i.Block().Succs[0], s.Block) {
							okDom = true
						}
					}
					r.Check(okDom, "R05.1", name, "sendPacket only on censored == false", p.Pos(s.Instr.Pos()), "dominated by the not-censored edge", "packet.sendPacket() can run without the verdict having been checked")
				}
			}
		}
	}
	// --- handleClientPacket propagates every handleQueryPacket verdict
	hq := p.FuncObj(pg + "handleQueryPacket")
	if fn := p.Func(pg + "handleClientPacket"); fn == nil || fn.Blocks == nil || hq == nil {
		r.Anchor("R05.1", pg+"handleClientPacket / handleQueryPacket")
	} else {
		for _, c := range callsTo(fn, hq) {
			v := extractOf(c.Instr.Value(), 0)
			ok := false
			if v != nil {
				// Every return reachable from the call either returns this very value as result 0, or lies
				// behind the false edge of a test of it. Accepted shapes: `return hq(...)` and
				// `c, err := hq(...); if err != nil || c { return c, err }; ...`.
				falseEdges := map[*ssa.BasicBlock]bool{}
				for _, i := range ifsOn(v) {
					falseEdges[i.Block().Succs[1]] = true
				}
				ok = true
				carries := 0
				for _, ret := range returnsOf(fn) {
					if isRecoverBlock(ret.Block()) || !reaches(c.Block, ret.Block(), nil) {
						continue
					}
					if ret.Block() == c.Block && !instrBefore(c.Instr.(ssa.Instruction), ret) {
						continue
					}
					if retValue(ret, 0) == ssa.Value(v) {
						carries++
						continue
					}
					if reaches(c.Block, ret.Block(), falseEdges) {
						ok = false
					}
				}
				if carries == 0 {
					ok = false
				}
			}
			r.Check(ok, "R05.1", fnName(fn), "propagates verdict of handleQueryPacket", p.Pos(c.Instr.Pos()), "result 0 is returned to the proxy loop", "the firewall verdict of handleQueryPacket is dropped: the rejected statement is forwarded")
		}
	}
	// --- handleQueryPacket: censor error edge returns true
	if fn := p.Func(pg + "handleQueryPacket"); fn == nil || fn.Blocks == nil {
		r.Anchor("R05.1", pg+"handleQueryPacket")
	} else {
		checkCensorEdge(p, r, fn, func(nonNil *ssa.BasicBlock, call ssa.CallInstruction) (bool, string) {
			for b := range reachableFrom(nonNil, nil) {
				if len(b.Instrs) == 0 {
					continue
				}
				if ret, ok := b.Instrs[len(b.Instrs)-1].(*ssa.Return); ok && !isRecoverBlock(b) {
					if !isTrueConst(retValue(ret, 0)) {
						return false, "a path from the firewall-error edge returns censored != true at " + p.Pos(ret.Pos())
					}
				}
			}
			// and the packet rewrite / observers are not run on that edge
			return true, ""
		})
	}
	// --- MySQL
	const my = "decryptor/mysql.(*Handler)."
	if fn := p.Func(my + "ProxyClientConnection"); fn == nil || fn.Blocks == nil {
		r.Anchor("R05.1", my+"ProxyClientConnection")
	} else {
		readP := p.FuncObj("decryptor/mysql.ReadPacket")
		cerr := p.FuncObj(my + "sendClientError")
		if readP == nil || cerr == nil {
			r.Anchor("R05.1", "mysql ReadPacket / sendClientError")
		} else {
			readBlocks := blocksWithCall(fn, func(cs callSite) bool { return cs.Callee == readP })
			dbWrites := blocksWithCall(fn, func(cs callSite) bool {
				cc := cs.Instr.Common()
				if !cc.IsInvoke() || cc.Method.Name() != "Write" {
					return false
				}
				_, f, ok := fieldOfLoad(cc.Value)
				return ok && f == "dbConnection"
			})
			if len(readBlocks) == 0 || len(dbWrites) == 0 {
				r.Bad("R05.1", fnName(fn), "ReadPacket / dbConnection.Write", p.Pos(fn.Pos()), "proxy loop no longer reads packets or writes to the database through the recognised calls")
			}
			checkCensorEdge(p, r, fn, func(nonNil *ssa.BasicBlock, call ssa.CallInstruction) (bool, string) {
				for wb := range dbWrites {
					if reaches(nonNil, wb, readBlocks) {
						return false, "dbConnection.Write is reachable from the firewall-error edge before the next ReadPacket"
					}
				}
				answered := false
				for _, c := range callsTo(fn, cerr) {
					if nonNil.Dominates(c.Block) {
						answered = true
					}
				}
				if !answered {
					return false, "the client is not sent an error on the firewall-error edge"
				}
				return true, ""
			})
		}
	}
}

func isTrueConst(v ssa.Value) bool {
	c, ok := v.(*ssa.Const)
	return ok && c.Value != nil && c.Value.String() == "true"
}
func isFalseConst(v ssa.Value) bool {
	c, ok := v.(*ssa.Const)
	return ok && c.Value != nil && c.Value.String() == "false"
}

// condIfs: If instructions whose condition is v or a short-circuit phi/binop involving v.
func condIfs(v ssa.Value) []*ssa.If {
	out := ifsOn(v)
	if refs := v.Referrers(); refs != nil {
		for _, rf := range *refs {
			if ph, ok := rf.(*ssa.Phi); ok {
				out = append(out, ifsOn(ph)...)
			}
		}
	}
	return out
}

// trueTargets: successor blocks taken when v is true, for an If on v or on a phi merging v (a || b form).
func trueTargets(i *ssa.If, v ssa.Value) []*ssa.BasicBlock {
	return []*ssa.BasicBlock{i.Block().Succs[0]}
}

// checkCensorEdge finds `err := censor.HandleQuery(q); if err != nil` in fn and applies judge to the non-nil successor.
func checkCensorEdge(p *Program, r *Report, fn *ssa.Function, judge func(nonNil *ssa.BasicBlock, call ssa.CallInstruction) (bool, string)) {
	found := false
	for _, cs := range callsIn(fn) {
		cc := cs.Instr.Common()
		if !(cc.IsInvoke() && cc.Method.Name() == "HandleQuery") && !(cs.Callee != nil && funcFullName(cs.Callee) == "acra-censor.AcraCensor.HandleQuery") {
			continue
		}
		errv := cs.Instr.Value()
		if errv == nil {
			continue
		}
		if refs := errv.Referrers(); refs != nil {
			for _, rf := range *refs {
				bo, ok := rf.(*ssa.BinOp)
				if !ok {
					continue
				}
				for _, i := range ifsOn(bo) {
					_, nonNil, ok := nilBranches(i, errv)
					if !ok {
						continue
					}
					found = true
					good, why := judge(nonNil, cs.Instr)
					r.Check(good, "R05.1", fnName(fn), "firewall error edge withholds the statement", p.Pos(cs.Instr.Pos()), "rejected statement is not forwarded, client is answered", why)
				}
			}
		}
	}
	if !found {
		r.Bad("R05.1", fnName(fn), "censor.HandleQuery verdict", p.Pos(fn.Pos()), "the firewall is not consulted, or its error is not branched on")
	}
}

func ruleR052(p *Program, r *Report) {
	fn := p.Func("acra-censor.(*AcraCensor).HandleQuery")
	if fn == nil || fn.Blocks == nil {
		r.Anchor("R05.2", "acra-censor.(*AcraCensor).HandleQuery")
	} else {
		name := fnName(fn)
		// the generic CheckQuery invoke inside the loop
		var check *ssa.Call
		for _, cs := range callsIn(fn) {
			cc := cs.Instr.Common()
			if cc.IsInvoke() && cc.Method.Name() == "CheckQuery" {
				check, _ = cs.Instr.(*ssa.Call)
			}
		}
		if check == nil {
			r.Bad("R05.2", name, "handler.CheckQuery", p.Pos(fn.Pos()), "handlers are not consulted")
		} else {
			cont, errv := extractOf(check, 0), extractOf(check, 1)
			// err != nil => return err
			okErr := false
			if errv != nil {
				if refs := errv.Referrers(); refs != nil {
					for _, rf := range *refs {
						if bo, ok := rf.(*ssa.BinOp); ok {
							for _, i := range ifsOn(bo) {
								if _, nonNil, ok := nilBranches(i, errv); ok {
									okErr = allReturns(nonNil, check.Block(), func(ret *ssa.Return) bool { return retValue(ret, 0) == ssa.Value(errv) })
								}
							}
						}
					}
				}
			}
			r.Check(okErr, "R05.2", name, "handler error is returned", p.Pos(check.Pos()), "err != nil edge returns that error without consulting further handlers", "a handler's rejection is not returned as is: the statement is let through or a later handler overrides the decision")
			okStop := false
			if cont != nil {
				for _, i := range ifsOn(cont) {
					// `if !continueHandling` => cond is UnOp NOT of cont? ifsOn(cont) catches `if cont` form
					okStop = allReturns(i.Block().Succs[1], check.Block(), func(ret *ssa.Return) bool { return isNilConst(retValue(ret, 0)) })
				}
				if refs := cont.Referrers(); refs != nil {
					for _, rf := range *refs {
						if u, ok := rf.(*ssa.UnOp); ok && u.Op == token.NOT {
							for _, i := range ifsOn(u) {
								okStop = allReturns(i.Block().Succs[0], check.Block(), func(ret *ssa.Return) bool { return isNilConst(retValue(ret, 0)) })
							}
						}
					}
				}
			}
			r.Check(okStop, "R05.2", name, "continueHandling == false allows", p.Pos(check.Pos()), "first decisive allow returns nil at once", "an explicit allow does not end the chain")
			// syntax error before the loop
			okSyntax := false
			for _, b := range fn.Blocks {
				for _, in := range b.Instrs {
					bo, ok := in.(*ssa.BinOp)
					if !ok || bo.Op != token.EQL {
						continue
					}
					isSyn := func(v ssa.Value) bool {
						u, ok := v.(*ssa.UnOp)
						if !ok {
							return false
						}
						g, ok := u.X.(*ssa.Global)
						return ok && g.Name() == "ErrQuerySyntaxError"
					}
					if !isSyn(bo.X) && !isSyn(bo.Y) {
						continue
					}
					for _, i := range ifsOn(bo) {
						// inside the true region: branch on ignoreParseError
						for tb := range reachableFrom(i.Block().Succs[0], map[*ssa.BasicBlock]bool{check.Block(): true}) {
							for _, in2 := range tb.Instrs {
								i2, ok := in2.(*ssa.If)
								if !ok {
									continue
								}
								if _, f, ok := fieldOfLoad(i2.Cond); ok && f == "ignoreParseError" {
									okSyntax = allReturns(tb.Succs[1], check.Block(), func(ret *ssa.Return) bool { return !isNilConst(retValue(ret, 0)) })
								}
							}
						}
					}
				}
			}
			r.Check(okSyntax, "R05.2", name, "unparseable statement rejected unless tolerated", p.Pos(fn.Pos()), "ErrQuerySyntaxError && !ignoreParseError returns the error before any handler runs", "a statement that cannot be parsed is not rejected when parse errors are not tolerated")
		}
	}
	// terminators
	retCheck := func(spec, what string, pred func(ret *ssa.Return) bool, bad string) {
		fn := p.Func(spec)
		if fn == nil || fn.Blocks == nil {
			r.Anchor("R05.2", spec)
			return
		}
		ok := true
		n := 0
		for _, ret := range returnsOf(fn) {
			if isRecoverBlock(ret.Block()) {
				continue
			}
			n++
			if !pred(ret) {
				ok = false
			}
		}
		r.Check(ok && n > 0, "R05.2", fnName(fn), what, p.Pos(fn.Pos()), "holds on every return", bad)
	}
	retCheck("acra-censor/handlers.(*DenyAllHandler).CheckQuery", "always returns an error", func(ret *ssa.Return) bool { return !isNilConst(retValue(ret, 1)) }, "deny-all terminator lets a statement through")
	retCheck("acra-censor/handlers.(*AllowAllHandler).CheckQuery", "always returns (false, nil)", func(ret *ssa.Return) bool { return isFalseConst(retValue(ret, 0)) && isNilConst(retValue(ret, 1)) }, "allow-all terminator does not end the chain with an allow")
	// Allow / Deny consult all three rule kinds
	for _, h := range []struct {
		spec string
		deny bool
	}{{"acra-censor/handlers.(*DenyHandler).CheckQuery", true}, {"acra-censor/handlers.(*AllowHandler).CheckQuery", false}} {
		fn := p.Func(h.spec)
		if fn == nil || fn.Blocks == nil {
			r.Anchor("R05.2", h.spec)
			continue
		}
		for _, m := range []string{"CheckExactQueriesMatch", "CheckTableNamesMatch", "CheckPatternsMatching"} {
			mo := p.FuncObj("acra-censor/common." + m)
			if mo == nil {
				r.Anchor("R05.2", "acra-censor/common."+m)
				continue
			}
			ok := false
			why := "matcher " + m + " is not consulted"
			for _, cs := range callsTo(fn, mo) {
				var res ssa.Value = cs.Instr.Value()
				if mo.Type().(*types.Signature).Results().Len() > 1 {
					idx := 0
					if !h.deny {
						idx = 1 // allow: all tables in the list
					}
					if ex := extractOf(res, idx); ex != nil {
						res = ex
					} else {
						res = nil
					}
				}
				if res == nil {
					why = "result of " + m + " is discarded"
					continue
				}
				for _, i := range ifsOn(res) {
					tb := i.Block().Succs[0]
					if len(tb.Instrs) == 0 {
						continue
					}
					good := allReturns(tb, nil, func(ret *ssa.Return) bool {
						if h.deny {
							return !isNilConst(retValue(ret, 1))
						}
						return isFalseConst(retValue(ret, 0)) && isNilConst(retValue(ret, 1))
					})
					if good {
						ok = true
					} else {
						why = "a match by " + m + " does not produce the handler's verdict"
					}
				}
			}
			verdict := "(false, nil)"
			if h.deny {
				verdict = "a non-nil error"
			}
			r.Check(ok, "R05.2", fnName(fn), "match by "+m+" yields "+verdict, p.Pos(fn.Pos()), "matcher consulted and its match edge returns the verdict", why)
		}
	}
}

// allReturns: every return reachable from b (not passing through stop) satisfies pred, at least one exists, and stop is not reachable.
func allReturns(b *ssa.BasicBlock, stop *ssa.BasicBlock, pred func(*ssa.Return) bool) bool {
	n := 0
	avoid := map[*ssa.BasicBlock]bool{}
	if stop != nil {
		if reaches(b, stop, nil) {
			return false
		}
	}
	for rb := range reachableFrom(b, avoid) {
		if len(rb.Instrs) == 0 || isRecoverBlock(rb) {
			continue
		}
		if ret, ok := rb.Instrs[len(rb.Instrs)-1].(*ssa.Return); ok {
			n++
			if !pred(ret) {
				return false
			}
		}
	}
	return n > 0
}

func ruleR053(p *Program, r *Report) {
	fn := p.Func("decryptor/postgresql.(*PgProxy).handleClientPacket")
	add := p.FuncObj("decryptor/postgresql.(*pendingPacketsList).Add")
	if fn == nil || fn.Blocks == nil || add == nil {
		r.Anchor("R05.3", "handleClientPacket / pendingPacketsList.Add")
		return
	}
	for _, cs := range callsTo(fn, add) {
		bad := ""
		for b := range reachableFrom(cs.Block, nil) {
			if len(b.Instrs) == 0 || isRecoverBlock(b) {
				continue
			}
			ret, ok := b.Instrs[len(b.Instrs)-1].(*ssa.Return)
			if !ok {
				continue
			}
			if b == cs.Block {
				// return in the same block: only counts if after the call
				if !instrBefore(cs.Instr.(ssa.Instruction), ret) {
					continue
				}
			}
			if !isFalseConst(retValue(ret, 0)) {
				bad = fmt.Sprintf("after the pending entry is queued the function can still return censored=%s (at %s): the statement is withheld, no response ever removes the entry, and the next accepted statement's rows are processed with this statement's settings", retValue(ret, 0).Name(), p.Pos(ret.Pos()))
			}
		}
		r.Check(bad == "", "R05.3", fnName(fn), "pendingQueryPackets.Add("+operandText(p, cs.Instr)+")", p.Pos(cs.Instr.Pos()), "every return after the Add carries censored == false", bad)
	}
}

func ruleR054(p *Program, r *Report) {
	pk := p.Pkg("acra-censor/common")
	disp := p.FuncObj("acra-censor/common.checkSinglePatternMatch")
	if pk == nil || disp == nil {
		r.Anchor("R05.4", "acra-censor/common.checkSinglePatternMatch")
		return
	}
	decls := funcDeclsOf(pk)
	dfd := decls[disp]
	if dfd == nil {
		r.Anchor("R05.4", "checkSinglePatternMatch declaration")
		return
	}
	seen := map[*types.Func]bool{}
	ast.Inspect(dfd.Body, func(n ast.Node) bool {
		call, ok := n.(*ast.CallExpr)
		if !ok {
			return true
		}
		co := calleeObj(pk.TypesInfo, call)
		if co == nil || seen[co] || !strings.HasPrefix(co.Name(), "handle") {
			return true
		}
		seen[co] = true
		fd := decls[co]
		if fd == nil || fd.Body == nil || len(fd.Body.List) == 0 {
			return true
		}
		// does it compare field by field? (assignments `match = areEqual…(…)` / EqualFold)
		comparisons := 0
		ast.Inspect(fd.Body, func(n ast.Node) bool {
			if as, ok := n.(*ast.AssignStmt); ok && len(as.Lhs) == 1 {
				if id, ok := as.Lhs[0].(*ast.Ident); ok && id.Name == "match" {
					comparisons++
				}
			}
			return true
		})
		name := "acra-censor/common." + co.Name()
		last, _ := fd.Body.List[len(fd.Body.List)-1].(*ast.ReturnStmt)
		if comparisons == 0 {
			// whole-tree comparison (reflect.DeepEqual) or a stub
			if last != nil && len(last.Results) == 1 {
				if id, ok := last.Results[0].(*ast.Ident); ok && id.Name == "false" {
					r.Confirmed("R05.4", name, "final return", p.Pos(fd.Pos()), "no field comparison at all: statement kind not supported by patterns (vitess STREAM), documented as such")
					return true
				}
			}
			r.OK("R05.4", name, "final return", p.Pos(fd.Pos()), "whole-tree comparison")
			return true
		}
		okTrue := false
		if last != nil && len(last.Results) == 1 {
			if id, ok := last.Results[0].(*ast.Ident); ok && id.Name == "true" {
				okTrue = true
			}
		}
		r.Check(okTrue, "R05.4", name, "final return", p.Pos(fd.End()), fmt.Sprintf("%d comparisons, then return true", comparisons), fmt.Sprintf("after all %d field comparisons succeeded the matcher still answers 'no match': a rule with such a pattern is silently ineffective", comparisons))
		return true
	})
}

func init() {
	mut("C05", "INSERT patterns never match (original defect)", "acra-censor/common/matching_logic.go", "	match = areEqualOnDup(queryInsertNode.OnDup, patternInsertNode.OnDup)\n	if !match {\n		return false\n	}\n	return true", "	match = areEqualOnDup(queryInsertNode.OnDup, patternInsertNode.OnDup)\n	if !match {\n		return false\n	}\n	return false", "R05.4", "handleInsertStatement")
	mut("C05", "Parse packets: verdict dropped on the extended protocol", "decryptor/postgresql/pg_decryptor.go", "		censored, err := proxy.handleQueryPacket(ctx, packet, logger)\n		if err != nil || censored {\n			return censored, err\n		}\n		// Register prepared statement", "		censored, err := proxy.handleQueryPacket(ctx, packet, logger)\n		if err != nil {\n			return censored, err\n		}\n		// Register prepared statement", "R05.1", "handleClientPacket")
	mut("C05", "firewall error logged but statement processed", "decryptor/postgresql/pg_decryptor.go", "			WithError(censorErr).Errorln(\"AcraCensor blocked query\")\n		return true, nil", "			WithError(censorErr).Errorln(\"AcraCensor blocked query\")\n		return proxy.setting.TableSchemaStore() == nil, nil", "R05.1", "handleQueryPacket")
	mut("C05", "mysql: missing continue after rejection", "decryptor/mysql/response_proxy.go", "						Errorln(\"Can't write response with error to client\")\n				}\n				continue\n			}\n\n			queryObj := mysql.NewOnQueryObjectFromQuery(query, handler.parser)", "						Errorln(\"Can't write response with error to client\")\n				}\n			}\n\n			queryObj := mysql.NewOnQueryObjectFromQuery(query, handler.parser)", "R05.1", "ProxyClientConnection")
	mut("C05", "censor: handler error only logged", "acra-censor/acra-censor_implementation.go", "			acraCensor.logDeniedQuery(queryWithHiddenValues, handler, parsedQuery)\n			return err", "			acraCensor.logDeniedQuery(queryWithHiddenValues, handler, parsedQuery)\n			continue", "R05.2", "handler error is returned")
	mut("C05", "deny handler forgets its table rules", "acra-censor/handlers/deny_handler.go", "		if atLeastOneTableInBlacklist {\n", "		if atLeastOneTableInBlacklist && len(handler.queries) != 0 {\n", "R05.2", "CheckTableNamesMatch")
	mut("C05", "unparseable statements pass when not tolerated", "acra-censor/acra-censor_implementation.go", "			acraCensor.logger.WithField(logging.FieldKeyEventCode, logging.EventCodeErrorCensorQueryParseError).Errorln(\"Unparsed query has been denied\")\n			return err", "			acraCensor.logger.WithField(logging.FieldKeyEventCode, logging.EventCodeErrorCensorQueryParseError).Errorln(\"Unparsed query has been denied\")", "R05.2", "unparseable")
	mut("C05", "pending entry queued before the verdict (original defect)", "decryptor/postgresql/pg_decryptor.go", "		censored, err := proxy.handleQueryPacket(ctx, packet, logger)\n		if err != nil || censored {\n			// the statement is not forwarded, so no response will ever consume a pending entry for it\n			return censored, err\n		}\n		queryPacket := newQueryPacket(query)\n		if err = proxy.protocolState.pendingQueryPackets.Add(queryPacket); err != nil {\n			return false, err\n		}\n		return false, nil", "		queryPacket := newQueryPacket(query)\n		if err = proxy.protocolState.pendingQueryPackets.Add(queryPacket); err != nil {\n			return false, err\n		}\n		return proxy.handleQueryPacket(ctx, packet, logger)", "R05.3", "pendingQueryPackets.Add")
}

func ruleR055(p *Program, r *Report) {
	strFn := p.FuncObj("sqlparser.String")
	if strFn == nil {
		r.Anchor("R05.5", "sqlparser.String")
		return
	}
	n := 0
	for _, spec := range []string{"acra-censor/common.CheckTableNamesMatch", "acra-censor/common.checkTableExprMatch"} {
		fn := p.Func(spec)
		if fn == nil || fn.Blocks == nil {
			r.Anchor("R05.5", spec)
			continue
		}
		setParam := paramByName(fn, "setOfTables")
		for _, b := range fn.Blocks {
			for _, in := range b.Instrs {
				lk, ok := in.(*ssa.Lookup)
				if !ok || lk.X != ssa.Value(setParam) {
					continue
				}
				n++
				key := stripConv(lk.Index)
				good := false
				detail := "key computed from " + key.String()
				if c, ok := key.(*ssa.Call); ok && calleeOfCommon(c.Common()) == strFn {
					// the printed node must be a whole table name / expression, not a ColIdent/TableIdent component
					arg := stripConv(c.Common().Args[0])
					t := arg.Type().String()
					if strings.HasSuffix(t, "sqlparser.TableName") || strings.HasSuffix(t, "sqlparser.SimpleTableExpr") || strings.HasSuffix(t, "sqlparser.TableExpr") {
						good = true
					} else {
						detail = "sqlparser.String of a " + t
					}
				}
				r.Check(good, "R05.5", fnName(fn), "table-rule lookup key", p.Pos(lk.Pos()), "printed from the complete table name", "a table rule is looked up by "+detail+": rules written with a schema qualifier never match this statement kind, and unqualified rules match tables of every schema")
			}
		}
	}
	if n == 0 {
		r.Bad("R05.5", "acra-censor/common", "table-rule lookups", "-", "no lookup into the table-rule set found in the table matchers")
	}
}

func ruleR056(p *Program, r *Report) {
	fn := p.Func("acra-censor.(*AcraCensor).HandleQuery")
	if fn == nil || fn.Blocks == nil {
		r.Anchor("R05.6", "AcraCensor.HandleQuery")
		return
	}
	var check *ssa.Call
	for _, c := range callsNamed(fn, "CheckQuery") {
		if c.Common().IsInvoke() {
			check = c
		}
	}
	if check == nil {
		r.Anchor("R05.6", "HandleQuery: handler.CheckQuery invoke")
		return
	}
	// loop header: the nearest block that dominates the call and is reachable from it
	var header *ssa.BasicBlock
	for _, b := range fn.Blocks {
		isLoopHeader := false
		for _, pb := range b.Preds {
			if b.Dominates(pb) {
				isLoopHeader = true
			}
		}
		if isLoopHeader && b.Dominates(check.Block()) && b != check.Block() {
			for _, s := range check.Block().Succs {
				if s == b || reaches(s, b, nil) {
					if header == nil || header.Dominates(b) {
						header = b
					}
				}
			}
		}
	}
	ok, why := header != nil, "the handler call is not inside the loop over the chain"
	if ok {
		for _, i := range allIfs(fn) {
			b := i.Block()
			if !(header.Dominates(b) && b.Dominates(check.Block())) || b == header {
				continue
			}
			// a branch between the loop header and the call: one side leads to the call, the other skips it
			for s := 0; s < 2; s++ {
				to, other := b.Succs[s], b.Succs[1-s]
				if !(to == check.Block() || to.Dominates(check.Block())) {
					continue
				}
				skips := other == header || reaches(other, header, map[*ssa.BasicBlock]bool{check.Block(): true})
				if !skips {
					continue
				}
				isKind := false
				if ex, isEx := i.Cond.(*ssa.Extract); isEx {
					if ta, isTa := ex.Tuple.(*ssa.TypeAssert); isTa && ta.CommaOk && ex.Index == 1 {
						isKind = true
					}
				}
				if !isKind {
					ok, why = false, "a handler of the chain is skipped under a condition that is not a handler-kind test ("+p.Pos(i.Pos())+")"
				}
			}
		}
	}
	r.Check(ok, "R05.6", fnName(fn), "handlers are skipped only by kind", p.Pos(check.Pos()), "only the capture/ignore type tests bypass CheckQuery", why+": a statement with that property never reaches the allow/deny/denyall handlers behind it and is forwarded")
}

func init() {
	mut("C05", "unparsed statements skip every handler", "acra-censor/acra-censor_implementation.go", "		// Security checks (allow/deny handlers)\n		continueHandling, err := handler.CheckQuery(normalizedQuery, parsedQuery)", "		// Security checks (allow/deny handlers)\n		if parsedQuery == nil {\n			continue\n		}\n		continueHandling, err := handler.CheckQuery(normalizedQuery, parsedQuery)", "R05.6", "skipped only by kind")
}

// ---- R05.7
var r057Confirmed = map[string]string{
	"acra-censor/common.areEqualValTuple": "the value tuple: a statement tuple longer than the pattern is accepted only when the last pattern value is %%LIST_OF_VALUES%% (tested after the loop under len(query) > len(pattern)); a shorter one fails inside the loop",
}

func ruleR057(p *Program, r *Report) {
	// identity of a list value: the same SSA value, the same type assertion of the same operand, or a load of the same field of the same object
	var key func(v ssa.Value) string
	key = func(v ssa.Value) string {
		switch x := v.(type) {
		case *ssa.ChangeType:
			return key(x.X)
		case *ssa.TypeAssert:
			return "assert(" + key(x.X) + "," + x.AssertedType.String() + ")"
		case *ssa.Extract:
			return "extract(" + key(x.Tuple) + fmt.Sprint(x.Index) + ")"
		case *ssa.UnOp:
			if fa, ok := x.X.(*ssa.FieldAddr); ok {
				return "field(" + key(fa.X) + "," + fmt.Sprint(fa.Field) + ")"
			}
		case *ssa.Field:
			return "field(" + key(x.X) + "," + fmt.Sprint(x.Field) + ")"
		}
		return fmt.Sprintf("%p", v)
	}
	n := 0
	for _, fn := range p.SrcFuncs("acra-censor/common") {
		if filepath.Base(p.FileOf(fn.Pos())) != "matching_logic.go" || fn.Blocks == nil {
			continue
		}
		// loop bounds: idx < len(P) used by an If
		type loop struct {
			idx ssa.Value
			p   ssa.Value
		}
		var loops []loop
		for _, b := range fn.Blocks {
			for _, in := range b.Instrs {
				bo, ok := in.(*ssa.BinOp)
				if !ok || bo.Op != token.LSS || len(ifsOn(bo)) == 0 {
					continue
				}
				if pl, isLen := isLenCall(bo.Y); isLen {
					loops = append(loops, loop{bo.X, pl})
				}
			}
		}
		lenEq := func(q, pl ssa.Value, at *ssa.BasicBlock) bool {
			for _, b := range fn.Blocks {
				for _, in := range b.Instrs {
					bo, ok := in.(*ssa.BinOp)
					if !ok || (bo.Op != token.NEQ && bo.Op != token.EQL) || len(ifsOn(bo)) == 0 {
						continue
					}
					a, okA := isLenCall(bo.X)
					c, okC := isLenCall(bo.Y)
					if !okA || !okC {
						continue
					}
					if !((key(a) == key(q) && key(c) == key(pl)) || (key(a) == key(pl) && key(c) == key(q))) {
						continue
					}
					if b == at || b.Dominates(at) {
						return true
					}
				}
			}
			return false
		}
		seen := map[string]bool{}
		for _, b := range fn.Blocks {
			for _, in := range b.Instrs {
				var q, idx ssa.Value
				switch x := in.(type) {
				case *ssa.IndexAddr:
					q, idx = x.X, x.Index
				case *ssa.Index:
					q, idx = x.X, x.Index
				default:
					continue
				}
				for _, lp := range loops {
					if lp.idx != idx || key(lp.p) == key(q) {
						continue
					}
					k := key(q) + "|" + key(lp.p)
					if seen[k] {
						continue
					}
					seen[k] = true
					n++
					name := fnName(fn)
					construct := "list " + exprTextOf(p, q) + " walked by the index of " + exprTextOf(p, lp.p)
					if lenEq(q, lp.p, b) {
						r.OK("R05.7", name, construct, p.Pos(in.Pos()), "the two lengths are compared before the walk")
						continue
					}
					if why, ok := r057Confirmed[name]; ok {
						// the exception must still look at a longer statement list
						handlesLonger := false
						for _, bb := range fn.Blocks {
							for _, i2 := range bb.Instrs {
								if bo, ok := i2.(*ssa.BinOp); ok && (bo.Op == token.GTR || bo.Op == token.LSS) {
									a, okA := isLenCall(bo.X)
									c, okC := isLenCall(bo.Y)
									if okA && okC && ((key(a) == key(q) && key(c) == key(lp.p)) || (key(a) == key(lp.p) && key(c) == key(q))) {
										handlesLonger = true
									}
								}
							}
						}
						if handlesLonger {
							r.Confirmed("R05.7", name, construct, p.Pos(in.Pos()), why)
							continue
						}
					}
					r.Bad("R05.7", name, construct, p.Pos(in.Pos()), "the statement's list is walked by the pattern's index without the two lengths having been compared: a statement with more entries than the pattern (extra VALUES rows, columns, expressions) is matched by a pattern that describes only its first entries, and an allow rule admits it")
				}
			}
		}
	}
	if n < 12 {
		r.Bad("R05.7", "acra-censor/common", "list walks", "-", fmt.Sprintf("%d pattern/statement list walks found, 14 confirmed by reading", n))
	}
}

func init() {
	mut("C05", "INSERT rows: pattern rows matched against the first rows of the statement only", "acra-censor/common/matching_logic.go", "		if len(queryValues) != len(patternValues) {\n			return false\n		}\n", "		if len(queryValues) < len(patternValues) {\n			return false\n		}\n", "R05.7", "areEqualInsertRows")
	mut("C05", "select list: length comparison dropped", "acra-censor/common/matching_logic.go", "func areEqualGroupBy(query, pattern sqlparser.GroupBy) bool {\n	if len(query) != len(pattern) {\n		return false\n	}", "func areEqualGroupBy(query, pattern sqlparser.GroupBy) bool {\n	if len(query) < len(pattern) {\n		return false\n	}", "R05.7", "areEqualGroupBy")
}
