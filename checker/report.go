package main

import (
	"encoding/json"
	"fmt"
	"os"
	"path/filepath"
	"sort"
	"strings"
	"time"
)

func verifDir() string {
	if d := os.Getenv("VERIF_DIR"); d != "" {
		return d
	}
	return "/verif"
}

type Status int

const (
	Discharged Status = iota
	Confirmed         // undecidable for the engine; safe by a frozen, reasoned table entry
	Violated
)

func (s Status) String() string { return [...]string{"discharged", "confirmed", "violated"}[s] }

// Obligation is one construct a rule applies to.
type Obligation struct {
	Rule   string `json:"rule"`
	Key    string `json:"key"` // rule|function|construct — never a line number
	Pos    string `json:"pos"`
	Status string `json:"status"`
	Detail string `json:"detail,omitempty"`
}

type RuleInfo struct {
	ID       string `json:"id"`
	Text     string `json:"text"`
	Engine   string `json:"engine"`
	Floor    int    `json:"floor"` // minimum instances confirmed by hand
	Count    int    `json:"instances"`
	Violated int    `json:"violated"`
}

type Report struct {
	Property string
	Tier     string
	Start    time.Time
	Rules    []*RuleInfo
	rules    map[string]*RuleInfo
	Obls     []Obligation
	Notes    []string // observations, not verdicts
	Fatal    []string // anchor / load failures
	prog     *Program
	Extra    map[string]interface{}
}

func NewReport(prop, tier string) *Report {
	return &Report{Property: prop, Tier: tier, Start: time.Now(), rules: map[string]*RuleInfo{}, Extra: map[string]interface{}{}}
}

func (r *Report) Rule(id, engine string, floor int, text string) *RuleInfo {
	ri := &RuleInfo{ID: id, Text: text, Engine: engine, Floor: floor}
	r.Rules = append(r.Rules, ri)
	r.rules[id] = ri
	return ri
}

func (r *Report) add(rule, fn, construct, pos string, st Status, detail string) {
	ri := r.rules[rule]
	if ri == nil {
		panic("unregistered rule " + rule)
	}
	ri.Count++
	if st == Violated {
		ri.Violated++
	}
	key := rule + "|" + fn + "|" + construct
	r.Obls = append(r.Obls, Obligation{Rule: rule, Key: key, Pos: pos, Status: st.String(), Detail: detail})
}

func (r *Report) OK(rule, fn, construct, pos, detail string) {
	r.add(rule, fn, construct, pos, Discharged, detail)
}
func (r *Report) Confirmed(rule, fn, construct, pos, reason string) {
	r.add(rule, fn, construct, pos, Confirmed, reason)
}
func (r *Report) Bad(rule, fn, construct, pos, detail string) {
	r.add(rule, fn, construct, pos, Violated, detail)
}

// Check records OK or Bad.
func (r *Report) Check(ok bool, rule, fn, construct, pos, okDetail, badDetail string) {
	if ok {
		r.OK(rule, fn, construct, pos, okDetail)
	} else {
		r.Bad(rule, fn, construct, pos, badDetail)
	}
}

// Anchor records an unresolved anchor as a failure: a renamed function must
// not make a rule pass vacuously.
func (r *Report) Anchor(rule, what string) {
	r.Fatal = append(r.Fatal, fmt.Sprintf("%s: anchor %q does not resolve in the current tree", rule, what))
}

func (r *Report) Note(format string, a ...interface{}) {
	r.Notes = append(r.Notes, fmt.Sprintf(format, a...))
}

type finding struct {
	Property  string `json:"property"`
	Key       string `json:"key"`
	WhatFails string `json:"what_fails"`
	Status    string `json:"status"` // known | fixed
	Commit    string `json:"commit,omitempty"`
}

type ledger struct {
	Findings []finding `json:"findings"`
}

func loadLedger() (map[string]finding, error) {
	out := map[string]finding{}
	path := filepath.Join(verifDir(), "known_findings.json")
	if e := os.Getenv("ACRAVERIFY_LEDGER"); e != "" {
		path = e
	}
	b, err := os.ReadFile(path)
	if err != nil {
		if os.IsNotExist(err) {
			return out, nil
		}
		return nil, err
	}
	var l ledger
	if err := json.Unmarshal(b, &l); err != nil {
		return nil, err
	}
	for _, f := range l.Findings {
		out[f.Key] = f
	}
	return out, nil
}

// Finish prints the verdict, writes evidence and replay files, returns the exit code.
func (r *Report) Finish(writeEvidence bool) int {
	led, err := loadLedger()
	if err != nil {
		r.Fatal = append(r.Fatal, "known_findings.json unreadable: "+err.Error())
	}
	for _, ri := range r.Rules {
		if ri.Count < ri.Floor {
			r.Fatal = append(r.Fatal, fmt.Sprintf("%s: matched %d instances, below the floor of %d confirmed by hand (rule would pass vacuously)", ri.ID, ri.Count, ri.Floor))
		}
	}
	sort.SliceStable(r.Obls, func(i, j int) bool { return r.Obls[i].Key < r.Obls[j].Key })
	var viol, known []Obligation
	seen := map[string]bool{}
	for _, o := range r.Obls {
		if o.Status != "violated" {
			continue
		}
		if seen[o.Key] {
			continue
		}
		seen[o.Key] = true
		if f, ok := led[o.Key]; ok && f.Status == "known" && f.Property == r.Property {
			known = append(known, o)
			fmt.Printf("KNOWN-FINDING: property=%s %s — %s (%s)\n", r.Property, o.Key, f.WhatFails, o.Pos)
			continue
		}
		viol = append(viol, o)
	}
	exit := 0
	replayDir := filepath.Join(verifDir(), "replay")
	if old, _ := filepath.Glob(filepath.Join(replayDir, r.Property+"-*.json")); len(old) > 0 {
		for _, f := range old {
			os.Remove(f)
		}
	}
	if len(viol) > 0 || len(r.Fatal) > 0 {
		os.MkdirAll(replayDir, 0o755)
	}
	for i, o := range viol {
		exit = 1
		path := filepath.Join(replayDir, fmt.Sprintf("%s-%d.json", r.Property, i))
		rt := ""
		if ri := r.rules[o.Rule]; ri != nil {
			rt = ri.Text
		}
		b, _ := json.MarshalIndent(map[string]interface{}{
			"property": r.Property, "key": o.Key, "pos": o.Pos, "rule": o.Rule, "rule_text": rt,
			"detail": o.Detail, "rerun": fmt.Sprintf("%s/bin/acraverify check %s", verifDir(), r.Property),
		}, "", " ")
		os.WriteFile(path, b, 0o644)
		fmt.Printf("VIOLATION property=%s replay=%s\n", r.Property, path)
		fmt.Printf("  %s at %s\n  %s\n", o.Key, o.Pos, o.Detail)
	}
	for i, f := range r.Fatal {
		exit = 1
		path := filepath.Join(replayDir, fmt.Sprintf("%s-fatal-%d.json", r.Property, i))
		b, _ := json.MarshalIndent(map[string]interface{}{"property": r.Property, "fatal": f}, "", " ")
		os.WriteFile(path, b, 0o644)
		fmt.Printf("VIOLATION property=%s replay=%s\n  %s\n", r.Property, path, f)
	}
	nOb, nDis, nConf := len(r.Obls), 0, 0
	for _, o := range r.Obls {
		switch o.Status {
		case "discharged":
			nDis++
		case "confirmed":
			nConf++
		}
	}
	fmt.Printf("%s: %d rules, %d obligations: %d discharged, %d confirmed-table, %d known findings, %d violations, %d fatal (%.1fs)\n",
		r.Property, len(r.Rules), nOb, nDis, nConf, len(known), len(viol), len(r.Fatal), time.Since(r.Start).Seconds())
	for _, ri := range r.Rules {
		fmt.Printf("  %-7s %-4s instances=%-4d floor=%-4d violated=%d\n", ri.ID, ri.Engine, ri.Count, ri.Floor, ri.Violated)
	}
	if writeEvidence {
		r.writeEvidence(nOb, nDis, nConf, known, viol)
	}
	return exit
}

func (r *Report) writeEvidence(nOb, nDis, nConf int, known, viol []Obligation) {
	var samples []Obligation
	perRule := map[string]int{}
	for _, o := range r.Obls {
		if perRule[o.Rule+o.Status] < 3 {
			perRule[o.Rule+o.Status]++
			samples = append(samples, o)
		}
	}
	var ruleTexts []string
	for _, ri := range r.Rules {
		ruleTexts = append(ruleTexts, fmt.Sprintf("%s [%s] %s", ri.ID, ri.Engine, ri.Text))
	}
	distinct := map[string]bool{}
	for _, o := range r.Obls {
		distinct[o.Key] = true
	}
	cov := map[string]interface{}{
		"explanation":         "Static analysis of /repo's current working tree (go/packages type-check from source + go/ssa + call graph). Each rule yields one obligation per construct it applies to; an obligation is discharged by the rule's structural argument, listed in the frozen confirmed-table with a reason, or violated. Decides structural necessary conditions of the property, not the behaviour itself. Rules: " + strings.Join(ruleTexts, " || "),
		"obligations":         nOb,
		"discharged":          nDis,
		"confirmed_table":     nConf,
		"known_findings":      len(known),
		"violations":          len(viol),
		"evaluations":         nOb,
		"distinct_nontrivial": len(distinct),
		"rule":                "one obligation per (rule, function, construct) found by the analysis in the current tree; distinct = distinct keys",
		"samples":             samples,
		"rules":               r.Rules,
		"all_obligations":     r.Obls,
		"observations":        r.Notes,
		"fatal":               r.Fatal,
		"checker_cmd":         fmt.Sprintf("%s/bin/acraverify check %s --tier %s", verifDir(), r.Property, r.Tier),
		"exhaustive":          true,
	}
	if r.prog != nil {
		cov["packages_loaded"] = len(r.prog.All)
		cov["acra_packages_analysed"] = len(r.prog.Acra)
		cov["acra_functions_with_bodies"] = len(r.prog.srcFns)
		cov["load_s"] = r.prog.LoadSecs
		cov["ssa_s"] = r.prog.SSASecs
	}
	for k, v := range r.Extra {
		cov[k] = v
	}
	seed := 0
	fmt.Sscanf(os.Getenv("VERIF_SEED"), "%d", &seed)
	ev := map[string]interface{}{
		"property_id": r.Property,
		"tier":        r.Tier,
		"seed":        seed,
		"level":       "other",
		"coverage":    cov,
		"assumptions": []string{
			"go/types, go/ssa and the x/tools call-graph builders model Go correctly",
			"gothemis (cgo, headers absent) is an opaque external: its functions are treated as correct crypto primitives",
			"third-party packages are type-only externals; rules model the few that matter by table",
			"structural clauses are necessary, not sufficient, for the behavioural property",
		},
		"wall_s":     time.Since(r.Start).Seconds(),
		"violations": len(viol) + len(r.Fatal),
	}
	dir := filepath.Join(verifDir(), "evidence")
	os.MkdirAll(dir, 0o755)
	b, _ := json.MarshalIndent(ev, "", " ")
	if err := os.WriteFile(filepath.Join(dir, r.Property+".json"), b, 0o644); err != nil {
		fmt.Fprintln(os.Stderr, "cannot write evidence:", err)
	}
}
