package main

import (
	"go/token"
	"go/ast"
	"go/types"
	"sort"
	"strings"

	"golang.org/x/tools/go/ssa"
)

func init() {
	register(&Property{ID: "C18", Patterns: []string{"./..."}, Run: runC18})
}

func runC18(p *Program, r *Report) {
	r.Rule("R18.1", "E3", 10, "exported key material is intact when it is written: in the keystores and the key management commands no buffer is used after a function has overwritten it with zeros (utils.Zeroize*, and helpers that pass their argument on to one), and none is handed to such a function again inside a loop that does not reload it")
	ruleUseAfterWipe(p, r, "R18.1", func(s wipeSite) bool {
		pp := strings.TrimPrefix(fnPkgPath(s.Fn), acraMod+"/")
		for _, pre := range []string{"keystore", "cmd/acra-keys", "cmd/acra-backup", "cmd/acra-rotate", "cmd/acra-keymaker"} {
			if strings.HasPrefix(pp, pre) {
				return true
			}
		}
		return false
	})
	r.Rule("R18.2", "E2", 3, "the bundle is ciphertext under fresh access keys: v1 Export returns Data = Encrypt(serialised keys) under an encryptor built from the freshly generated key it returns as Keys; v2 returns notary.Sign over a container whose data is KeyEncryptor.Encrypt(serialised rings); the serialised plaintext reaches the result only through that Encrypt call")
	ruleR182(p, r)
	r.Rule("R18.3", "E3", 3, "verify before use, reject without writing: v2 decrypts only the payload that notary.Verify returned, on its success edge, under the export context, and imports rings only after the whole bundle decrypted and verified; v1 Import writes nothing before Decrypt and Decode succeeded")
	ruleR183(p, r)
	r.Rule("R18.4", "E2", 3, "import re-encrypts under the target: v1 writes a private/symmetric key file only as currentDecryptor.Encrypt(content, context of its file name); v2 importASN1 stores only keys that went through copyKey, which adds every key datum through addKeyData (the encrypting constructor)")
	ruleR184(p, r)
	r.Rule("R18.5", "E3", 2, "the export mode is honoured: v2 drops private and symmetric data before returning when the mode lacks ExportPrivateKeys; v1 reads the private key files only under a mode test")
	ruleR185(p, r)
	r.Rule("R18.6", "E3", 1, "histories with destroyed keys import: the 'no key data' rejection of copyKey does not apply to a key whose state is destroyed (sibling of R06.2)")
	ruleR186(p, r)
	r.Rule("R18.8", "E2+E4", 6, "the owner context of an exported/imported key file is the one the keystore encrypted it under: getContextFromFilename removes only the tested suffix from the end of the name (no first-occurrence search or split), and every site that builds a poison record key context - in the keystore and in the exporter - uses the whole key name")
	ruleR188(p, r)
	r.Rule("R18.7", "E4", 6, "migration covers every kind the v1 classifier produces: each keystore.Purpose* the default key-file classifier can assign has a case in ServerKeyStore.ImportKeyFileV1")
	ruleR187(p, r)
	r.Rule("R18.9", "E2", 3, "the shape of a v2 ring travels unchanged: exportASN1 copies Purpose, Current and one entry per key of the ring; importASN1 installs one re-encrypted key per bundled key and exactly the bundle's current marker (no recomputed or conditional marker: a ring whose current key was destroyed keeps pointing at it)")
	ruleR189(p, r)
}

func ruleR189(p *Program, r *Report) {
	imp := p.Func("keystore/v2/keystore/filesystem.(*KeyRing).importASN1")
	exp := p.Func("keystore/v2/keystore/filesystem.(*KeyRing).exportASN1")
	if imp == nil || imp.Blocks == nil || exp == nil || exp.Blocks == nil {
		r.Anchor("R18.9", "KeyRing.importASN1 / exportASN1")
		return
	}
	// a field store into a struct literal of the function, by field name
	fieldStores := func(fn *ssa.Function, typeSuffix, field string) []*ssa.Store {
		var out []*ssa.Store
		for _, b := range fn.Blocks {
			for _, in := range b.Instrs {
				st, ok := in.(*ssa.Store)
				if !ok {
					continue
				}
				fa, ok := st.Addr.(*ssa.FieldAddr)
				if !ok {
					continue
				}
				pt, ok := fa.X.Type().Underlying().(*types.Pointer)
				if !ok {
					continue
				}
				stt, ok := pt.Elem().Underlying().(*types.Struct)
				if !ok || !strings.HasSuffix(pt.Elem().String(), typeSuffix) {
					continue
				}
				if stt.Field(fa.Field).Name() == field {
					out = append(out, st)
				}
			}
		}
		return out
	}
	isFieldLoadOf := func(v ssa.Value, base ssa.Value, path ...string) bool {
		// v == *(&(...(&base.path0).path1)...)
		u, ok := v.(*ssa.UnOp)
		if !ok || u.Op != token.MUL {
			return false
		}
		cur := u.X
		for i := len(path) - 1; i >= 0; i-- {
			fa, ok := cur.(*ssa.FieldAddr)
			if !ok {
				return false
			}
			pt, ok := fa.X.Type().Underlying().(*types.Pointer)
			if !ok {
				return false
			}
			stt, ok := pt.Elem().Underlying().(*types.Struct)
			if !ok || stt.Field(fa.Field).Name() != path[i] {
				return false
			}
			cur = fa.X
			if i > 0 {
				// intermediate pointer fields are loaded
				if l, ok := cur.(*ssa.UnOp); ok && l.Op == token.MUL {
					cur = l.X
				}
			}
		}
		return cur == base
	}
	ringData := paramByName(imp, "ringData")
	cur := fieldStores(imp, "filesystem.txSetKeys", "current")
	okCur := len(cur) == 1 && ringData != nil && isFieldLoadOf(cur[0].Val, ringData, "Current")
	pos := p.Pos(imp.Pos())
	if len(cur) > 0 {
		pos = p.Pos(cur[0].Pos())
	}
	r.Check(okCur, "R18.9", fnName(imp), "imported current marker is the bundle's", pos, "txSetKeys.current = ringData.Current", "the current marker installed by the import is not simply the bundle's marker (recomputed, conditional or dropped): the imported ring answers CurrentKey differently from the exported one")
	// one key per bundled key
	nk := fieldStores(imp, "filesystem.txSetKeys", "newKeys")
	okKeys := false
	if len(nk) == 1 {
		if mk, ok := nk[0].Val.(*ssa.MakeSlice); ok {
			if x, isLen := isLenCall(mk.Len); isLen && ringData != nil && isFieldLoadOf(x, ringData, "Keys") {
				okKeys = true
			}
		}
	}
	r.Check(okKeys, "R18.9", fnName(imp), "one imported key per bundled key", pos, "newKeys = make([]Key, len(ringData.Keys))", "the imported key list is not sized by the bundle's key list: keys are dropped or invented on import")
	// export: Current and Purpose copied from the ring
	recv := exp.Params[0]
	okExp := true
	for _, f := range []string{"Current", "Purpose"} {
		sts := fieldStores(exp, "asn1.KeyRing", f)
		if len(sts) != 1 || !isFieldLoadOf(sts[0].Val, recv, "data", f) {
			okExp = false
		}
	}
	r.Check(okExp, "R18.9", fnName(exp), "exported marker and purpose are the ring's", p.Pos(exp.Pos()), "exported.Current = r.data.Current, exported.Purpose = r.data.Purpose", "the exported ring's current marker or purpose is not copied from the ring as it is")
}

func init() {
	mut("C18", "import keeps the current marker only if it names a key that still has data", "keystore/v2/keystore/filesystem/export.go", "	r.pushTX(&txSetKeys{newKeys: newKeys, current: ringData.Current})", "	current := asn1.NoKey\n	for i := range newKeys {\n		if newKeys[i].Seqnum == ringData.Current && len(newKeys[i].Data) != 0 {\n			current = newKeys[i].Seqnum\n		}\n	}\n	r.pushTX(&txSetKeys{newKeys: newKeys, current: current})", "R18.9", "imported current marker")
	mut("C18", "export resets the current marker", "keystore/v2/keystore/filesystem/export.go", "		Current: r.data.Current,", "		Current: asn1.NoKey,", "R18.9", "exported marker")
}

// invokeOrCall finds calls in fn by method/function name.
func callsNamed(fn *ssa.Function, name string) []*ssa.Call {
	var out []*ssa.Call
	for _, cs := range callsIn(fn) {
		c, ok := cs.Instr.(*ssa.Call)
		if !ok {
			continue
		}
		cm := c.Common()
		if cm.IsInvoke() && cm.Method.Name() == name {
			out = append(out, c)
		} else if cs.Callee != nil && cs.Callee.Name() == name {
			out = append(out, c)
		}
	}
	return out
}

// recvOf: receiver value of a method call (interface value for an invoke, first argument for a static call).
func recvOf(c *ssa.Call) ssa.Value {
	cm := c.Common()
	if cm.IsInvoke() {
		return cm.Value
	}
	if len(cm.Args) > 0 {
		return cm.Args[0]
	}
	return nil
}

// backClosureBarrier is backClosure that does not look through the given values (they are in the result, their operands are not followed).
func backClosureBarrier(v ssa.Value, barrier map[ssa.Value]bool) map[ssa.Value]bool {
	out := map[ssa.Value]bool{}
	var walk func(v ssa.Value)
	walk = func(v ssa.Value) {
		if v == nil || out[v] {
			return
		}
		out[v] = true
		if barrier[v] {
			return
		}
		in, ok := v.(ssa.Instruction)
		if !ok {
			return
		}
		if c, isCall := v.(*ssa.Call); isCall {
			if b, isB := c.Call.Value.(*ssa.Builtin); isB && (b.Name() == "len" || b.Name() == "cap") {
				return
			}
		}
		for _, op := range in.Operands(nil) {
			if *op != nil {
				walk(*op)
			}
		}
		if a, ok := v.(*ssa.Alloc); ok {
			var scan func(addr ssa.Value)
			scan = func(addr ssa.Value) {
				refs := addr.Referrers()
				if refs == nil {
					return
				}
				for _, r := range *refs {
					switch x := r.(type) {
					case *ssa.Store:
						if x.Addr == addr {
							walk(x.Val)
						}
					case *ssa.IndexAddr:
						if x.X == addr {
							scan(x)
						}
					case *ssa.FieldAddr:
						if x.X == addr {
							scan(x)
						}
					}
				}
			}
			scan(a)
		}
	}
	walk(v)
	return out
}

// dataArg returns the arguments of a call without the receiver of a static method call.
func plainArgs(c *ssa.Call) []ssa.Value {
	cm := c.Common()
	if cm.IsInvoke() {
		return cm.Args
	}
	if co := calleeOfCommon(cm); co != nil && co.Type().(*types.Signature).Recv() != nil && len(cm.Args) > 0 {
		return cm.Args[1:]
	}
	return cm.Args
}

func ruleR182(p *Program, r *Report) {
	// v1
	if fn := p.Func("keystore/filesystem.(*KeyBackuper).Export"); fn == nil || fn.Blocks == nil {
		r.Anchor("R18.2", "keystore/filesystem.(*KeyBackuper).Export")
	} else {
		name := fnName(fn)
		encs := callsNamed(fn, "Encrypt")
		gens := callsNamed(fn, "GenerateSymmetricKey")
		mk := callsNamed(fn, "NewSCellKeyEncryptor")
		ok, why := false, "no success return builds the bundle from the Encrypt result"
		if len(encs) == 1 && len(gens) == 1 && len(mk) == 1 {
			enc := encs[0]
			key := extractOf(gens[0], 0)
			// encryptor built from the fresh key
			fresh := key != nil && plainArgs(mk[0])[0] == ssa.Value(key) && backClosure(recvOf(enc))[extractOf(mk[0], 0)]
			// success return: &KeysBackup{Data: enc#0, Keys: key}
			for _, ret := range returnsOf(fn) {
				if !isNilConst(retValue(ret, 1)) {
					continue
				}
				al, isAl := retValue(ret, 0).(*ssa.Alloc)
				if !isAl {
					continue
				}
				st := al.Type().Underlying().(*types.Pointer).Elem().Underlying().(*types.Struct)
				dataOK, keysOK := false, false
				for i := 0; i < st.NumFields(); i++ {
					for _, s := range fieldStoresInto(al, i) {
						switch st.Field(i).Name() {
						case "Data":
							dataOK = s.Val == ssa.Value(extractOf(enc, 0))
						case "Keys":
							keysOK = s.Val == ssa.Value(key)
						}
					}
				}
				if !fresh {
					why = "the bundle is not encrypted under the freshly generated access key"
				} else if !dataOK {
					why = "KeysBackup.Data is not the result of Encrypt"
				} else if !keysOK {
					why = "KeysBackup.Keys is not the freshly generated access key"
				} else {
					ok = true
				}
			}
			// plaintext buffer feeds Encrypt
			pa := plainArgs(enc)
			if ok && len(pa) >= 2 {
				fed := false
				for v := range backClosure(pa[1]) {
					if c, isC := v.(*ssa.Call); isC {
						if co := calleeOfCommon(c.Common()); co != nil && co.Name() == "Bytes" {
							fed = true
						}
					}
				}
				if !fed {
					ok, why = false, "Encrypt is not applied to the serialised keys"
				}
			}
		} else {
			why = "expected exactly one Encrypt, one GenerateSymmetricKey and one NewSCellKeyEncryptor call"
		}
		r.Check(ok, "R18.2", name, "bundle = Encrypt(serialised keys) under a fresh key", p.Pos(fn.Pos()), "Data: Encrypt result, Keys: fresh key", why)
	}
	// v2
	if fn := p.Func("keystore/v2/keystore/filesystem.(*KeyStore).encryptAndSignKeyRings"); fn == nil || fn.Blocks == nil {
		r.Anchor("R18.2", "encryptAndSignKeyRings")
	} else {
		name := fnName(fn)
		encs := callsNamed(fn, "Encrypt")
		signs := callsNamed(fn, "Sign")
		marsh := callsNamed(fn, "Marshal")
		ok, why := false, ""
		switch {
		case len(encs) != 1 || len(signs) != 1 || len(marsh) != 1:
			why = "expected exactly one Marshal, one Encrypt and one Sign call"
		default:
			enc, sign := encs[0], signs[0]
			plain := extractOf(marsh[0], 0)
			encOut := extractOf(enc, 0)
			pa := plainArgs(enc)
			encIn := len(pa) >= 2 && stripConv(pa[1]) == ssa.Value(plain)
			// the container handed to Sign holds encOut and not plain
			cl := backClosureBarrier(plainArgs(sign)[0], map[ssa.Value]bool{enc: true})
			retOK := false
			for _, ret := range returnsOf(fn) {
				if isNilConst(retValue(ret, 1)) && retValue(ret, 0) == ssa.Value(extractOf(sign, 0)) {
					retOK = true
				}
			}
			switch {
			case !encIn:
				why = "Encrypt is not applied to the marshalled key rings"
			case !cl[encOut]:
				why = "the signed container does not carry the Encrypt result"
			case cl[plain]:
				why = "the marshalled plaintext reaches the signed container beside the Encrypt result"
			case !retOK:
				why = "the success return is not the notary.Sign result"
			default:
				ok = true
			}
		}
		r.Check(ok, "R18.2", name, "bundle = Sign(container{Encrypt(Marshal(rings))})", p.Pos(fn.Pos()), "encrypted then signed", why)
	}
	// v2 ExportKeyRings returns that result
	if fn := p.Func("keystore/v2/keystore/filesystem.(*KeyStore).ExportKeyRings"); fn == nil || fn.Blocks == nil {
		r.Anchor("R18.2", "ExportKeyRings")
	} else {
		ok := false
		for _, ret := range returnsOf(fn) {
			if ex, isEx := retValue(ret, 0).(*ssa.Extract); isEx {
				if c, isC := ex.Tuple.(*ssa.Call); isC {
					if co := calleeOfCommon(c.Common()); co != nil && co.Name() == "encryptAndSignKeyRings" {
						ok = true
					}
				}
			}
		}
		r.Check(ok, "R18.2", fnName(fn), "returns the encrypted and signed container", p.Pos(fn.Pos()), "return encryptAndSignKeyRings(...)", "ExportKeyRings returns something other than the result of encryptAndSignKeyRings")
	}
}

// nilEdgeDominates: blk is dominated by the err == nil edge of call's error result (index errIdx, or the call value itself).
func nilEdgeDominates(call *ssa.Call, blk *ssa.BasicBlock) bool {
	var errV ssa.Value
	if tup, ok := call.Type().(*types.Tuple); ok {
		for i := 0; i < tup.Len(); i++ {
			if isErrorType(tup.At(i).Type()) {
				if ex := extractOf(call, i); ex != nil {
					errV = ex
				}
			}
		}
	} else if isErrorType(call.Type()) {
		errV = call
	}
	if errV == nil {
		return false
	}
	for _, i := range allIfs(call.Parent()) {
		if nilS, nonNil, ok := nilBranches(i, errV); ok && edgeOnly(i, nilS, nonNil, blk) {
			return true
		}
	}
	// the error may be kept in a cell (named result captured by a deferred closure): *cell = err; if *cell != nil
	for _, alias := range cellLoadsOf(errV) {
		for _, i := range allIfs(call.Parent()) {
			if nilS, nonNil, ok := nilBranches(i, alias); ok && edgeOnly(i, nilS, nonNil, blk) {
				return true
			}
		}
	}
	return false
}

// cellLoadsOf: loads that read v back from a local cell it was just stored into (same block, no store in between).
func cellLoadsOf(v ssa.Value) []ssa.Value {
	var out []ssa.Value
	refs := v.Referrers()
	if refs == nil {
		return nil
	}
	for _, rf := range *refs {
		st, ok := rf.(*ssa.Store)
		if !ok || st.Val != v {
			continue
		}
		if _, isAl := st.Addr.(*ssa.Alloc); !isAl {
			continue
		}
		after := false
		for _, in := range st.Block().Instrs {
			if in == ssa.Instruction(st) {
				after = true
				continue
			}
			if !after {
				continue
			}
			if s2, ok := in.(*ssa.Store); ok && s2.Addr == st.Addr {
				break
			}
			if u, ok := in.(*ssa.UnOp); ok && u.X == st.Addr {
				out = append(out, u)
			}
		}
	}
	return out
}

func ruleR183(p *Program, r *Report) {
	if fn := p.Func("keystore/v2/keystore/filesystem.(*KeyStore).decryptAndVerifyKeyRings"); fn == nil || fn.Blocks == nil {
		r.Anchor("R18.3", "decryptAndVerifyKeyRings")
	} else {
		ver := callsNamed(fn, "Verify")
		dec := callsNamed(fn, "Decrypt")
		ok, why := false, ""
		if len(ver) != 1 || len(dec) != 1 {
			why = "expected exactly one Verify and one Decrypt call"
		} else {
			cont := extractOf(ver[0], 0)
			pa := plainArgs(dec[0])
			fromVerified := len(pa) >= 2 && cont != nil && backClosure(pa[1])[cont]
			rawIn := len(pa) >= 2 && backClosure(pa[1])[paramByName(fn, "ringData")] && !fromVerified
			sameCtx := false
			// Verify(ringData, exportKeyContext) and the decrypt key context both load the same package variable
			var g1, g2 []ssa.Value
			for v := range backClosure(plainArgs(ver[0])[1]) {
				if u, isU := v.(*ssa.UnOp); isU {
					if _, isG := u.X.(*ssa.Global); isG {
						g1 = append(g1, u.X)
					}
				}
			}
			for v := range backClosure(pa[len(pa)-1]) {
				if u, isU := v.(*ssa.UnOp); isU {
					if _, isG := u.X.(*ssa.Global); isG {
						g2 = append(g2, u.X)
					}
				}
			}
			for _, a := range g1 {
				for _, b := range g2 {
					if a == b {
						sameCtx = true
					}
				}
			}
			switch {
			case rawIn || !fromVerified:
				why = "Decrypt is applied to something other than the payload notary.Verify returned"
			case !nilEdgeDominates(ver[0], dec[0].Block()):
				why = "Decrypt runs although verification may have failed"
			case !sameCtx:
				why = "verification and decryption do not use the same export context"
			default:
				ok = true
			}
		}
		r.Check(ok, "R18.3", fnName(fn), "decrypts only the verified payload", p.Pos(fn.Pos()), "Verify -> (err == nil) -> Decrypt(payload)", why)
	}
	if fn := p.Func("keystore/v2/keystore/filesystem.(*KeyStore).ImportKeyRings"); fn == nil || fn.Blocks == nil {
		r.Anchor("R18.3", "ImportKeyRings")
	} else {
		dv := callsNamed(fn, "decryptAndVerifyKeyRings")
		imp := callsNamed(fn, "importKeyRing")
		ok := len(dv) == 1 && len(imp) >= 1
		for _, c := range imp {
			if len(dv) == 1 && !nilEdgeDominates(dv[0], c.Block()) {
				ok = false
			}
		}
		r.Check(ok, "R18.3", fnName(fn), "imports only after the whole bundle verified", p.Pos(fn.Pos()), "importKeyRing dominated by the success edge of decryptAndVerifyKeyRings", "a key ring may be imported from a bundle that failed verification or decryption")
	}
	if fn := p.Func("keystore/filesystem.(*KeyBackuper).Import"); fn == nil || fn.Blocks == nil {
		r.Anchor("R18.3", "keystore/filesystem.(*KeyBackuper).Import")
	} else {
		dec := callsNamed(fn, "Decrypt")
		decode := callsNamed(fn, "Decode")
		var writes []*ssa.Call
		writes = append(writes, callsNamed(fn, "WriteFile")...)
		writes = append(writes, callsNamed(fn, "MkdirAll")...)
		ok := len(dec) == 1 && len(decode) == 1 && len(writes) >= 2
		why := "expected one Decrypt, one Decode and the storage writes"
		for _, w := range writes {
			if ok && (!nilEdgeDominates(dec[0], w.Block()) || !nilEdgeDominates(decode[0], w.Block())) {
				ok, why = false, "the target is written before the bundle decrypted and decoded successfully"
			}
		}
		// what is decoded is what was decrypted
		if ok {
			if !backClosure(decode[0].Common().Args[0])[extractOf(dec[0], 0)] {
				ok, why = false, "the keys are decoded from something other than the decrypted bundle"
			}
		}
		r.Check(ok, "R18.3", fnName(fn), "writes nothing before the bundle decrypted and decoded", p.Pos(fn.Pos()), "writes dominated by both success edges", why)
		n := 0
		_ = n
	}
}

func ruleR184(p *Program, r *Report) {
	if fn := p.Func("keystore/filesystem.(*KeyBackuper).Import"); fn == nil || fn.Blocks == nil {
		r.Anchor("R18.4", "keystore/filesystem.(*KeyBackuper).Import")
	} else {
		name := fnName(fn)
		wr := callsNamed(fn, "WriteFile")
		encs := callsNamed(fn, "Encrypt")
		priv := callsNamed(fn, "isPrivate")
		ok, why := false, ""
		if len(wr) != 1 || len(encs) != 1 || len(priv) != 1 {
			why = "expected one WriteFile, one Encrypt and one isPrivate test"
		} else {
			content := wr[0].Common().Args[1]
			if !wr[0].Common().IsInvoke() {
				content = plainArgs(wr[0])[1]
			}
			phi, isPhi := content.(*ssa.Phi)
			// the edge taken when isPrivate(name) is true
			var privSucc *ssa.BasicBlock
			for _, i := range ifsOn(priv[0]) {
				privSucc = i.Block().Succs[0]
			}
			switch {
			case !isPhi || privSucc == nil:
				why = "the written content is not selected by the isPrivate test"
			default:
				ok = true
				for k, e := range phi.Edges {
					pred := phi.Block().Preds[k]
					onPriv := privSucc == pred || privSucc.Dominates(pred)
					isEnc := e == ssa.Value(extractOf(encs[0], 0))
					if onPriv && !isEnc {
						ok, why = false, "on the private-key edge the file content is not the Encrypt result"
					}
				}
				// context of the encryption = context of the file name of this key
				pa := plainArgs(encs[0])
				ctxOK := false
				for v := range backClosure(pa[len(pa)-1]) {
					if c, isC := v.(*ssa.Call); isC {
						if co := calleeOfCommon(c.Common()); co != nil && co.Name() == "getContextFromFilename" {
							ctxOK = true
						}
					}
				}
				if ok && !ctxOK {
					ok, why = false, "the key is encrypted under a context that is not derived from its file name"
				}
			}
		}
		r.Check(ok, "R18.4", name, "private key files are written re-encrypted under the target", p.Pos(fn.Pos()), "content = Encrypt(key.Content, getContextFromFilename(key.Name)) on the private edge", why)
	}
	if fn := p.Func("keystore/v2/keystore/filesystem.(*KeyRing).importASN1"); fn == nil || fn.Blocks == nil {
		r.Anchor("R18.4", "importASN1")
	} else {
		// every element stored into the new key slice is *copyKey(...)
		ok, n := true, 0
		for _, b := range fn.Blocks {
			for _, in := range b.Instrs {
				st, isSt := in.(*ssa.Store)
				if !isSt {
					continue
				}
				if _, isIdx := st.Addr.(*ssa.IndexAddr); !isIdx {
					continue
				}
				if named, isN := st.Val.Type().(*types.Named); !isN || named.Obj().Name() != "Key" {
					continue
				}
				n++
				from := false
				for v := range backClosure(st.Val) {
					if c, isC := v.(*ssa.Call); isC {
						if co := calleeOfCommon(c.Common()); co != nil && co.Name() == "copyKey" {
							from = true
						}
					}
				}
				if !from {
					ok = false
				}
			}
		}
		r.Check(ok && n > 0, "R18.4", fnName(fn), "imported keys go through copyKey", p.Pos(fn.Pos()), "newKeys[i] = *copyKey(&ringData.Keys[i])", "a key from the bundle is stored in the ring without being re-encrypted by copyKey")
	}
	ruleCopyKey(p, r, "R18.4")
}

// ruleCopyKey: the import copy of a key starts from empty data and is filled by the encrypting constructor on every success path.
func ruleCopyKey(p *Program, r *Report, rule string) {
	if fn := p.Func("keystore/v2/keystore/filesystem.(*KeyRing).copyKey"); fn == nil || fn.Blocks == nil {
		r.Anchor(rule, "copyKey")
	} else {
		// key.Data starts empty and only addKeyData appends to it
		add := callsNamed(fn, "addKeyData")
		ok := len(add) >= 1
		why := "copyKey no longer adds the key data through addKeyData"
		// the Data field of the copy is assigned a fresh empty slice before the loop
		fresh := false
		for _, b := range fn.Blocks {
			for _, in := range b.Instrs {
				if st, isSt := in.(*ssa.Store); isSt {
					if fa, isFa := st.Addr.(*ssa.FieldAddr); isFa {
						stt := fa.X.Type().Underlying().(*types.Pointer).Elem().Underlying().(*types.Struct)
						if stt.Field(fa.Field).Name() == "Data" {
							if mk, isMk := st.Val.(*ssa.MakeSlice); isMk {
								if c, isC := intConst(mk.Len); isC && c == 0 {
									fresh = true
								}
							} else {
								ok, why = false, "the copy's Data is assigned something other than a fresh empty slice"
							}
						}
					}
				}
			}
		}
		if ok && !fresh {
			ok, why = false, "the copy keeps the bundle's plaintext key data (Data is not reset before re-adding)"
		}
		// every exit that hands a key back has passed the reset: no early return carries the bundle's data over
		if ok {
			var reset *ssa.Store
			for _, b := range fn.Blocks {
				for _, in := range b.Instrs {
					if st, isSt := in.(*ssa.Store); isSt {
						if fa, isFa := st.Addr.(*ssa.FieldAddr); isFa {
							stt := fa.X.Type().Underlying().(*types.Pointer).Elem().Underlying().(*types.Struct)
							if _, isMk := st.Val.(*ssa.MakeSlice); isMk && stt.Field(fa.Field).Name() == "Data" {
								reset = st
							}
						}
					}
				}
			}
			for _, ret := range returnsOf(fn) {
				if isNilConst(retValue(ret, 0)) || !isNilConst(retValue(ret, 1)) {
					continue
				}
				if reset == nil || !(reset.Block().Dominates(ret.Block())) {
					ok, why = false, "a success return is reached without the copy's Data having been reset: that key is stored with the bundle's decrypted key material"
				}
			}
		}
		r.Check(ok, rule, fnName(fn), "copy starts empty and is filled by addKeyData", p.Pos(fn.Pos()), "key.Data = make(.., 0, n); addKeyData for each datum", why)
	}
}

func ruleR185(p *Program, r *Report) {
	if fn := p.Func("keystore/v2/keystore/filesystem.(*KeyRing).decryptKeyData"); fn == nil || fn.Blocks == nil {
		r.Anchor("R18.5", "decryptKeyData")
	} else {
		mode := paramByName(fn, "mode")
		ok, why := false, "no test of the export mode"
		for _, i := range allIfs(fn) {
			if !backClosure(i.Cond)[mode] {
				continue
			}
			// the branch that returns without decrypting must nil out both secret fields
			for s := 0; s < 2; s++ {
				blk := i.Block().Succs[s]
				cleared := map[string]bool{}
				for _, b := range fn.Blocks {
					if !blk.Dominates(b) {
						continue
					}
					for _, in := range b.Instrs {
						if st, isSt := in.(*ssa.Store); isSt && isNilConst(st.Val) {
							if fa, isFa := st.Addr.(*ssa.FieldAddr); isFa {
								stt := fa.X.Type().Underlying().(*types.Pointer).Elem().Underlying().(*types.Struct)
								cleared[stt.Field(fa.Field).Name()] = true
							}
						}
					}
				}
				other := i.Block().Succs[1-s]
				decryptsOnOther := false
				for _, c := range append(callsNamed(fn, "decryptPrivateKey"), callsNamed(fn, "decryptSymmetricKey")...) {
					if other.Dominates(c.Block()) {
						decryptsOnOther = true
					}
				}
				if decryptsOnOther {
					if cleared["PrivateKey"] && cleared["SymmetricKey"] {
						ok = true
					} else {
						why = "the 'no private keys' edge leaves PrivateKey or SymmetricKey in the exported record"
					}
				}
			}
		}
		r.Check(ok, "R18.5", fnName(fn), "public-only export drops secret data", p.Pos(fn.Pos()), "PrivateKey = nil, SymmetricKey = nil on the edge that does not decrypt", why)
	}
	if fn := p.Func("keystore/filesystem.(*KeyBackuper).Export"); fn == nil || fn.Blocks == nil {
		r.Anchor("R18.5", "keystore/filesystem.(*KeyBackuper).Export")
	} else {
		mode := paramByName(fn, "mode")
		// the ReadDir of the private folder happens only under a mode test
		ok, n := true, 0
		for _, c := range callsNamed(fn, "readFilesAsKeys") {
			// which one reads the private folder: its decryptor argument is store.currentDecryptor (not the dummy)
			isPriv := false
			for v := range backClosure(c.Common().Args[2]) {
				if _, f, okF := fieldOfLoad(v); okF && f == "currentDecryptor" {
					isPriv = true
				}
			}
			if !isPriv {
				continue
			}
			n++
			guarded := false
			for _, i := range allIfs(fn) {
				if backClosure(i.Cond)[mode] && (i.Block().Succs[0].Dominates(c.Block()) || i.Block().Succs[1].Dominates(c.Block())) {
					guarded = true
				}
			}
			if !guarded {
				ok = false
			}
		}
		r.Check(ok && n > 0, "R18.5", fnName(fn), "private key files are read only under a mode test", p.Pos(fn.Pos()), "readFilesAsKeys(private…) control-dependent on mode", "the private key files are exported whatever the mode")
	}
}

func ruleR186(p *Program, r *Report) {
	fn := p.Func("keystore/v2/keystore/filesystem.(*KeyRing).copyKey")
	errNo := p.Lookup("keystore/v2/keystore/api.ErrNoKeyData")
	if fn == nil || fn.Blocks == nil || errNo == nil {
		r.Anchor("R18.6", "copyKey / api.ErrNoKeyData")
		return
	}
	rets := returnsGlobalErr(fn, errNo)
	ok := true
	for _, ret := range rets {
		// control-dependent on a comparison of the State field
		dep := false
		for _, i := range allIfs(fn) {
			if !(i.Block().Succs[0].Dominates(ret.Block()) || i.Block().Succs[1].Dominates(ret.Block())) {
				continue
			}
			for v := range backClosure(i.Cond) {
				if _, f, okF := fieldOfLoad(v); okF && f == "State" {
					dep = true
				}
			}
		}
		// short-circuit conditions put the state test in a predecessor block: look at the blocks that dominate the return
		if !dep {
			for _, b := range fn.Blocks {
				if !b.Dominates(ret.Block()) || len(b.Instrs) == 0 {
					continue
				}
				if i, isIf := b.Instrs[len(b.Instrs)-1].(*ssa.If); isIf {
					for v := range backClosure(i.Cond) {
						if _, f, okF := fieldOfLoad(v); okF && f == "State" {
							dep = true
						}
					}
				}
			}
		}
		if !dep {
			ok = false
		}
	}
	r.Check(ok, "R18.6", fnName(fn), "a destroyed key (no data left) is not rejected", p.Pos(fn.Pos()), "ErrNoKeyData only when the key is not in the destroyed state", "a ring that holds a destroyed key cannot be imported: copyKey answers 'no key data' for the destroyed entry and the whole import fails")
}

func ruleR187(p *Program, r *Report) {
	cls := p.FuncObj("keystore/filesystem.(*DefaultKeyFileClassifier).ClassifyExportedKey")
	imp := p.FuncObj("keystore/v2/keystore.(*ServerKeyStore).ImportKeyFileV1")
	if cls == nil || imp == nil {
		r.Anchor("R18.7", "ClassifyExportedKey / ImportKeyFileV1")
		return
	}
	cfd, cpk := p.FuncDecl(cls)
	ifd, ipk := p.FuncDecl(imp)
	if cfd == nil || ifd == nil {
		r.Anchor("R18.7", "declarations of ClassifyExportedKey / ImportKeyFileV1")
		return
	}
	produced := map[string]bool{}
	ast.Inspect(cfd.Body, func(n ast.Node) bool {
		if e, ok := n.(ast.Expr); ok {
			if c := constObj(cpk.TypesInfo, e); c != nil && strings.HasPrefix(c.Name(), "Purpose") {
				produced[c.Name()] = true
			}
		}
		return true
	})
	handled := map[string]bool{}
	ast.Inspect(ifd.Body, func(n ast.Node) bool {
		if cc, ok := n.(*ast.CaseClause); ok {
			for _, e := range cc.List {
				if c := constObj(ipk.TypesInfo, e); c != nil {
					handled[c.Name()] = true
				}
			}
		}
		return true
	})
	var names []string
	for n := range produced {
		names = append(names, n)
	}
	sort.Strings(names)
	for _, n := range names {
		r.Check(handled[n], "R18.7", funcFullName(imp), "case for "+n, p.Pos(ifd.Pos()), "handled", "the v1 classifier produces keys of purpose "+n+" but the v2 import has no case for it: such keys are reported as 'unknown key purpose' and the migration is incomplete")
	}
}

func init() {
	mut("C18", "selected export wipes the symmetric key before bundling it (original defect)", "keystore/filesystem/filesystem_backup.go", "				defer utils.ZeroizeBytes(key)\n				exportedKeys = append(exportedKeys, &keystore.Key{\n					Name:    getClientIDSymmetricKeyName(exportID.ContextID),", "				utils.ZeroizeBytes(key)\n				exportedKeys = append(exportedKeys, &keystore.Key{\n					Name:    getClientIDSymmetricKeyName(exportID.ContextID),", "R18.1", "ZeroizeBytes")
	mut("C18", "selected export wipes the private key before bundling it (original defect)", "keystore/filesystem/filesystem_backup.go", "				defer utils.ZeroizeBytes(key.Value)", "				utils.ZeroizeBytes(key.Value)", "R18.1", "ZeroizeBytes")
	mut("C18", "acra-backup writes the wiped access key (original defect)", "cmd/acra-backup/acra-backup.go", "		if err := os.WriteFile(file, backup.Data, filesystem.PrivateFileMode); err != nil {", "		if err := os.WriteFile(file, backup.Keys, filesystem.PrivateFileMode); err != nil {", "R18.1", "ZeroizeSymmetricKey")
	mut("C18", "v1 bundle carries the serialised keys in clear", "keystore/filesystem/filesystem_backup.go", "	return &keystore.KeysBackup{Data: encryptedKeys, Keys: newMasterKey}, nil", "	_ = encryptedKeys\n	return &keystore.KeysBackup{Data: buf.Bytes(), Keys: newMasterKey}, nil", "R18.2", "fresh key")
	mut("C18", "v2 container signed over the plaintext rings", "keystore/v2/keystore/filesystem/export.go", "		Data:         encryptedKeyBytes,\n	}}", "		Data:         keysBytes,\n	}}\n	_ = encryptedKeyBytes", "R18.2", "Sign(container")
	mut("C18", "v2 decrypts the raw bundle bytes", "keystore/v2/keystore/filesystem/export.go", "cryptosuite.KeyEncryptor.Decrypt(context.Background(), container.Payload.Data.Bytes, keyContext)", "cryptosuite.KeyEncryptor.Decrypt(context.Background(), ringData, keyContext)", "R18.3", "verified payload")
	mut("C18", "v1 import writes before decoding", "keystore/filesystem/filesystem_backup.go", "	decoder := gob.NewDecoder(bytes.NewReader(decryptedData))\n	keys := []*keystore.Key{}\n	if err := decoder.Decode(&keys); err != nil {\n		return nil, err\n	}\n", "	decoder := gob.NewDecoder(bytes.NewReader(decryptedData))\n	keys := []*keystore.Key{}\n	_ = decoder.Decode(&keys)\n", "R18.3", "decrypted and decoded")
	mut("C18", "v1 import stores private keys as they came", "keystore/filesystem/filesystem_backup.go", "			content, err = store.currentDecryptor.Encrypt(context.Background(), key.Content, keyContext)", "			_, err = store.currentDecryptor.Encrypt(context.Background(), key.Content, keyContext)", "R18.4", "re-encrypted")
	mut("C18", "v2 copyKey keeps the bundle's key data", "keystore/v2/keystore/filesystem/key.go", "	key.Data = make([]asn1.KeyData, 0, len(other.Data))\n	for _, otherKey := range other.Data {", "	key.Data = other.Data[:0:0]\n	for _, otherKey := range other.Data {", "R18.4", "copy starts empty")
	mut("C18", "destroyed keys are carried over with their data", "keystore/v2/keystore/filesystem/key.go", "	key := *other\n	// Other key's data is currently in plaintext. We need to encrypt it.", "	key := *other\n	if api.KeyState(other.State) == api.KeyDestroyed {\n		return &key, nil\n	}\n	// Other key's data is currently in plaintext. We need to encrypt it.", "R18.4", "copy starts empty")
	mut("C18", "v2 public-only export keeps symmetric keys", "keystore/v2/keystore/filesystem/export.go", "		data.PrivateKey = nil\n		data.SymmetricKey = nil\n", "		data.PrivateKey = nil\n", "R18.5", "public-only")
	mut("C18", "copyKey rejects destroyed keys again (original defect)", "keystore/v2/keystore/filesystem/key.go", "	if len(other.Data) == 0 && api.KeyState(other.State) != api.KeyDestroyed {", "	if len(other.Data) == 0 {", "R18.6", "destroyed key")
	mut("C18", "migration loses the HMAC key case", "keystore/v2/keystore/importV1.go", "	case keystore.PurposeSearchHMAC:", "	case keystore.PurposeUndefined:", "R18.7", "PurposeSearchHMAC")
}

// edgeOnly: blk is reached from the If only through successor `taken`: taken dominates blk and the other
// successor cannot reach blk without going through the If again (a then-block that falls through to the join
// makes the join the 'nil successor' although the error edge reaches it too).
func edgeOnly(i *ssa.If, taken, other, blk *ssa.BasicBlock) bool {
	if !taken.Dominates(blk) {
		return false
	}
	if other == taken {
		return false
	}
	avoid := map[*ssa.BasicBlock]bool{i.Block(): true}
	if other == blk || reaches(other, blk, avoid) {
		return false
	}
	return true
}

func ruleR188(p *Program, r *Report) {
	fn := p.Func("keystore/filesystem.getContextFromFilename")
	if fn == nil || fn.Blocks == nil {
		r.Anchor("R18.8", "getContextFromFilename")
		return
	}
	name := fnName(fn)
	firstOcc := map[string]bool{"Index": true, "IndexByte": true, "IndexAny": true, "IndexRune": true, "Split": true, "SplitN": true, "Cut": true, "Fields": true, "SplitAfter": true}
	bad := ""
	for _, cs := range callsIn(fn) {
		if cs.Callee != nil && cs.Callee.Pkg() != nil && cs.Callee.Pkg().Path() == "strings" && firstOcc[cs.Callee.Name()] {
			bad = "strings." + cs.Callee.Name()
		}
	}
	r.Check(bad == "", "R18.8", name, "no first-occurrence cut of the file name", p.Pos(fn.Pos()), "suffix tests and suffix cuts only", "the client id is cut with "+bad+": a client id that contains the key-kind suffix in the middle is truncated and the key is re-encrypted under another owner's context")
	// every string slice in the function is x[:len(x)-const]
	okCuts, nCuts := true, 0
	for _, b := range fn.Blocks {
		for _, in := range b.Instrs {
			sl, ok := in.(*ssa.Slice)
			if !ok {
				continue
			}
			if bt, isB := sl.X.Type().Underlying().(*types.Basic); !isB || bt.Info()&types.IsString == 0 {
				continue
			}
			nCuts++
			good := sl.Low == nil
			if bo, isBo := sl.High.(*ssa.BinOp); good && isBo && bo.Op.String() == "-" {
				op, isLen := isLenCall(bo.X)
				_, isC := intConst(bo.Y)
				good = isLen && op == sl.X && isC
			} else {
				good = false
			}
			if !good {
				okCuts = false
			}
		}
	}
	r.Check(okCuts, "R18.8", name, "the name is only shortened at its end", p.Pos(fn.Pos()), itoa(nCuts)+" cuts of the form name[:len(name)-len(suffix)]", "the file name is cut somewhere else than at the tested suffix")
	// poison contexts use the whole name, everywhere
	ctor := p.FuncObj("keystore.NewKeyContext")
	if ctor == nil {
		r.Anchor("R18.8", "keystore.NewKeyContext")
		return
	}
	n := 0
	for _, f := range p.SrcFuncs("keystore/filesystem") {
		for _, cs := range callsTo(f, ctor) {
			pv, ok := cs.Instr.Common().Args[0].(*ssa.Const)
			if !ok || pv.Value == nil {
				continue
			}
			purpose := pv.Value.ExactString()
			if !strings.Contains(purpose, "poison") {
				continue
			}
			n++
			sliced := false
			for v := range backClosure(cs.Instr.Common().Args[1]) {
				if _, isSl := v.(*ssa.Slice); isSl {
					sliced = true
				}
			}
			r.Check(!sliced, "R18.8", fnName(f), "poison key context "+purpose+" uses the whole key name", p.Pos(cs.Instr.Pos()), "context = []byte(name)", "this site builds the poison record key context from a shortened name while the other sites use the whole name: the key cannot be decrypted by the code that reads it")
		}
	}
	if n < 5 {
		r.Bad("R18.8", "keystore/filesystem", "poison key context sites", "-", "fewer poison key context constructions found than confirmed by reading")
	}
}

func init() {
	mut("C18", "poison symmetric key context loses its suffix (original defect)", "keystore/filesystem/filesystem_backup.go", "		return keystore.NewKeyContext(keystore.PurposePoisonRecordSymmetricKey, []byte(fname))", "		return keystore.NewKeyContext(keystore.PurposePoisonRecordSymmetricKey, []byte(fname[:len(fname)-len(\"_sym\")]))", "R18.8", "whole key name")
	mut("C18", "client id cut at the first occurrence of the suffix", "keystore/filesystem/filesystem_backup.go", "[]byte(fname[:len(fname)-len(\"_hmac\")]))", "[]byte(fname[:strings.Index(fname, \"_hmac\")]))", "R18.8", "first-occurrence")
}
