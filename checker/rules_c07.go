package main

import (
	"path/filepath"
	"go/ast"
	"go/constant"
	"go/token"
	"go/types"
	"strings"

	"golang.org/x/tools/go/ssa"
)

func init() {
	register(&Property{ID: "C07", Patterns: []string{"./..."}, Run: runC07})
}

func runC07(p *Program, r *Report) {
	r.Rule("R07.1", "E2", 12, "encrypt-before-write: no value derived from secret key material (private half of a generated key pair, generated symmetric key, random key buffer, result of any key decryption) reaches a storage write (Storage.WriteFile, Backend.Put), the key cache (Cache.Add) or an export bundle (KeysBackup.Data, ExportKeyRings result) without passing a key-encryption call (KeyEncryptor.Encrypt, KeyRing.encrypt*, KeyStore.encrypt)")
	ruleR071(p, r)
	r.Rule("R07.3", "E2+E3", 3, "signature covers what is parsed, errors are not dropped: verifyKeyRing unmarshals the payload of the notary.Verify result (not the raw input), only on the err == nil edge, with a context derived from the ring path; no error result of a call in it is swallowed (an err != nil edge that neither returns nor is reassigned)")
	ruleR073(p, r)
	r.Rule("R07.4", "E2+E4", 8, "root confinement: every os/ioutil call of the directory back end that takes a path gets one derived from osPath (or a constant file name joined to the root), and osPath's success return is control-dependent on an effective containment predicate (filepath.Rel to the root followed by a '..' test, filepath.IsLocal, or a HasPrefix test against the root); comparing a Join result with its own Clean is vacuous")
	ruleR074(p, r)
	r.Rule("R07.7", "E2", 1, "imported key material is re-encrypted before it is stored: the import copy of a key (copyKey) resets the key data and refills it through the encrypting constructor on every path that hands a key back - no early return carries the bundle's decrypted data into the ring")
	ruleCopyKey(p, r, "R07.7")
	r.Rule("R07.6", "E2", 2, "signatures are compared whole: every constant-time comparison that authenticates stored data compares the complete stored tag with the complete computed tag (no operand is a re-slice whose bounds are computed at run time), the verifier answers 'valid' only on the equal edge, and the computed tag covers the data and the context it was given")
	ruleWholeTagCompare(p, r, "R07.6", []string{"keystore/v2/keystore/crypto", "keystore/v2/keystore/signature"}, 1)
	ruleR076(p, r)
	r.Rule("R07.5", "E4", 6, "permission discipline: every file/directory creation in the two keystores uses the 0600/0700 constants (public key files 0644)")
	ruleR075(p, r)
	r.Note("R07.2 (owner/purpose context on every key-encryption call) is decided as R02.4 in property C02; its obligations are not duplicated here")
	r.Rule("R07.8", "E2", 1, "a ring's signature is bound to its whole location: the context under which a v2 key ring is signed and verified is built from the ring's full path, which reaches the context through conversions, append/concatenation and the keystore's own context wrapper only - no base name, directory part, slice or other narrowing (two rings whose paths differ anywhere must not share a signature context, or a ring copied to another client's place verifies there)")
	ruleR078(p, r)
}

func isKeyEncryptCallee(co *types.Func) bool {
	if co == nil || co.Pkg() == nil {
		return false
	}
	pk := strings.TrimPrefix(co.Pkg().Path(), acraMod+"/")
	n := co.Name()
	switch {
	case pk == "keystore" && n == "Encrypt": // KeyEncryptor.Encrypt / SCellKeyEncryptor.Encrypt
		return true
	case pk == "keystore/v2/keystore/filesystem" && (n == "encrypt" || n == "encryptPrivateKey" || n == "encryptSymmetricKey"):
		return true
	case strings.HasPrefix(pk, "keystore/kms") && n == "Encrypt":
		return true
	case strings.Contains(co.Pkg().Path(), "themis/gothemis/cell") && (n == "Protect" || n == "Encrypt"):
		return true
	}
	return false
}

// secretSource classifies a leaf of a sink's data argument.
func r071Classify(p *Program) func(leaf ssa.Value) (provVerdict, string) {
	return func(leaf ssa.Value) (provVerdict, string) {
		if c, ok := leaf.(*ssa.Const); ok {
			if c.Value == nil {
				return provAllowed, "nil"
			}
			return provAllowed, "constant"
		}
		// field loads
		if n, f, ok := fieldOfLoad(leaf); ok && n != nil {
			tn := n.Obj().Name()
			pk := ""
			if n.Obj().Pkg() != nil {
				pk = n.Obj().Pkg().Path()
			}
			switch {
			case strings.Contains(pk, "gothemis/keys") && tn == "PublicKey" && f == "Value":
				return provAllowed, "public key"
			case strings.Contains(pk, "gothemis/keys") && tn == "PrivateKey" && f == "Value":
				return provForbidden, "plaintext private key (keys.PrivateKey.Value)"
			case strings.Contains(pk, "gothemis/keys") && tn == "SymmetricKey":
				return provForbidden, "plaintext symmetric key"
			case tn == "KeyData" && strings.HasSuffix(pk, "keystore/api") && (f == "PrivateKey" || f == "SymmetricKey"):
				return provForbidden, "plaintext key material (api.KeyData." + f + ")"
			case tn == "KeyData" && strings.HasSuffix(pk, "keystore/api") && f == "PublicKey":
				return provAllowed, "public key"
			case tn == "Key" && strings.HasSuffix(pk, "acra/keystore") && f == "Content":
				return provUndecided, "" // export item: decided where it is filled
			case tn == "KeyRing" && strings.HasSuffix(pk, "keystore/filesystem") && f == "data":
				return provAllowed, "the in-memory key ring (its secret fields are written only by addKeyData, checked as a sink of this rule, and by the export copy, checked by who-may-write)"
			}
		}
		var call *ssa.Call
		switch x := leaf.(type) {
		case *ssa.Extract:
			call, _ = x.Tuple.(*ssa.Call)
		case *ssa.Call:
			call = x
		}
		if call != nil {
			co := calleeOfCommon(call.Common())
			if isKeyEncryptCallee(co) {
				return provAllowed, "result of " + co.Name() + " (ciphertext)"
			}
			if co != nil {
				full := funcFullName(co)
				switch {
				case co.Name() == "Sign" && strings.Contains(full, "signature"):
					return provUndecided, "" // signed container: decided by what was signed (expanded below through arguments)
				case full == "keystore.GenerateSymmetricKey" || strings.HasSuffix(full, "ServerKeyStore.newSymmetricKey"):
					return provForbidden, "freshly generated symmetric key"
				case co.Name() == "Decrypt" || co.Name() == "decrypt" || co.Name() == "decryptPrivateKey" || co.Name() == "decryptSymmetricKey" || co.Name() == "Unprotect" || co.Name() == "Unwrap":
					return provForbidden, "result of " + co.Name() + " (plaintext)"
				case co.Name() == "MarshalMsg":
					return provAllowed, "msgpack of file names"
				case co.Name() == "ReadFile" || co.Name() == "ReadKeyFile" || co.Name() == "Get" && strings.Contains(full, "backend"):
					return provAllowed, "bytes as stored (already protected at rest)"
				case co.FullName() == "(*bytes.Buffer).Bytes":
					return provUndecided, ""
				case co.FullName() == "time.Now", co.FullName() == "fmt.Sprintf", co.FullName() == "fmt.Sprint":
					return provAllowed, "not key material (" + co.Name() + ")"
				}
			}
		}
		if a, ok := leaf.(*ssa.Alloc); ok {
			// a local buffer: secret if crypto/rand fills it
			if refs := a.Referrers(); refs != nil {
				for _, rf := range *refs {
					if sl, ok := rf.(*ssa.Slice); ok {
						if srefs := sl.Referrers(); srefs != nil {
							for _, sr := range *srefs {
								if c, ok := sr.(*ssa.Call); ok {
									if co := calleeOfCommon(c.Common()); co != nil && co.FullName() == "crypto/rand.Read" {
										return provForbidden, "buffer filled by crypto/rand"
									}
								}
							}
						}
					}
				}
			}
		}
		if ms, ok := leaf.(*ssa.MakeSlice); ok {
			if refs := ms.Referrers(); refs != nil {
				for _, rf := range *refs {
					if c, ok := rf.(*ssa.Call); ok {
						if co := calleeOfCommon(c.Common()); co != nil && co.FullName() == "crypto/rand.Read" {
							return provForbidden, "buffer filled by crypto/rand"
						}
					}
				}
			}
			return provAllowed, "fresh empty buffer (content arrives through append, followed separately)"
		}
		return provUndecided, ""
	}
}

// unreachable: an unexported acra function without any caller in the call graph.
func (p *Program) unreachable(fn *ssa.Function) bool {
	if fn == nil || fn.Parent() != nil {
		return false
	}
	if ast.IsExported(fn.Name()) || fn.Name() == "init" || fn.Name() == "main" {
		return false
	}
	_, callers := p.callSites()
	for _, site := range callers[fn] {
		if par := site.Parent(); par != nil && par != fn && par.Synthetic == "" {
			return false
		}
	}
	// address taken (method value, func value)?
	if refs := fn.Referrers(); refs != nil && len(*refs) > 0 {
		return false
	}
	return true
}

var r071Confirmed = map[string]string{
	"(*keystore/filesystem.KeyBackuper).Import|Storage.WriteFile data": "content is the bundle's key.Content only on the public-key branch; on the private branch it has been replaced by currentDecryptor.Encrypt(key.Content, context) before the write (that branch is decided by R18.4)",
}

func ruleR071(p *Program, r *Report) {
	// who may write the secret fields of the serialised ring
	for _, fn := range p.srcFns {
		for _, b := range fn.Blocks {
			for _, in := range b.Instrs {
				st, ok := in.(*ssa.Store)
				if !ok {
					continue
				}
				fa, ok := st.Addr.(*ssa.FieldAddr)
				if !ok {
					continue
				}
				n, f, ok := fieldOfAddr(fa)
				if !ok || n == nil || n.Obj().Pkg() == nil || n.Obj().Name() != "KeyData" || !strings.HasSuffix(n.Obj().Pkg().Path(), "keystore/asn1") || (f != "PrivateKey" && f != "SymmetricKey") {
					continue
				}
				if isNilConst(st.Val) {
					continue
				}
				who := fnName(fn)
				switch {
				case strings.HasSuffix(who, ".addKeyData"):
					// judged below as a sink
				case strings.HasSuffix(who, ".decryptKeyData"):
					r.OK("R07.1", who, "writes asn1.KeyData."+f, p.Pos(st.Pos()), "export copy: plaintext for the bundle only, which encryptAndSignKeyRings encrypts as a whole (R18.2)")
				default:
					r.Bad("R07.1", who, "writes asn1.KeyData."+f, p.Pos(st.Pos()), "a function other than addKeyData (ciphertext) and the export copy writes the secret field of a serialised key ring")
				}
			}
		}
	}
	classify := r071Classify(p)
	judge := func(fn *ssa.Function, in ssa.Instruction, what string, data ssa.Value) {
		if p.unreachable(fn) {
			r.Note("R07.1: sink %s in %s skipped: the function has no caller anywhere in the program (dead code)", what, fnName(fn))
			return
		}
		roots := p.provenance(data, leafOpts{throughAppend: true, expandAllocs: true, wrapper: func(co *types.Func) bool {
			full := funcFullName(co)
			return (co.Name() == "Sign" && strings.Contains(full, "signature")) || co.Name() == "Marshal" || co.FullName() == "encoding/asn1.Marshal"
		}}, classify)
		var bad, good []string
		for _, rt := range roots {
			switch rt.Verdict {
			case provAllowed:
				good = append(good, rt.Why)
			case provForbidden:
				if rt.Fn != nil && p.unreachable(rt.Fn) {
					r.Note("R07.1: %s in %s ignored: the function has no caller anywhere in the program (dead code)", rt.Why, fnName(rt.Fn))
					continue
				}
				bad = append(bad, rt.Why+" in "+fnNameOrDash(rt.Fn))
			default:
				if pr, ok := rt.Val.(*ssa.Parameter); ok && strings.Contains(rt.Why, "no callers") {
					if pr.Parent().Synthetic != "" || p.unreachable(pr.Parent()) {
						continue
					}
					good = append(good, "parameter "+pr.Name()+" of exported "+fnName(pr.Parent())+" (caller supplies already protected bytes)")
					continue
				}
				bad = append(bad, "undecided: "+rt.Why+" in "+fnNameOrDash(rt.Fn))
			}
		}
		construct := what + " (" + operandText(p, in) + ")"
		if _, isStore := in.(*ssa.Store); isStore {
			construct = what
		}
		if len(bad) == 0 {
			r.OK("R07.1", fnName(fn), construct, p.Pos(in.Pos()), "derives only from: "+strings.Join(uniq(good), "; "))
		} else if why, ok := r071Confirmed[fnName(fn)+"|"+what]; ok {
			r.Confirmed("R07.1", fnName(fn), construct, p.Pos(in.Pos()), why)
		} else {
			r.Bad("R07.1", fnName(fn), construct, p.Pos(in.Pos()), "key material reaches storage, cache or bundle without passing a key-encryption call: "+strings.Join(uniq(bad), "; "))
		}
	}
	for _, fn := range p.srcFns {
		pp := strings.TrimPrefix(fnPkgPath(fn), acraMod+"/")
		if !strings.HasPrefix(pp, "keystore") {
			continue
		}
		for _, b := range fn.Blocks {
			for _, in := range b.Instrs {
				switch x := in.(type) {
				case ssa.CallInstruction:
					co := calleeOfCommon(x.Common())
					if co == nil {
						continue
					}
					full := funcFullName(co)
					cc := x.Common()
					args := cc.Args
					if !cc.IsInvoke() && co.Type().(*types.Signature).Recv() != nil {
						args = args[1:]
					}
					switch {
					case (co.Name() == "WritePrivateKey" && strings.HasPrefix(full, "keystore/filesystem")) && len(args) == 2:
						judge(fn, in, "WritePrivateKey data", args[1])
					case co.Name() == "WriteKeyFile" && strings.HasPrefix(full, "keystore/filesystem") && len(args) == 3:
						// private mode only
						if c, ok := args[2].(*ssa.Const); ok && c.Value != nil && c.Value.String() == "384" {
							judge(fn, in, "WriteKeyFile(private) data", args[1])
						}
					case co.Name() == "WriteFile" && strings.HasPrefix(full, "keystore/filesystem") && fn.Name() != "WriteKeyFile" && len(args) == 3:
						judge(fn, in, "Storage.WriteFile data", args[1])
					case co.Name() == "Add" && (strings.HasPrefix(full, "keystore.") || strings.HasPrefix(full, "keystore/lru") || full == "keystore/filesystem.KeyStore.Add") && len(args) == 2 && fn.Name() != "Add":
						judge(fn, in, "Cache.Add value", args[1])
					case co.Name() == "Put" && strings.HasPrefix(full, "keystore/v2/keystore/filesystem/backend") && len(args) == 2 && strings.HasPrefix(pp, "keystore/v2/keystore/filesystem") && !strings.Contains(pp, "backend"):
						r071Put(p, r, fn, x, args[1])
					}
				case *ssa.Store:
					fa, ok := x.Addr.(*ssa.FieldAddr)
					if !ok {
						continue
					}
					n, f, ok := fieldOfAddr(fa)
					if !ok || n == nil || n.Obj().Pkg() == nil {
						continue
					}
					pk := n.Obj().Pkg().Path()
					switch {
					case n.Obj().Name() == "KeyData" && strings.HasSuffix(pk, "keystore/asn1") && (f == "PrivateKey" || f == "SymmetricKey") && fn.Name() == "addKeyData":
						judge(fn, in, "ring key data ."+f, x.Val)
					case n.Obj().Name() == "KeysBackup" && f == "Data" && strings.HasPrefix(pp, "keystore/filesystem"):
						judge(fn, in, "export bundle .Data", x.Val)
					case n.Obj().Name() == "SignedPayload" && f == "Data" && fn.Name() == "encryptAndSignKeyRings":
						judge(fn, in, "v2 export payload .Data", x.Val)
					}
				}
			}
		}
	}
}

func ruleR073(p *Program, r *Report) {
	fn := p.Func("keystore/v2/keystore/filesystem.(*KeyStore).verifyKeyRing")
	if fn == nil || fn.Blocks == nil {
		r.Anchor("R07.3", "v2 verifyKeyRing")
		return
	}
	name := fnName(fn)
	var verify, unmarshal *ssa.Call
	for _, cs := range callsIn(fn) {
		c, ok := cs.Instr.(*ssa.Call)
		if !ok || cs.Callee == nil {
			continue
		}
		switch cs.Callee.Name() {
		case "Verify":
			verify = c
		case "UnmarshalKeyRing":
			unmarshal = c
		}
	}
	if verify == nil || unmarshal == nil {
		r.Bad("R07.3", name, "Verify / UnmarshalKeyRing", p.Pos(fn.Pos()), "verification or unmarshalling call not found")
		return
	}
	// payload provenance
	fromVerified := backClosure(unmarshal.Common().Args[0])[extractOf(verify, 0)]
	rawParam := fn.Params[1]
	fromRaw := false
	for _, l := range leavesOf(unmarshal.Common().Args[0], leafOpts{}) {
		if l == ssa.Value(rawParam) {
			fromRaw = true
		}
	}
	r.Check(fromVerified && !fromRaw, "R07.3", name, "parsed bytes are the verified payload", p.Pos(unmarshal.Pos()), "UnmarshalKeyRing takes verified.Payload…, not the raw input", "the key ring that is parsed is not the byte span the signature was verified over")
	// on err == nil edge of Verify
	okEdge := false
	if errv := extractOf(verify, 1); errv != nil {
		if refs := errv.Referrers(); refs != nil {
			for _, rf := range *refs {
				if bo, ok := rf.(*ssa.BinOp); ok {
					for _, i := range ifsOn(bo) {
						if nilS, nonNil, ok := nilBranches(i, errv); ok && nilS.Dominates(unmarshal.Block()) && !reaches(nonNil, unmarshal.Block(), nil) {
							okEdge = true
						}
					}
				}
			}
		}
	}
	r.Check(okEdge, "R07.3", name, "parse only after successful verification", p.Pos(unmarshal.Pos()), "dominated by the nil-error edge of notary.Verify", "the key ring is parsed although its signature did not verify")
	// signature context derives from the path parameter
	pathParam := paramByName(fn, "path")
	ctxOK := pathParam != nil && backClosure(verify.Common().Args[len(verify.Common().Args)-1])[pathParam]
	r.Check(ctxOK, "R07.3", name, "signature context derives from the ring path", p.Pos(verify.Pos()), "Verify(data, keyRingSignatureContext(path))", "the signature is verified under a context that does not include the ring's own path: a ring file moved to another path still verifies")
	// swallowed errors
	swallowedErrors(p, r, "R07.3", fn)
}

// swallowedErrors: an `err != nil` edge of a call's error result that neither returns nor leaves the function's
// normal flow: the block falls through to code that uses the value returned alongside the error.
func swallowedErrors(p *Program, r *Report, rule string, fn *ssa.Function) {
	for _, cs := range callsIn(fn) {
		c, ok := cs.Instr.(*ssa.Call)
		if !ok {
			continue
		}
		sig := c.Common().Signature()
		n := sig.Results().Len()
		if n == 0 || !isErrorType(sig.Results().At(n-1).Type()) {
			continue
		}
		var errv ssa.Value = c
		if n > 1 {
			ex := extractOf(c, n-1)
			if ex == nil {
				continue
			}
			errv = ex
		}
		refs := errv.Referrers()
		if refs == nil {
			continue
		}
		for _, rf := range *refs {
			bo, ok := rf.(*ssa.BinOp)
			if !ok {
				continue
			}
			for _, i := range ifsOn(bo) {
				nilS, nonNil, ok := nilBranches(i, errv)
				if !ok {
					continue
				}
				// the error edge must not flow back into the success continuation and end in a success report
				joins := nonNil != nilS && reaches(nonNil, nilS, nil) && !reaches(nilS, nonNil, nil)
				if joins {
					joins = reachesSuccessReturn(fn, nonNil, errv)
				}
				callName := "call"
				if co := calleeOfCommon(c.Common()); co != nil {
					callName = co.Name()
				}
				r.Check(!joins, rule, fnName(fn), "error of "+callName+" is not swallowed", p.Pos(c.Pos()), "err != nil edge leaves the normal flow", "the err != nil edge of "+callName+" only logs and falls through: the function goes on with the zero value returned alongside the error and reports success")
			}
		}
	}
}

func ruleR074(p *Program, r *Report) {
	osPath := p.FuncObj("keystore/v2/keystore/filesystem/backend.(*DirectoryBackend).osPath")
	if osPath == nil {
		r.Anchor("R07.4", "DirectoryBackend.osPath")
		return
	}
	// (a) every os/ioutil path argument derives from osPath or root-joined constants
	for _, fn := range p.SrcFuncs("keystore/v2/keystore/filesystem/backend") {
		rn := ""
		if fn.Signature.Recv() != nil {
			rn = fn.Signature.Recv().Type().String()
		}
		if !strings.Contains(rn, "DirectoryBackend") {
			continue
		}
		for _, cs := range callsIn(fn) {
			co := cs.Callee
			if co == nil || co.Pkg() == nil || (co.Pkg().Path() != "os" && co.Pkg().Path() != "io/ioutil") {
				continue
			}
			sig := co.Type().(*types.Signature)
			for i := 0; i < sig.Params().Len() && i < len(cs.Instr.Common().Args); i++ {
				if b, ok := sig.Params().At(i).Type().Underlying().(*types.Basic); !ok || b.Kind() != types.String {
					continue
				}
				pn := sig.Params().At(i).Name()
				if !(strings.Contains(pn, "name") || strings.Contains(pn, "path") || strings.Contains(pn, "dir") || pn == "filename") {
					continue
				}
				arg := cs.Instr.Common().Args[i]
				bad := ""
				roots := p.provenance(arg, leafOpts{wrapper: func(w *types.Func) bool {
					return w.Pkg() != nil && w.Pkg().Path() == "path/filepath" && (w.Name() == "Join" || w.Name() == "Dir")
				}}, func(leaf ssa.Value) (provVerdict, string) {
					if isCallResult(leaf, osPath, 0) {
						return provAllowed, "osPath result"
					}
					if _, f, ok := fieldOfLoad(leaf); ok && f == "root" {
						return provAllowed, "the root"
					}
					if c, ok := leaf.(*ssa.Const); ok && c.Value != nil {
						return provAllowed, "constant file name"
					}
					if u, ok := leaf.(*ssa.UnOp); ok {
						if _, isG := u.X.(*ssa.Global); isG {
							return provAllowed, "package-level file name"
						}
					}
					return provUndecided, ""
				})
				for _, rt := range roots {
					if rt.Verdict != provAllowed {
						bad = rt.Why
					}
				}
				r.Check(bad == "", "R07.4", fnName(fn), co.Pkg().Name()+"."+co.Name()+"("+pn+")", p.Pos(cs.Instr.Pos()), "path derives from osPath / the root", "a file-system call takes a path that does not go through osPath: "+bad)
			}
		}
	}
	// (b) osPath has an effective containment predicate
	fn := p.Func2(osPath)
	if fn == nil || fn.Blocks == nil {
		r.Anchor("R07.4", "osPath body")
		return
	}
	effective := ""
	vacuous := false
	testedOther := false
	prefixOnly := false
	for _, cs := range callsIn(fn) {
		if cs.Callee == nil {
			continue
		}
		switch cs.Callee.FullName() {
		case "path/filepath.Rel":
			// Rel(root, full) and a test of the result against ".."
			usesRoot := false
			for v := range backClosure(cs.Instr.Common().Args[0]) {
				if _, f, ok := fieldOfLoad(v); ok && f == "root" {
					usesRoot = true
				}
			}
			relv := extractOf(cs.Instr.Value(), 0)
			dotdot := false
			if relv != nil {
				for _, b := range fn.Blocks {
					for _, in := range b.Instrs {
						switch x := in.(type) {
						case *ssa.BinOp:
							if (x.X == ssa.Value(relv) || x.Y == ssa.Value(relv)) && (isConstString(x.X, "..") || isConstString(x.Y, "..")) {
								dotdot = true
							}
						case *ssa.Call:
							if co := calleeOfCommon(x.Common()); co != nil && co.FullName() == "strings.HasPrefix" && x.Call.Args[0] == ssa.Value(relv) {
								dotdot = true
							}
						}
					}
				}
			}
			if usesRoot && dotdot {
				effective = "filepath.Rel(root, full) + '..' test"
				// what is handed out must be the very path that was tested: anything applied to it afterwards
				// (separator conversion, another Join) can change where it points
				tested := cs.Instr.Common().Args[1]
				for _, ret := range returnsOf(fn) {
					if isNilConst(retValue(ret, 1)) && retValue(ret, 0) != tested {
						testedOther = true
					}
				}
			}
		case "path/filepath.IsLocal":
			effective = "filepath.IsLocal"
		case "strings.HasPrefix":
			usesRoot, boundary := false, false
			for v := range backClosure(cs.Instr.Common().Args[1]) {
				if _, f, ok := fieldOfLoad(v); ok && f == "root" {
					usesRoot = true
				}
				// the prefix must end at a path boundary: root + separator
				if c, ok := v.(*ssa.Const); ok && c.Value != nil {
					if c.Value.Kind() == constant.String {
						if sv := constant.StringVal(c.Value); strings.HasSuffix(sv, "/") || strings.HasSuffix(sv, string(filepath.Separator)) {
							boundary = true
						}
					} else if k, isK := intConst(c); isK && k == int64(filepath.Separator) {
						boundary = true // string(filepath.Separator)
					}
				}
			}
			if usesRoot && boundary {
				effective = "HasPrefix(full, root + separator)"
			} else if usesRoot {
				prefixOnly = true
			}
		case "path/filepath.Clean":
			// x != Clean(x) where x is a Join result
			arg := cs.Instr.Common().Args[0]
			if c, ok := arg.(*ssa.Call); ok {
				if co := calleeOfCommon(c.Common()); co != nil && co.FullName() == "path/filepath.Join" {
					vacuous = true
				}
			}
		}
	}
	// the success return must be control dependent on the predicate: some error return exists that is not the Join/arg error
	errReturns := 0
	for _, ret := range returnsOf(fn) {
		if !isNilConst(retValue(ret, 1)) {
			errReturns++
		}
	}
	r.Check(effective != "" && errReturns > 0 && !testedOther, "R07.4", fnName(fn), "containment predicate", p.Pos(fn.Pos()), effective, func() string {
		if prefixOnly && effective == "" {
			return "containment is decided by a plain string prefix of the root, which has no path boundary: a path that climbs into a sibling directory whose name starts with the root's name (../keys-old/x under root keys) is accepted"
		}
		if testedOther {
			return "the path returned on success is not the path whose containment was tested (it is transformed again after the test): a component that only becomes '..' through that transformation leaves the keystore root"
		}
		if vacuous {
			return "the only escape check compares a filepath.Join result with its own Clean, which can never differ: a key path with '..' components leaves the keystore root"
		}
		return "no effective containment predicate between the joined path and the keystore root"
	}())
}

func isConstString(v ssa.Value, s string) bool {
	c, ok := v.(*ssa.Const)
	return ok && c.Value != nil && c.Value.Kind() == constant.String && constant.StringVal(c.Value) == s
}

func ruleR075(p *Program, r *Report) {
	// every call taking an os.FileMode argument in the keystore packages: the mode must be one of the named constants / params
	allowed := map[int64]string{0600: "private file", 0700: "key directory", 0644: "public key / version file"}
	for _, fn := range p.srcFns {
		pp := strings.TrimPrefix(fnPkgPath(fn), acraMod+"/")
		if pp != "keystore/filesystem" && pp != "keystore/v2/keystore/filesystem/backend" && pp != "keystore/v2/keystore/filesystem" {
			continue
		}
		for _, cs := range callsIn(fn) {
			co := cs.Callee
			if co == nil {
				continue
			}
			sig := co.Type().(*types.Signature)
			args := cs.Instr.Common().Args
			off := 0
			if !cs.Instr.Common().IsInvoke() && sig.Recv() != nil {
				off = 1
			}
			for i := 0; i < sig.Params().Len(); i++ {
				if sig.Params().At(i).Type().String() != "io/fs.FileMode" && sig.Params().At(i).Type().String() != "os.FileMode" {
					continue
				}
				if i+off >= len(args) {
					continue
				}
				a := args[i+off]
				if !(strings.Contains(co.Name(), "Mkdir") || strings.Contains(co.Name(), "WriteFile") || strings.Contains(co.Name(), "OpenFile") || strings.Contains(co.Name(), "TempFile") || co.Name() == "Chmod") {
					continue
				}
				construct := co.Name() + " mode"
				bad := ""
				for _, leaf := range leavesOf(a, leafOpts{}) {
					switch x := leaf.(type) {
					case *ssa.Const:
						v, _ := constant.Int64Val(x.Value)
						if _, ok := allowed[v]; !ok {
							bad = "mode " + x.Value.String()
						}
					case *ssa.Parameter:
						// passed through from a caller that is itself checked
					default:
						// preserving the mode of an existing file (Copy): Mode()/Perm() of a FileInfo
						okMode := false
						for v := range backClosure(leaf) {
							if c, ok := v.(*ssa.Call); ok {
								if co := calleeOfCommon(c.Common()); co != nil && (co.Name() == "Mode" || co.Name() == "Perm") {
									okMode = true
								}
							}
						}
						if !okMode {
							bad = "computed mode " + leaf.String()
						}
					}
				}
				r.Check(bad == "", "R07.5", fnName(fn), construct+" ("+operandText(p, cs.Instr)+")", p.Pos(cs.Instr.Pos()), "one of 0600 / 0700 / 0644", "a keystore file or directory is created with "+bad)
			}
		}
	}
	_ = ast.IsExported
	_ = token.ADD
}

func init() {
	mut("C07", "v1: private key written before encryption", "keystore/filesystem/server_keystore.go", "	err = store.WritePrivateKey(store.GetPrivateKeyFilePath(filename), encryptedPrivate)", "	_ = encryptedPrivate\n	err = store.WritePrivateKey(store.GetPrivateKeyFilePath(filename), keypair.Private.Value)", "R07.1", "WritePrivateKey")
	mut("C07", "v1: cache holds the decrypted key", "keystore/filesystem/server_keystore.go", "	store.cache.Add(filename, cacheEncryptedPrivate)\n	store.cache.Add(filename+\".pub\", keypair.Public.Value)", "	_ = cacheEncryptedPrivate\n	store.cache.Add(filename, keypair.Private.Value)\n	store.cache.Add(filename+\".pub\", keypair.Public.Value)", "R07.1", "Cache.Add")
	mut("C07", "v2: symmetric key stored in the ring unencrypted", "keystore/v2/keystore/filesystem/key.go", "		newData.SymmetricKey = encryptedSymmetricKey", "		_ = encryptedSymmetricKey\n		newData.SymmetricKey = data.SymmetricKey", "R07.1", "addKeyData")
	mut("C07", "verifyKeyRing parses the raw input", "keystore/v2/keystore/filesystem/keyStore.go", "	ringData, err := asn1.UnmarshalKeyRing(verified.Payload.Data.FullBytes)", "	ringData, err := asn1.UnmarshalKeyRing(data[len(data)-len(verified.Payload.Data.FullBytes):])", "R07.3", "parsed bytes")
	mut("C07", "verifyKeyRing swallows the unmarshal error (original defect)", "keystore/v2/keystore/filesystem/keyStore.go", "		log.WithError(err).Debug(\"failed to unmarshal key ring data\")\n		return nil, nil, err", "		log.WithError(err).Debug(\"failed to unmarshal key ring data\")", "R07.3", "UnmarshalKeyRing")
	mut("C07", "osPath transforms the path again after the containment test", "keystore/v2/keystore/filesystem/backend/filesystem.go", "	return fullPath, nil\n}\n\n// Lock acquires", "	return filepath.Join(b.root, pathSeparators.Replace(rel)), nil\n}\n\n// Lock acquires", "R07.4", "containment")
	mut("C07", "destroyed keys are imported with their decrypted data", "keystore/v2/keystore/filesystem/key.go", "	key := *other\n	// Other key's data is currently in plaintext. We need to encrypt it.", "	key := *other\n	if api.KeyState(other.State) == api.KeyDestroyed {\n		return &key, nil\n	}\n	// Other key's data is currently in plaintext. We need to encrypt it.", "R07.7", "copy starts empty")
	mut("C07", "osPath check vacuous again (original defect)", "keystore/v2/keystore/filesystem/backend/filesystem.go", "	rel, err := filepath.Rel(b.root, fullPath)\n	if err != nil || rel == \"..\" || strings.HasPrefix(rel, \"..\"+string(filepath.Separator)) {", "	if fullPath != filepath.Clean(fullPath) {", "R07.4", "containment")
	mut("C07", "Get opens the key path directly", "keystore/v2/keystore/filesystem/backend/filesystem.go", "	data, err := ioutil.ReadFile(fullPath)", "	data, err := ioutil.ReadFile(filepath.Join(b.root, path))", "R07.4", "ReadFile")
	mut("C07", "key file created world-readable", "keystore/v2/keystore/filesystem/backend/filesystem.go", "	keyFilePerm = os.FileMode(0600)", "	keyFilePerm = os.FileMode(0640)", "R07.5", "mode")
}

// r071Put: what the v2 keystore hands to Backend.Put is the notary-signed serialisation of the in-memory ring.
func r071Put(p *Program, r *Report, fn *ssa.Function, in ssa.Instruction, data ssa.Value) {
	sign := p.FuncObj("keystore/v2/keystore/filesystem.(*KeyStore).signKeyRing")
	if sign == nil {
		r.Anchor("R07.1", "v2 signKeyRing")
		return
	}
	ok := true
	why := ""
	roots := p.provenance(data, leafOpts{}, func(leaf ssa.Value) (provVerdict, string) {
		if isCallResult(leaf, sign, 0) {
			ex := leaf.(*ssa.Extract)
			c := ex.Tuple.(*ssa.Call)
			if _, f, isF := fieldOfLoad(c.Common().Args[1]); isF && f == "data" {
				return provAllowed, "signKeyRing(ring.data, …)"
			}
			return provForbidden, "signKeyRing over something other than the ring's own data"
		}
		return provUndecided, ""
	})
	for _, rt := range roots {
		if rt.Verdict != provAllowed {
			ok = false
			why = rt.Why
		}
	}
	r.Check(ok && len(roots) > 0, "R07.1", fnName(fn), "Backend.Put data ("+operandText(p, in)+")", p.Pos(in.Pos()), "only the signed serialisation of the in-memory ring is written (its secret fields are ciphertext by the addKeyData sink)", "the bytes written to the back end are not (only) the notary-signed key ring: "+why)
	// and signKeyRing signs what it was given, returns the notary's output
	sfn := p.Func2(sign)
	if sfn != nil && sfn.Blocks != nil {
		good := false
		for _, cs := range callsIn(sfn) {
			if cs.Callee != nil && cs.Callee.Name() == "Sign" {
				out := extractOf(cs.Instr.Value(), 0)
				for _, ret := range returnsOf(sfn) {
					if isNilConst(retValue(ret, 2)) && retValue(ret, 0) == ssa.Value(out) {
						good = true
					}
				}
			}
		}
		r.Check(good, "R07.1", fnName(sfn), "returns notary.Sign output", p.Pos(sfn.Pos()), "success return carries the signed container", "signKeyRing's success return is not the notary's signed output")
	}
}

// ruleWholeTagCompare: operands of subtle.ConstantTimeCompare / hmac.Equal in pkgs are not run-time re-slices.
func ruleWholeTagCompare(p *Program, r *Report, rule string, pkgs []string, floor int) {
	in := map[string]bool{}
	for _, k := range pkgs {
		in[acraMod+"/"+k] = true
	}
	n := 0
	for _, fn := range p.srcFns {
		if !in[fnPkgPath(fn)] {
			continue
		}
		for _, cs := range callsIn(fn) {
			if cs.Callee == nil || cs.Callee.Pkg() == nil {
				continue
			}
			full := cs.Callee.Pkg().Path() + "." + cs.Callee.Name()
			if full != "crypto/subtle.ConstantTimeCompare" && full != "crypto/hmac.Equal" {
				continue
			}
			n++
			bad := ""
			for _, a := range cs.Instr.Common().Args {
				for v := range backClosure(a) {
					sl, ok := v.(*ssa.Slice)
					if !ok {
						continue
					}
					for _, bnd := range []ssa.Value{sl.Low, sl.High} {
						if bnd == nil {
							continue
						}
						if _, isC := intConst(bnd); !isC {
							bad = "an operand is cut to a length computed at run time"
						}
					}
				}
			}
			r.Check(bad == "", rule, fnName(fn), "tag comparison over whole values", p.Pos(cs.Instr.Pos()), "operands are not run-time re-slices", bad+": a truncated (or empty) stored tag compares equal to the prefix of the right one")
		}
	}
	if n < floor {
		r.Bad(rule, strings.Join(pkgs, ","), "tag comparisons", "-", "fewer authenticating comparisons found than confirmed by reading")
	}
}

func ruleR076(p *Program, r *Report) {
	spec := "keystore/v2/keystore/crypto.(*SignSha256).Verify"
	fn := p.Func(spec)
	if fn == nil || fn.Blocks == nil {
		r.Anchor("R07.6", spec)
		return
	}
	sig, data, ctx := paramByName(fn, "signature"), paramByName(fn, "data"), paramByName(fn, "context")
	ok := false
	why := "the result is not the outcome of comparing the stored with the computed signature"
	for _, ret := range returnsOf(fn) {
		bo, isBo := retValue(ret, 0).(*ssa.BinOp)
		if !isBo || bo.Op.String() != "==" {
			continue
		}
		c, isC := intConst(bo.Y)
		call, isCall := bo.X.(*ssa.Call)
		if !isC || c != 1 || !isCall {
			continue
		}
		cl := map[ssa.Value]bool{}
		for _, a := range call.Common().Args {
			for v := range backClosure(a) {
				cl[v] = true
			}
		}
		signCalled := false
		for v := range cl {
			if sc, isS := v.(*ssa.Call); isS {
				if co := calleeOfCommon(sc.Common()); co != nil && co.Name() == "Sign" {
					a := sc.Common().Args
					if len(a) == 3 && a[1] == ssa.Value(data) && a[2] == ssa.Value(ctx) {
						signCalled = true
					}
				}
			}
		}
		if !cl[sig] {
			why = "the stored signature does not take part in the comparison"
		} else if !signCalled {
			why = "the expected signature is not Sign(data, context)"
		} else {
			ok = true
		}
	}
	r.Check(ok, "R07.6", fnName(fn), "valid only when Sign(data, context) equals the stored signature", p.Pos(fn.Pos()), "return ConstantTimeCompare(Sign(data, context), signature) == 1", why)
}

func init() {
	mut("C07", "signature compared over the common prefix only", "keystore/v2/keystore/crypto/signature.go", "	return subtle.ConstantTimeCompare(expected, signature) == 1", "	n := len(signature)\n	if n > len(expected) {\n		n = len(expected)\n	}\n	return subtle.ConstantTimeCompare(expected[:n], signature[:n]) == 1", "R07.6", "whole values")
	mut("C07", "signature verified without the context", "keystore/v2/keystore/crypto/signature.go", "	expected := s.Sign(data, context)\n	// Use constant-time", "	expected := s.Sign(data, nil)\n	// Use constant-time", "R07.6", "Sign(data, context)")
}

// reachesSuccessReturn: from blk some path that does not pass a terminating call (os.Exit, log.Fatal*, panic)
// reaches a return that reports success: a nil error constant, or - for a function without an error result -
// any return. A return whose error result is the error itself (or derives from it) is not a success report.
func reachesSuccessReturn(fn *ssa.Function, blk *ssa.BasicBlock, errv ssa.Value) bool {
	dead := map[*ssa.BasicBlock]bool{}
	for _, b := range fn.Blocks {
		for _, in := range b.Instrs {
			switch x := in.(type) {
			case *ssa.Panic:
				dead[b] = true
			case *ssa.Call:
				if co := calleeOfCommon(x.Common()); co != nil {
					n := co.Name()
					if (co.Pkg() != nil && co.Pkg().Path() == "os" && n == "Exit") || strings.HasPrefix(n, "Fatal") || strings.HasPrefix(n, "Panic") {
						dead[b] = true
					}
				}
			}
		}
	}
	if dead[blk] {
		return false
	}
	errIdx := -1
	res := fn.Signature.Results()
	for i := 0; i < res.Len(); i++ {
		if isErrorType(res.At(i).Type()) {
			errIdx = i
		}
	}
	for _, ret := range returnsOf(fn) {
		if isRecoverBlock(ret.Block()) || dead[ret.Block()] {
			continue
		}
		if ret.Block() != blk && !reaches(blk, ret.Block(), dead) {
			continue
		}
		if errIdx < 0 {
			return true
		}
		rv := retValue(ret, errIdx)
		if isNilConst(rv) {
			return true
		}
		if !backClosure(rv)[errv] {
			// returns some other error value: only a success report if that value can be nil on this path (a phi with a nil edge)
			if phi, ok := rv.(*ssa.Phi); ok {
				for k, e := range phi.Edges {
					if isNilConst(e) && (phi.Block().Preds[k] == blk || reaches(blk, phi.Block().Preds[k], dead)) {
						return true
					}
				}
			}
		}
	}
	return false
}

func init() {
	mut("C07", "root containment decided by a plain string prefix", "keystore/v2/keystore/filesystem/backend/filesystem.go", "	rel, err := filepath.Rel(b.root, fullPath)\n	if err != nil || rel == \"..\" || strings.HasPrefix(rel, \"..\"+string(filepath.Separator)) {", "	if !strings.HasPrefix(fullPath, filepath.Clean(b.root)) {", "R07.4", "containment predicate")
}

// ---- R07.8
func ruleR078(p *Program, r *Report) {
	fn := p.Func("keystore/v2/keystore/filesystem.(*KeyStore).keyRingSignatureContext")
	if fn == nil || fn.Blocks == nil {
		r.Anchor("R07.8", "KeyStore.keyRingSignatureContext")
		return
	}
	path := paramByName(fn, "path")
	if path == nil {
		r.Anchor("R07.8", "keyRingSignatureContext parameter path")
		return
	}
	bad, reach := "", false
	for _, ret := range returnsOf(fn) {
		cl := backClosure(retValue(ret, 0))
		if cl[path] {
			reach = true
		}
		for v := range cl {
			switch x := v.(type) {
			case *ssa.Call:
				if _, isB := x.Call.Value.(*ssa.Builtin); isB {
					continue // append, len, copy
				}
				through := false
				for _, a := range x.Common().Args {
					if backClosure(a)[path] {
						through = true
					}
				}
				if !through {
					continue
				}
				if sc := x.Common().StaticCallee(); sc != nil && sc.Name() == "keyStoreContext" {
					continue // the store-wide prefix, applied to the whole context
				}
				full := "an indirect call"
				if co := calleeOfCommon(x.Common()); co != nil && co.Pkg() != nil {
					full = co.Pkg().Path() + "." + co.Name()
				}
				bad = "the path passes through " + full
			case *ssa.Slice:
				if backClosure(x.X)[path] && (x.Low != nil || x.High != nil) {
					if _, isAlloc := x.X.(*ssa.Alloc); !isAlloc { // append's own varargs array
						bad = "the path is cut"
					}
				}
			}
		}
	}
	if !reach {
		bad = "the context does not depend on the ring's path"
	}
	r.Check(bad == "", "R07.8", fnName(fn), "signature context covers the whole ring path", p.Pos(fn.Pos()), "prefix + whole path, wrapped by keyStoreContext", bad+": rings that differ only in the dropped part share one signature context - a ring copied over another client's ring of the same kind verifies and is loaded as that client's")
}

func init() {
	mut("C07", "ring signature context built from the last path component only", "keystore/v2/keystore/filesystem/keyStore.go", "	c = append(c, path...)\n	return s.keyStoreContext(c)", "	c = append(c, path[strings.LastIndex(path, \"/\")+1:]...)\n	return s.keyStoreContext(c)", "R07.8", "signature context")
}
