package main

import (
	"go/types"
	"fmt"
	"go/ast"
	"go/constant"
	"go/token"
	"sort"
	"strings"

	"golang.org/x/tools/go/ssa"
)

func init() {
	register(&Property{ID: "C14", Patterns: []string{"./..."}, Run: runC14})
}

// files whose functions decode input controlled by the other side (C14 anchors)
var c14Files = []string{
	"acrablock/acrablock.go", "acrablock/utils.go", "acrastruct/utils.go",
	"crypto/registry_handler.go", "crypto/envelope_detector.go", "hmac/hash.go", "hmac/dataProcessor.go",
	"decryptor/mysql/packet.go", "decryptor/mysql/column_field.go", "decryptor/mysql/response_proxy.go", "decryptor/mysql/prepared_statements.go",
	"decryptor/mysql/base/utils.go", "decryptor/mysql/data_encoder.go",
	"decryptor/postgresql/packet_handler.go", "decryptor/postgresql/utils.go", "decryptor/postgresql/data_encoder.go",
	"pseudonymization/utils.go", "pseudonymization/random.go", "pseudonymization/common/metadata.go", "pseudonymization/data_encoder.go",
	"utils/dbByteArrayEncoders.go", "utils/utils.go", "logging/log_entry_parser.go", "sqlparser/comments.go",
	"keystore/v2/keystore/signature/notary.go", "keystore/v2/keystore/asn1/asn1.go",
}

// Sites the prover cannot decide but that are safe for a reason established by reading (frozen; one line each).
var r141Confirmed = map[string]string{
	"R14.1|(*decryptor/postgresql.PacketHandler).setDataLengthBuffer|fixed 4 bytes of dataLengthBuffer": "three callers: packetBuf[:4], packetBuf[1:5] (length 4 by construction) and the handler's own descriptionLengthBuf, which is make([]byte, 4) in every constructor and never reassigned (kept honest by the field-length witness of R14.1)",
	"R14.1|(acrablock.AcraBlock).Build|slice b[4:12]":                    "construction path, not a decoder: b is the block CreateAcraBlockWithBackends just allocated with NewEmptyAcraBlock(AcraBlockMinSize+...), so len(b) >= 18",
	"R14.1|(acrablock.AcraBlock).SetDataEncryptionType|slice b[15:16]":  "construction path: same freshly allocated block of at least AcraBlockMinSize bytes",
	"R14.1|(acrablock.AcraBlock).SetKeyEncryptionKeyID|slice b[13:15]":  "construction path: same freshly allocated block of at least AcraBlockMinSize bytes",
	"R14.1|(acrablock.AcraBlock).SetKeyEncryptionKeyType|slice b[12:13]": "construction path: same freshly allocated block of at least AcraBlockMinSize bytes",
	"R14.1|(*decryptor/mysql.Handler).processBinaryDataRow|index rowData[0]":    "rowData is packet.GetData() of a packet accepted by Packet.readPacket, which rejects a payload length below 1",
	"R14.1|(*decryptor/mysql.Handler).processBinaryDataRow|index rowData[0] #2": "same: MySQL payloads are never empty (readPacket rejects length < 1)",
	"R14.1|acrastruct.DecryptAcrastruct|slice data[:][:45]":     "ValidateAcraStructLength(data) == nil precedes: len(data) >= len(TagBegin)+KeyBlockLength+DataLengthSize; offsets are <= that within data[len(TagBegin):] (TagBegin is a package variable, so its length is not a compile-time constant the prover can use)",
	"R14.1|acrastruct.DecryptAcrastruct|slice data[:][45:129]":  "same: guarded by ValidateAcraStructLength",
	"R14.1|acrastruct.DecryptAcrastruct|slice data[:][129:137]": "same: guarded by ValidateAcraStructLength",
	"R14.1|acrastruct.DecryptAcrastruct|slice data[:][137:]":    "same: guarded by ValidateAcraStructLength",
	"R14.1|decryptor/postgresql.readUint16Array|slice remaining[:2]": "loop invariant: len(remaining) >= 2*(itemCount-i), established by the check len(remaining) < 2*itemCount before the loop (inductive, outside the prover)",
	"R14.1|decryptor/postgresql.readUint16Array|slice remaining[2:]": "same loop invariant",
	"R14.1|(*decryptor/postgresql.ParsePacket).Name|slice .name[:len(.name)-1]":                      "name always ends with its NUL: NewParsePacket slices data[:idx+1] after bytes.Index found the terminator, so len >= 1",
	"R14.1|(*decryptor/postgresql.ParsePacket).QueryString|slice .query[:len(.query)-1]":             "query always ends with its NUL: NewParsePacket slices up to and including the terminator, ReplaceQuery appends one, so len >= 1",
	"R14.1|crypto.DeserializeEncryptedData|make make(len getSerializedContainerLength(encrypted)#0)": "getSerializedContainerLength returns internalLength <= len(encrypted)-12 or an error; every caller has validated len(encrypted) > 12 first (getEnvelopeIDFromData -> validateSerializedContainer); a wrapped length-12 is rejected by the same comparison",
	"R14.1|sqlparser.ExtractMysqlComment|slice sql[3:len(sql)-2]":                                    "the only caller, Tokenizer.scanMySQLSpecificComment, passes a buffer it has written \"/*!\" and, before leaving its loop, at least the closing '*' and '/' into: len(sql) >= 5 (kept honest by the caller witness of R14.1)",
	"R14.1|(*decryptor/mysql.Handler).processBinaryDataRow|index rowData[:][rangeindex+1+2/8]": "nullBitmap is rowData[1:pos] with pos = 1 + (len(fields)+9)>>3 (checked against len(rowData) just before), so it holds (len(fields)+9)/8 bytes, and (i+2)/8 <= (len(fields)+1)/8 for i < len(fields): integer division, outside the prover's difference logic",
	"R14.1|(*hmac.Processor).OnColumn|slice data[p.matchedHash.Length():]":       "matchedHash is ExtractHash(data) of this very buffer, non-nil here: ExtractHash builds the hash over data[:size+1] only after len(data[1:]) >= size, and Length() is the length of that slice (both kept honest by the hash-prefix witness of R14.1)",
	"R14.1|(*hmac.Processor).OnColumn|slice data[p.matchedHash.Length():] #2":    "same hash of the same buffer (the field is not reassigned in between)",
	"R14.1|hmac.DecryptRotatedSearchableAcraBlock|slice acraBlock[hash.Length():]":   "hash is ExtractHash(acraBlock), non-nil on this path: Length() <= len(acraBlock) (hash-prefix witness)",
	"R14.1|hmac.DecryptRotatedSearchableAcraStruct|slice acrastruct[hash.Length():]": "hash is ExtractHash(acrastruct), non-nil on this path: Length() <= len(acrastruct) (hash-prefix witness)",
	"R14.1|hmac.ExtractHashAndData|slice container[hashData.Length():]":              "hashData is ExtractHash(container), non-nil on this path (hash-prefix witness)",
	"R14.1|hmac.NewHashProcessor$1|slice data[hash.Length():]":                       "hash is ExtractHash(data), non-nil on this path (hash-prefix witness)",
	"R14.1|acrastruct.GetDataLengthFromAcraStruct|slice data[GetMinAcraStructLength()-8:GetMinAcraStructLength()]": "all four callers (ValidateAcraStructLength, ExtractAcraStruct, ProcessAcraStructs, crypto.matchOldContainer after ValidateAcraStructLength) compare len(data) with GetMinAcraStructLength() first; the value is a package-level sum the prover numbers per function, so the caller guard does not transfer",
	"R14.1|sqlparser.SplitMarginComments|slice sql[:trailingCommentStart(sql)]":      "trailingCommentStart returns len(text) or a position its own loop keeps within [0, len(text)] (a LastIndex result on a prefix of text); loop-carried result, outside the summary engine",
	"R14.1|sqlparser.SplitMarginComments|slice sql[:leadingCommentEnd(sql[:trailingStart])]": "leadingCommentEnd returns 0 or a cursor its loop keeps <= len(text) with text = sql[:trailingStart]",
	"R14.1|sqlparser.SplitMarginComments|slice sql[trailingCommentStart(sql):]":      "same result of trailingCommentStart, within [0, len(sql)]",
	"R14.1|sqlparser.SplitMarginComments|slice sql[leadingCommentEnd(sql[:trailingStart]):trailingCommentStart(sql)]": "leadingEnd <= trailingStart because leadingCommentEnd was given sql[:trailingStart]",
	"R14.1|utils.WriteFull|slice sliceCopy[totalSent+wr.Write(sliceCopy)#0:]":       "reached only after a short write without an error, which the io.Writer contract excludes (n < len(p) implies a non-nil error): with a conforming writer the function returns at totalSent == len(data) first. Not input-dependent. (Observed: were it reached, the cursor is applied twice - noted in DESIGN.md)",
	"R14.1|pseudonymization.randomEmail|slice buf[:len(buf)-len(_)]":                                 "guard len(buf) >= 5; below 8 bytes only the 3-byte country TLDs are used, the longest TLD (.info) has 5 bytes: len(tld) <= len(buf)",
	"R14.1|pseudonymization.randomEmail|slice buf[len(buf)-len(_):]":                                 "same: 0 <= len(buf)-len(tld) <= len(buf)",
	"R14.1|pseudonymization.randomEmail|index buf[len(buf)-len(_)/2]":                                "same, and len(buf)-len(tld) >= 0 so the middle index is within [0, len(buf))",
}

// Functions whose bounds are loop-cursor invariants (inductive, outside the prover) and are covered by a dedicated rule.
var boundsSkipFuncs = map[string]string{
	"(*crypto.EnvelopeDetector).OnColumn": "tag scanner: cursor invariant 0 <= inIndex <= len(inBuffer) is inductive; the cursor steps are decided by R01.6",
	"acrastruct.ProcessAcraStructs":       "tag scanner: cursor invariant is inductive; the cursor steps are decided by R01.6",
	"acrablock.ProcessAcraBlocks":         "tag scanner: cursor invariant is inductive; the cursor steps are decided by R01.6",
}

func boundsRule(p *Program, r *Report, rule string, files []string, confirmed map[string]string) {
	boundsRuleK(p, r, rule, files, confirmed, false)
}

func boundsRuleK(p *Program, r *Report, rule string, files []string, confirmed map[string]string, constBounds bool) {
	inScope := map[string]bool{}
	for _, f := range files {
		inScope[f] = true
	}
	for _, fn := range p.srcFns {
		if !inScope[p.FileOf(fn.Pos())] {
			continue
		}
		if why, skip := boundsSkipFuncs[fnName(fn)]; skip {
			r.Note("%s: %s not analysed by the bound prover: %s", rule, fnName(fn), why)
			continue
		}
		pr := newProverP(p, fn, 0)
		pr.constBounds = constBounds
		pr.classV = constBounds // computed positions (cursors, positions handed in, results of helpers) on received buffers
		verdicts := pr.CheckSinks(nil)
		sort.SliceStable(verdicts, func(i, j int) bool { return verdicts[i].Sink.Instr.Pos() < verdicts[j].Sink.Instr.Pos() })
		seen := map[string]int{}
		for _, v := range verdicts {
			construct := v.Sink.Kind + " " + sinkText(p, v.Sink)
			seen[construct]++
			if seen[construct] > 1 {
				construct = fmt.Sprintf("%s #%d", construct, seen[construct])
			}
			name := fnName(fn)
			pos := p.Pos(v.Sink.Instr.Pos())
			if v.Proven {
				r.OK(rule, name, construct, pos, "bound guarded on every path ("+v.Why+")")
				continue
			}
			key := "R14.1|" + name + "|" + construct // the table is shared by R14.1 and R03.1 (same sites)
			if why, ok := confirmed[key]; ok {
				r.Confirmed(rule, name, construct, pos, why)
				continue
			}
			r.Bad(rule, name, construct, pos, fmt.Sprintf("%s; cannot establish `%s` from the conditions that dominate this use: a crafted value makes the access panic (or allocate without bound)", v.Why, v.Missing))
		}
	}
}

func runC14(p *Program, r *Report) {
	r.Rule("R14.1", "E1", 40, "guarded bounds: in the input-facing decoders every slice bound, index and allocation size that derives from a length field of the input, from a subtraction, or from a lossy integer conversion is proven in range (0 <= low <= high <= len, 0 <= i < len, 0 <= n) from the branch conditions that dominate the use")
	boundsRuleK(p, r, "R14.1", c14Files, r141Confirmed, true)
	ruleR141WitnessEmail(p, r)
	witnessFieldLen(p, r, "R14.1", "decryptor/postgresql.PacketHandler", "descriptionLengthBuf", 4)
	ruleR141WitnessComment(p, r)
	ruleR141WitnessHashPrefix(p, r)
	r.Rule("R14.3", "E1", 4, "bounded allocation: every make / Buffer.Grow / io.CopyN in the decoders whose size derives from a length field of the input has a finite upper bound that the sender does not control alone: a constant, the length of data already held, or the Len() of the reader it is read from")
	ruleR143(p, r)
	r.Rule("R14.4", "E3", 3, "connection isolation: every goroutine that AcraServer starts to serve a client connection runs a function whose first deferred call is recoverConnection (a panic in a decoder ends that connection, not the process)")
	ruleR144(p, r)
	r.Rule("R14.5", "E4", 10, "no deliberate panics on input: the decoder files contain no call of panic() reachable from their exported entry points other than in init functions")
	ruleR145(p, r)
	r.Rule("R14.6", "E3", 3, "decoder state hygiene: every exit of hmac.Processor.OnColumn (re)defines the armed hash, so no later column dereferences a cleared matchedHash")
	ruleHmacProcessorState(p, r, "R14.6")
	r.Rule("R14.8", "E4", 3, "no panicking type assertion on decoded input: in the decoder files every type assertion whose operand comes from outside the function (a decoded map or interface value) is of the two-result form; a one-result assertion panics when a crafted value has another dynamic type")
	ruleR148(p, r)
	r.Rule("R14.7", "E3", 5, "a hash prefix that may be absent is tested before use: every method call on the result of hmac.ExtractHash / ExtractHashAndData (nil when the data does not start with a known hash id or is too short) is dominated by the non-nil edge of a nil test of that result (sibling contradiction rule: most call sites test it)")
	ruleR147(p, r)
	_ = strings.Contains
	_ = ssa.Value(nil)
}

var r145Confirmed = map[string]string{
	"(pseudonymization.cryptoRandomSource).Uint64": "panics only when the operating system's entropy source fails (crypto/rand.Read error); no input reaches the condition",
}

var r143Confirmed = map[string]string{
	"R14.3|utils.ReadData|make(len ReadDataLength(reader)#1)": "no caller anywhere in the repository (helper of the retired AcraConnector framing): not reachable from an input-facing path",
	"R14.3|crypto.DeserializeEncryptedData|make(len getSerializedContainerLength(encrypted)#0)": "internalLength <= len(encrypted)-12 by getSerializedContainerLength (callers validated len > 12), i.e. bounded by data already held",
}

// The confirmed entry for DeserializeEncryptedData rests on the callee's comparison; keep that comparison honest.
func ruleR143Witness(p *Program, r *Report) { ruleContainerLengthWitness(p, r, "R14.3") }

func ruleContainerLengthWitness(p *Program, r *Report, rule string) {
	fn := p.Func("crypto.getSerializedContainerLength")
	if fn == nil || fn.Blocks == nil {
		r.Anchor(rule, "crypto.getSerializedContainerLength")
		return
	}
	param := fn.Params[0]
	ok := false
	for _, ret := range returnsOf(fn) {
		if !isNilConst(retValue(ret, 1)) {
			continue
		}
		rv := retValue(ret, 0)
		// some dominating false edge of `rv > bound` with bound derived from len(param)
		for _, b := range fn.Blocks {
			if len(b.Instrs) == 0 {
				continue
			}
			i, isIf := b.Instrs[len(b.Instrs)-1].(*ssa.If)
			if !isIf {
				continue
			}
			bo, isBo := i.Cond.(*ssa.BinOp)
			if !isBo || bo.Op != token.GTR || bo.X != rv {
				continue
			}
			derives := false
			for v := range backClosureWithLen(bo.Y) {
				if v == ssa.Value(param) {
					derives = true
				}
			}
			if derives && edgeOnly(i, b.Succs[1], b.Succs[0], ret.Block()) {
				ok = true
			}
		}
	}
	r.Check(ok, rule, fnName(fn), "result <= len(encrypted)-header on success", p.Pos(fn.Pos()), "the success return is dominated by the false edge of `internalLength > f(len(encrypted))`", "the serialized-container length is no longer compared with the data actually held before it is used as an allocation size")
}

func backClosureWithLen(v ssa.Value) map[ssa.Value]bool {
	out := map[ssa.Value]bool{}
	var walk func(v ssa.Value)
	walk = func(v ssa.Value) {
		if v == nil || out[v] {
			return
		}
		out[v] = true
		if in, ok := v.(ssa.Instruction); ok {
			for _, op := range in.Operands(nil) {
				if *op != nil {
					walk(*op)
				}
			}
		}
	}
	walk(v)
	return out
}

func ruleR143(p *Program, r *Report) {
	ruleR143Witness(p, r)
	inScope := map[string]bool{}
	for _, f := range c14Files {
		inScope[f] = true
	}
	for _, fn := range p.srcFns {
		if !inScope[p.FileOf(fn.Pos())] {
			continue
		}
		pr := newProverP(p, fn, 0)
		check := func(in ssa.Instruction, what string, n ssa.Value) {
			why := pr.risky(n, nil)
			if why == "" {
				return
			}
			construct := what + "(len " + exprTextOf(p, n) + ")"
			name := fnName(fn)
			if ok, how := pr.UpperBounded(n, in.Block()); ok {
				r.OK("R14.3", name, construct, p.Pos(in.Pos()), how+" ("+why+")")
				return
			}
			if reason, ok := r143Confirmed["R14.3|"+name+"|"+construct]; ok {
				r.Confirmed("R14.3", name, construct, p.Pos(in.Pos()), reason)
				return
			}
			r.Bad("R14.3", name, construct, p.Pos(in.Pos()), why+"; the size has no upper bound other than the range of its type: a few bytes of input make the handler reserve gigabytes")
		}
		for _, b := range fn.Blocks {
			for _, in := range b.Instrs {
				switch x := in.(type) {
				case *ssa.MakeSlice:
					check(x, "make", x.Len)
				case ssa.CallInstruction:
					co := calleeOfCommon(x.Common())
					if co == nil {
						continue
					}
					switch co.FullName() {
					case "(*bytes.Buffer).Grow":
						n := x.Common().Args[1]
						if pr.risky(n, nil) != "" && !pr.Prove(nil, 0, n, 0, x.Block()) {
							r.Bad("R14.3", fnName(fn), "Grow(len "+exprTextOf(p, n)+") non-negative", p.Pos(x.Pos()), "bytes.Buffer.Grow panics on a negative count and the count derives from a length field of the input")
						} else if pr.risky(n, nil) != "" {
							r.OK("R14.3", fnName(fn), "Grow(len "+exprTextOf(p, n)+") non-negative", p.Pos(x.Pos()), "count proven >= 0")
						}
						check(x, "Grow", n)
					case "io.CopyN":
						// CopyN reads at most n bytes as they arrive: it does not reserve n up front
					}
				}
			}
		}
	}
}

func ruleR144(p *Program, r *Report) {
	rec := p.FuncObj("cmd/acra-server/common.recoverConnection")
	if rec == nil {
		r.Anchor("R14.4", "cmd/acra-server/common.recoverConnection")
		return
	}
	n := 0
	for _, fn := range p.SrcFuncs("cmd/acra-server/common") {
		if p.FileOf(fn.Pos()) != "cmd/acra-server/common/listener.go" {
			continue
		}
		for _, b := range fn.Blocks {
			for _, in := range b.Instrs {
				g, ok := in.(*ssa.Go)
				if !ok {
					continue
				}
				var target *ssa.Function
				switch v := g.Call.Value.(type) {
				case *ssa.Function:
					target = v
				case *ssa.MakeClosure:
					target, _ = v.Fn.(*ssa.Function)
				}
				if target == nil || target.Blocks == nil {
					continue
				}
				// does the goroutine handle a connection? (takes or captures a net.Conn / calls a connection handler)
				handles := false
				for _, prm := range target.Params {
					if strings.Contains(prm.Type().String(), "net.Conn") {
						handles = true
					}
				}
				for _, fv := range target.FreeVars {
					if strings.Contains(fv.Type().String(), "net.Conn") {
						handles = true
					}
				}
				for _, cs := range callsIn(target) {
					if cs.Callee != nil && (strings.Contains(cs.Callee.Name(), "processConnection") || strings.Contains(cs.Callee.Name(), "handleConnection") || strings.Contains(cs.Callee.Name(), "HandleConnection") || (strings.HasPrefix(cs.Callee.Name(), "Proxy") && strings.HasSuffix(cs.Callee.Name(), "Connection"))) {
						handles = true
					}
				}
				if !handles {
					continue
				}
				n++
				// recoverConnection is deferred in the entry block before any acra code runs in the goroutine
				var recDefer *ssa.Defer
				for _, ti := range target.Blocks[0].Instrs {
					if d, ok := ti.(*ssa.Defer); ok && calleeOfCommon(d.Common()) == rec {
						recDefer = d
						break
					}
				}
				ok = recDefer != nil
				if ok {
					for _, cs := range callsIn(target) {
						if _, isDefer := cs.Instr.(*ssa.Defer); isDefer || cs.Callee == nil || cs.Callee.Pkg() == nil {
							continue
						}
						nm := cs.Callee.Name()
						isHandler := strings.Contains(nm, "processConnection") || strings.Contains(nm, "handleConnection") || strings.Contains(nm, "HandleConnection") || strings.Contains(nm, "AddConnection") || (strings.HasPrefix(nm, "Proxy") && strings.HasSuffix(nm, "Connection"))
						if isHandler && !instrBefore(recDefer, cs.Instr.(ssa.Instruction)) {
							ok = false
						}
					}
				}
				r.Check(ok, "R14.4", fnName(fn), "go "+target.Name(), p.Pos(g.Pos()), "recoverConnection deferred before any acra code runs", "a goroutine serving a client connection does not defer recoverConnection(...) before running connection code: a panic in any decoder takes the whole AcraServer process down")
			}
		}
	}
	if n == 0 {
		r.Bad("R14.4", "cmd/acra-server/common", "connection goroutines", "cmd/acra-server/common/listener.go", "no goroutine serving connections found in listener.go")
	}
}

func ruleR145(p *Program, r *Report) {
	inScope := map[string]bool{}
	for _, f := range c14Files {
		inScope[f] = true
	}
	files := map[string]int{}
	for _, fn := range p.srcFns {
		f := p.FileOf(fn.Pos())
		if !inScope[f] {
			continue
		}
		files[f]++
		if fn.Name() == "init" || strings.HasPrefix(fn.Name(), "init#") {
			continue
		}
		for _, b := range fn.Blocks {
			for _, in := range b.Instrs {
				if pn, ok := in.(*ssa.Panic); ok {
					if !pn.Pos().IsValid() {
						continue // synthetic (blocking select without default)
					}
					key := fnName(fn)
					if why, ok := r145Confirmed[key]; ok {
						r.Confirmed("R14.5", key, "panic("+exprTextOf(p, stripConv(pn.X))+")", p.Pos(pn.Pos()), why)
						continue
					}
					r.Bad("R14.5", fnName(fn), "panic("+exprTextOf(p, stripConv(pn.X))+")", p.Pos(pn.Pos()), "explicit panic in an input-facing decoder")
				}
			}
		}
	}
	var names []string
	for f := range files {
		names = append(names, f)
	}
	sort.Strings(names)
	for _, f := range names {
		r.OK("R14.5", f, "no panic()", f, fmt.Sprintf("%d functions scanned", files[f]))
	}
}

func init() {
	mut("C14", "AcraBlock.Decrypt loses its key-length check (original defect)", "acrablock/acrablock.go", "	if len(b) < AcraBlockMinSize+keySize {\n		// the key length field points past the end of the block\n		return nil, ErrInvalidAcraBlock\n	}\n", "", "R14.1", "AcraBlock).Decrypt")
	mut("C14", "rest-length added before comparing (original defect)", "acrablock/acrablock.go", "	if restLength < AcraBlockMinSize-TagBeginSize || restLength > uint64(len(data)-TagBeginSize) {", "	if len(data) < int(restLength+TagBeginSize) {", "R14.1", "ExtractAcraBlockFromData")
	mut("C14", "mysql length-encoded string: signed comparison again", "decryptor/mysql/base/utils.go", "	if num > uint64(len(data)-n) {\n		return nil, n, io.EOF\n	}\n	end := n + int(num)", "	if int(num) > len(data)-n {\n		return nil, n, io.EOF\n	}\n	end := n + int(num)", "R14.1", "LengthEncodedString")
	mut("C14", "serialized container: upper length check dropped", "crypto/registry_handler.go", "	if internalLength < 0 || internalLength > uint64(len(encrypted)-SerializedContainerMinSize) {", "	if internalLength < 0 {", "R14.3", "getSerializedContainerLength")
	mut("C14", "pg packet reader: negative length accepted again", "decryptor/postgresql/packet_handler.go", "	if packet.dataLength < 0 {\n		// declared message length smaller than the length field itself\n		return ErrPacketTruncated\n	}\n", "", "R14.3", "readData")
	mut("C14", "pg column: allocation not bounded by the message", "decryptor/postgresql/packet_handler.go", "	if length > reader.Len() {\n		return ErrPacketTruncated\n	}\n", "", "R14.3", "ColumnData).readData")
	mut("C14", "connection goroutine without panic recovery", "cmd/acra-server/common/listener.go", "		defer recoverConnection(sessionLogger.WithField(\"function\", \"ProxyDatabaseConnection\"), sessionCloseToCloser(clientSession.Close))\n", "", "R14.4", "handleClientSession")
	mut("C14", "column definition tail check removed (original defect)", "decryptor/mysql/column_field.go", "	if len(packet.data) < pos+13 {\n		return nil, base.ErrMalformPacket\n	}\n", "", "R14.1", "ParseResultField")
	mut("C14", "GetSimpleQuery slices before checking", "decryptor/postgresql/packet_handler.go", "	if packet.dataLength < 1 || packet.dataLength > len(data) {", "	if packet.dataLength > len(data) {", "R14.1", "GetSimpleQuery")
	mut("C14", "HTTP decryptSearchable without the nil-hash test (original defect)", "cmd/acra-translator/http_api/service.go", "	hash := hmac.ExtractHash(request.Data)\n	if hash == nil {\n		logger.WithField(\"content_type\", ctx.ContentType()).Errorln(\"Invalid hash\")\n		httpErr = NewHTTPError(http.StatusBadRequest, \"Invalid request data\")\n		return\n	}\n	hashData := hash.Marshal()\n	acraStruct := request.Data[len(hashData):]\n	decryptedData, err := service.service.DecryptSearchable(", "	hash := hmac.ExtractHash(request.Data)\n	hashData := hash.Marshal()\n	acraStruct := request.Data[len(hashData):]\n	decryptedData, err := service.service.DecryptSearchable(", "R14.7", "_decryptSearchable")
	mut("C14", "decoder panics on unknown tag", "hmac/hash.go", "		logrus.Debugln(\"Unknown hash function\")\n		return nil", "		panic(\"unknown hash function\")", "R14.5", "ExtractHash")
}

// ruleR141WitnessEmail keeps the reason behind the confirmed randomEmail entries true: the TLD tables must fit the
// two length thresholds the function branches on.
func ruleR141WitnessEmail(p *Program, r *Report) {
	pk := p.Pkg("pseudonymization")
	fn := p.Func("pseudonymization.randomEmail")
	if pk == nil || fn == nil || fn.Blocks == nil {
		r.Anchor("R14.1", "pseudonymization.randomEmail")
		return
	}
	maxLen := map[string]int{}
	for _, f := range pk.Syntax {
		ast.Inspect(f, func(n ast.Node) bool {
			vs, ok := n.(*ast.ValueSpec)
			if !ok {
				return true
			}
			for i, name := range vs.Names {
				if (name.Name != "genericTLDs" && name.Name != "ccTLDs") || i >= len(vs.Values) {
					continue
				}
				cl, ok := vs.Values[i].(*ast.CompositeLit)
				if !ok {
					maxLen[name.Name] = 1 << 20 // not a literal: unknown, assume the worst
					continue
				}
				for _, e := range cl.Elts {
					tv, ok := pk.TypesInfo.Types[e]
					if !ok || tv.Value == nil || tv.Value.Kind() != constant.String {
						maxLen[name.Name] = 1 << 20
						continue
					}
					if l := len(constant.StringVal(tv.Value)); l > maxLen[name.Name] {
						maxLen[name.Name] = l
					}
				}
			}
			return true
		})
	}
	buf := paramByName(fn, "buf")
	var guards []int64
	for _, b := range fn.Blocks {
		for _, in := range b.Instrs {
			bo, ok := in.(*ssa.BinOp)
			if !ok || bo.Op != token.LSS {
				continue
			}
			if op, isLen := isLenCall(bo.X); isLen && op == ssa.Value(buf) {
				if c, ok := intConst(bo.Y); ok {
					guards = append(guards, c)
				}
			}
		}
	}
	sort.Slice(guards, func(i, j int) bool { return guards[i] < guards[j] })
	mcc, mgen := maxLen["ccTLDs"], maxLen["genericTLDs"]
	mall := mcc
	if mgen > mall {
		mall = mgen
	}
	ok := len(guards) >= 2 && mcc > 0 && mgen > 0 && int64(mcc) <= guards[0] && int64(mall) <= guards[len(guards)-1]
	r.Check(ok, "R14.1", fnName(fn), "TLD tables fit the length thresholds", p.Pos(fn.Pos()), fmt.Sprintf("longest country TLD %d <= %v, longest TLD %d <= upper threshold", mcc, guards, mall), fmt.Sprintf("the e-mail generator subtracts len(tld) from len(buf) relying on thresholds %v, but the TLD tables hold entries of up to %d (country) / %d (all) bytes: for a value just above a threshold the difference is negative and the slice panics", guards, mcc, mall))
}

func ruleR147(p *Program, r *Report) {
	eh := p.FuncObj("hmac.ExtractHash")
	ehd := p.FuncObj("hmac.ExtractHashAndData")
	if eh == nil || ehd == nil {
		r.Anchor("R14.7", "hmac.ExtractHash / ExtractHashAndData")
		return
	}
	for _, fn := range p.srcFns {
		for _, cs := range callsIn(fn) {
			if cs.Callee != eh && cs.Callee != ehd {
				continue
			}
			var hv ssa.Value = cs.Instr.Value()
			if cs.Callee == ehd {
				hv = extractOf(cs.Instr.Value(), 0)
			}
			if hv == nil {
				continue
			}
			// values that carry the hash: hv and phis/stores are not followed (kept simple: direct uses)
			var uses []ssa.Instruction
			if refs := hv.Referrers(); refs != nil {
				for _, rf := range *refs {
					if c, ok := rf.(ssa.CallInstruction); ok && c.Common().IsInvoke() && c.Common().Value == hv {
						uses = append(uses, c.(ssa.Instruction))
					}
				}
			}
			if len(uses) == 0 {
				continue
			}
			// non-nil regions
			var nonNil []*ssa.BasicBlock
			if refs := hv.Referrers(); refs != nil {
				for _, rf := range *refs {
					if bo, ok := rf.(*ssa.BinOp); ok {
						for _, i := range ifsOn(bo) {
							if _, nn, ok := nilBranches(i, hv); ok {
								nonNil = append(nonNil, nn)
							}
						}
					}
				}
			}
			for _, u := range uses {
				ok := false
				for _, nn := range nonNil {
					if nn.Dominates(u.Block()) {
						ok = true
					}
				}
				mname := u.(ssa.CallInstruction).Common().Method.Name()
				r.Check(ok, "R14.7", fnName(fn), "hash."+mname+"() after nil test", p.Pos(u.Pos()), "dominated by the hash != nil edge", "the possibly-nil result of "+cs.Callee.Name()+" is used without a nil test: input that does not start with a hash prefix (or is shorter than 33 bytes) makes the handler panic with a nil dereference")
			}
		}
	}
}

// witnessFieldLen keeps a confirmed-table reason honest: the slice field `field` of struct `typeSpec` is, everywhere in
// acra, only ever assigned a fresh buffer of a constant length >= min; its address never escapes; and every
// composite literal / allocation of the struct assigns it in the allocating function.
func witnessFieldLen(p *Program, r *Report, rule, typeSpec, field string, min int64) {
	tn := p.Type(typeSpec)
	if tn == nil {
		r.Anchor(rule, typeSpec)
		return
	}
	st, ok := tn.Type().Underlying().(*types.Struct)
	if !ok {
		r.Anchor(rule, typeSpec+" (struct)")
		return
	}
	idx := -1
	for i := 0; i < st.NumFields(); i++ {
		if st.Field(i).Name() == field {
			idx = i
		}
	}
	if idx < 0 {
		r.Anchor(rule, typeSpec+"."+field)
		return
	}
	bad := ""
	stores, allocs := 0, 0
	constLen := func(v ssa.Value) (int64, bool) {
		switch x := v.(type) {
		case *ssa.MakeSlice:
			return intConst(x.Len)
		case *ssa.Slice:
			if a, ok := x.X.(*ssa.Alloc); ok && x.Low == nil {
				if n, ok := arrayLen(a.Type()); ok {
					if x.High == nil {
						return n, true
					}
					return intConst(x.High)
				}
			}
		}
		return 0, false
	}
	for _, fn := range p.srcFns {
		for _, b := range fn.Blocks {
			for _, in := range b.Instrs {
				if al, ok := in.(*ssa.Alloc); ok {
					if pt, ok := al.Type().Underlying().(*types.Pointer); ok && types.Identical(pt.Elem(), tn.Type()) {
						allocs++
						set := false
						if refs := al.Referrers(); refs != nil {
							for _, rf := range *refs {
								if fa, ok := rf.(*ssa.FieldAddr); ok && fa.Field == idx {
									set = true
								}
							}
						}
						if !set {
							bad = "a " + tn.Name() + " is allocated in " + fnName(fn) + " without assigning " + field
						}
					}
				}
				fa, ok := in.(*ssa.FieldAddr)
				if !ok || fa.Field != idx {
					continue
				}
				pt, ok := fa.X.Type().Underlying().(*types.Pointer)
				if !ok || !types.Identical(pt.Elem(), tn.Type()) {
					continue
				}
				if refs := fa.Referrers(); refs != nil {
					for _, rf := range *refs {
						switch x := rf.(type) {
						case *ssa.UnOp:
						case *ssa.Store:
							if x.Addr != ssa.Value(fa) {
								bad = "the address of " + field + " is stored in " + fnName(fn)
								continue
							}
							stores++
							if n, ok := constLen(x.Val); !ok || n < min {
								bad = field + " is assigned something other than a fresh buffer of at least the confirmed length in " + fnName(fn)
							}
						case *ssa.DebugRef:
						default:
							bad = "the address of " + field + " escapes in " + fnName(fn)
						}
					}
				}
			}
		}
	}
	if stores == 0 {
		bad = "no assignment of " + field + " found"
	}
	r.Check(bad == "", rule, typeSpec, "field "+field+" always holds a buffer of at least the confirmed length", p.Pos(tn.Pos()), "every assignment is a fresh constant-size buffer; every allocation of the struct assigns it", bad)
}

func init() {
	mut("C14", "stored int32 token decoded without a length check (original defect)", "pseudonymization/utils.go", "	if len(data) < 4 {\n		return 0, ErrDataTypeMismatch\n	}\n", "", "R14.1", "decodeInt32")
	mut("C14", "pg length buffer constructed with 2 bytes", "decryptor/postgresql/packet_handler.go", "		descriptionLengthBuf: make([]byte, 4),", "		descriptionLengthBuf: make([]byte, 2),", "R14.1", "descriptionLengthBuf")
	mut("C14", "prepare response parsed without its length check", "decryptor/mysql/column_field.go", "	if len(data) != PreparedStatementResponseLength {\n		return nil, ErrInvalidResponseLength\n	}\n", "", "R14.1", "ParsePrepareStatementResponse")
}

func init() {
	mut("C14", "length field re-read between its check and its use", "decryptor/postgresql/packet_handler.go", "	// the declared length comes from the other side: reserve a bounded amount up front,\n	// the buffer grows with the data that actually arrives\n	if packet.dataLength > maxPacketPreallocation {", "	packet.setDataLengthBuffer(packet.descriptionLengthBuf)\n	if packet.dataLength > maxPacketPreallocation {", "R14.3", "Grow")
}

func init() {
	mut("C14", "version comment: position -1 used as a bound (original defect)", "sqlparser/comments.go", "	if endOfVersionIndex < 0 {\n		// nothing but (fewer than six) version digits, or nothing at all, inside the comment\n		endOfVersionIndex = len(sql)\n	}\n", "", "R14.1", "ExtractMysqlComment")
	mut("C14", "version comment: not-found replaced by a position past the end", "sqlparser/comments.go", "		endOfVersionIndex = len(sql)\n", "		endOfVersionIndex = len(sql) + 1\n", "R14.1", "ExtractMysqlComment")
	mut("C14", "handshake capabilities read without the length check (original defect)", "decryptor/mysql/packet.go", "	if len(packet.data) < endOfServerVersion+13+2 {\n		// not a complete handshake (for example an ERR packet sent instead of it)\n		logrus.Debug(\"packet hasn't DB capabilities\")\n		return 0\n	}\n", "", "R14.1", "getServerCapabilities")
	mut("C14", "Parse message: parameter count read without a length check (original defect)", "decryptor/postgresql/utils.go", "	if len(data) < endIndex+2 {\n		// the message ends before the number of parameter types\n		return nil, ErrPacketTruncated\n	}\n", "", "R14.1", "NewParsePacket")
	mut("C14", "Parse message: announced parameter types not compared with the message (original defect)", "decryptor/postgresql/utils.go", "			if len(data) < endIndex+4 {\n				// fewer parameter types than announced\n				return nil, ErrPacketTruncated\n			}\n", "", "R14.1", "NewParsePacket")
	mut("C14", "Parse message: second terminator searched from the start", "decryptor/postgresql/utils.go", "	name := data[:startIndex]\n	// skip terminator of previous field\n	endIndex := bytes.Index(data[startIndex:], terminator)", "	name := data[:startIndex]\n	endIndex := bytes.Index(data, terminator)", "R14.1", "NewParsePacket")
	mut("C14", "special comment handed over before its closing slash is consumed", "sqlparser/token.go", "			tkn.consumeNext(buffer)\n			if tkn.lastChar == '/' {\n				tkn.consumeNext(buffer)\n				break\n			}\n			continue\n		}\n		if tkn.lastChar == eofChar {\n			return LEX_ERROR, buffer.Bytes()\n		}\n		tkn.consumeNext(buffer)\n	}\n	_, sql := ExtractMysqlComment(", "			if tkn.lastChar == '/' {\n				tkn.consumeNext(buffer)\n				break\n			}\n			continue\n		}\n		if tkn.lastChar == eofChar {\n			return LEX_ERROR, buffer.Bytes()\n		}\n		tkn.consumeNext(buffer)\n	}\n	_, sql := ExtractMysqlComment(", "R14.1", "argument of ExtractMysqlComment")
}

var r148Confirmed = map[string]string{}

func ruleR148(p *Program, r *Report) {
	inScope := map[string]bool{}
	for _, f := range c14Files {
		inScope[f] = true
	}
	n := 0
	for _, fn := range p.srcFns {
		if !inScope[p.FileOf(fn.Pos())] {
			continue
		}
		seen := map[string]int{}
		for _, b := range fn.Blocks {
			for _, in := range b.Instrs {
				ta, ok := in.(*ssa.TypeAssert)
				if !ok {
					continue
				}
				if types.Identical(ta.X.Type(), ta.AssertedType) {
					continue // bound method value on an interface: go/ssa's nil check, not a source-level assertion
				}
				n++
				construct := "assertion to " + types.TypeString(ta.AssertedType, func(*types.Package) string { return "" })
				seen[construct]++
				if seen[construct] > 1 {
					construct += " #" + itoa(seen[construct])
				}
				if ta.CommaOk {
					r.OK("R14.8", fnName(fn), construct, p.Pos(ta.Pos()), "two-result form")
					continue
				}
				// a one-result assertion is fine when the operand was made in this function from a value of that type
				if mi, isMi := ta.X.(*ssa.MakeInterface); isMi && types.Identical(mi.X.Type(), ta.AssertedType) {
					r.OK("R14.8", fnName(fn), construct, p.Pos(ta.Pos()), "operand built here from that type")
					continue
				}
				if why, okC := r148Confirmed[fnName(fn)+"|"+construct]; okC {
					r.Confirmed("R14.8", fnName(fn), construct, p.Pos(ta.Pos()), why)
					continue
				}
				r.Bad("R14.8", fnName(fn), construct, p.Pos(ta.Pos()), "one-result type assertion on a value that comes from decoded input: a stored line / message whose field has another JSON type makes the handler panic")
			}
		}
	}
	_ = n
}

func init() {
	mut("C14", "JSON log parser asserts the message type without checking", "logging/log_entry_parser.go", "			expectedMessage, ok := parsed[logrus.FieldKeyMsg].(string)\n			if ok && expectedMessage == EndOfAuditLogChainMessage {", "			expectedMessage := parsed[logrus.FieldKeyMsg].(string)\n			if expectedMessage == EndOfAuditLogChainMessage {", "R14.8", "assertion to string")
}

// ruleR141WitnessComment keeps the reason behind the confirmed ExtractMysqlComment entry true: the function strips
// "/*!" and "*/" without looking, so every caller must hand it a string that certainly holds those five bytes. A
// caller qualifies when the argument is the String() of a local buffer into which, on every path to the call, a
// constant string and single bytes adding up to five or more were written (writes in blocks that dominate the call).
func ruleR141WitnessComment(p *Program, r *Report) {
	target := p.Func("sqlparser.ExtractMysqlComment")
	if target == nil {
		r.Anchor("R14.1", "sqlparser.ExtractMysqlComment")
		return
	}
	n := 0
	for fn := range p.allFns {
		for _, b := range fn.Blocks {
			for _, in := range b.Instrs {
				// the function used as a value escapes the caller analysis
				if _, isCall := in.(ssa.CallInstruction); !isCall {
					for _, op := range in.Operands(nil) {
						if *op == ssa.Value(target) {
							r.Bad("R14.1", fnName(fn), "ExtractMysqlComment taken as a value", p.Pos(in.Pos()), "the callers of ExtractMysqlComment can no longer be enumerated: its unchecked sql[3:len(sql)-2] needs every caller to pass at least five bytes")
						}
					}
					continue
				}
				ci := in.(ssa.CallInstruction)
				if ci.Common().StaticCallee() != target {
					for _, a := range ci.Common().Args {
						if a == ssa.Value(target) {
							r.Bad("R14.1", fnName(fn), "ExtractMysqlComment passed as a value", p.Pos(in.Pos()), "the callers of ExtractMysqlComment can no longer be enumerated")
						}
					}
					continue
				}
				n++
				min, why := commentArgMinLen(p, fn, in, ci.Common().Args[0])
				r.Check(min >= 5, "R14.1", fnName(fn), "argument of ExtractMysqlComment holds at least 5 bytes", p.Pos(in.Pos()),
					fmt.Sprintf("at least %d bytes are written into the buffer on every path to the call", min),
					fmt.Sprintf("only %d bytes are certainly written into the argument before the call (%s): ExtractMysqlComment slices sql[3:len(sql)-2] unchecked and panics on a shorter string", min, why))
			}
		}
	}
	if n == 0 {
		r.Anchor("R14.1", "a caller of sqlparser.ExtractMysqlComment")
	}
}

// commentArgMinLen: bytes certainly in the string `arg` at a call in block `at`: arg = buf.String() of a local buffer;
// sums constant WriteString arguments and single-byte writes (WriteByte, or a helper whose every return follows one
// WriteByte on the buffer passed to it) at call sites whose block dominates `at`.
func commentArgMinLen(p *Program, fn *ssa.Function, site ssa.Instruction, arg ssa.Value) (int, string) {
	at := site.Block()
	before := map[ssa.Instruction]bool{}
	for _, in := range at.Instrs {
		if in == site {
			break
		}
		before[in] = true
	}
	sc, ok := arg.(*ssa.Call)
	if !ok || sc.Call.IsInvoke() || sc.Call.StaticCallee() == nil || sc.Call.StaticCallee().Name() != "String" || len(sc.Call.Args) != 1 {
		return 0, "the argument is not the String() of a local buffer"
	}
	buf := sc.Call.Args[0]
	if _, isAlloc := buf.(*ssa.Alloc); !isAlloc {
		return 0, "the buffer is not local to the caller"
	}
	total := 0
	for _, b := range fn.Blocks {
		for _, in := range b.Instrs {
			c, ok := in.(*ssa.Call)
			if !ok || c == sc {
				continue
			}
			uses := false
			for _, a := range c.Call.Args {
				if a == buf {
					uses = true
				}
			}
			if !uses {
				continue
			}
			callee := c.Call.StaticCallee()
			if callee == nil {
				return 0, "the buffer is passed to a call that cannot be resolved"
			}
			dom := (b != at && b.Dominates(at)) || before[in]
			switch {
			case callee.Name() == "WriteString" && c.Call.Args[0] == buf:
				if s, ok := constStringOf(c.Call.Args[1]); ok && dom {
					total += len(s)
				}
			case callee.Name() == "WriteByte" && c.Call.Args[0] == buf:
				if dom {
					total++
				}
			case callee.Name() == "Write" || callee.Name() == "Bytes" || callee.Name() == "String" || callee.Name() == "Len":
				// grows or reads the buffer
			case writesOneByte(callee, c.Call.Args, buf):
				if dom {
					total++
				}
			default:
				return 0, "the buffer is passed to " + fnName(callee) + ", which may shorten it"
			}
		}
	}
	return total, "constant WriteString and single-byte writes in blocks that dominate the call"
}

// writesOneByte: callee passes the buffer only to WriteByte, and a WriteByte on it lies in a block that every
// return of callee is dominated by.
func writesOneByte(callee *ssa.Function, args []ssa.Value, buf ssa.Value) bool {
	if callee.Blocks == nil {
		return false
	}
	var param *ssa.Parameter
	for i, a := range args {
		if a == buf && i < len(callee.Params) {
			param = callee.Params[i]
		}
	}
	if param == nil {
		return false
	}
	var writes []*ssa.BasicBlock
	for _, b := range callee.Blocks {
		for _, in := range b.Instrs {
			c, ok := in.(*ssa.Call)
			if !ok {
				continue
			}
			for i, a := range c.Call.Args {
				if a != ssa.Value(param) {
					continue
				}
				if sc := c.Call.StaticCallee(); sc != nil && sc.Name() == "WriteByte" && i == 0 {
					writes = append(writes, b)
				} else {
					return false
				}
			}
		}
	}
	for _, b := range callee.Blocks {
		if len(b.Instrs) == 0 {
			continue
		}
		if _, isRet := b.Instrs[len(b.Instrs)-1].(*ssa.Return); !isRet {
			continue
		}
		ok := false
		for _, w := range writes {
			if w.Dominates(b) {
				ok = true
			}
		}
		if !ok {
			return false
		}
	}
	return len(writes) > 0
}

// ruleR141WitnessHashPrefix keeps the reason behind the confirmed `x[h.Length():]` entries true: ExtractHash hands out
// a hash only over a prefix of its argument that it has checked to exist, and Length() is the length of that prefix.
func ruleR141WitnessHashPrefix(p *Program, r *Report) {
	ex := p.Func("hmac.ExtractHash")
	ln := p.Func("hmac.(*HashData).Length")
	if ex == nil || ex.Blocks == nil || ln == nil || ln.Blocks == nil {
		r.Anchor("R14.1", "hmac.ExtractHash / (*HashData).Length")
		return
	}
	// Length returns len of the data field
	okLen := false
	for _, ret := range returnsOf(ln) {
		if x, isLen := isLenCall(ret.Results[0]); isLen {
			if _, f, ok := fieldOfLoad(x); ok && f == "data" {
				okLen = true
			}
		}
	}
	// ExtractHash: the data field of the returned object is a slice data[:hi] of the parameter with hi <= len(data) proven where it is built
	okEx := false
	data := paramByName(ex, "data")
	pr := newProverP(p, ex, 0)
	for _, b := range ex.Blocks {
		for _, in := range b.Instrs {
			st, ok := in.(*ssa.Store)
			if !ok {
				continue
			}
			fa, ok := st.Addr.(*ssa.FieldAddr)
			if !ok {
				continue
			}
			if pt, ok := fa.X.Type().Underlying().(*types.Pointer); ok {
				if stt, ok := pt.Elem().Underlying().(*types.Struct); ok && stt.Field(fa.Field).Name() == "data" {
					if sl, ok := st.Val.(*ssa.Slice); ok && sl.X == ssa.Value(data) && sl.Low == nil && sl.High != nil {
						okEx = pr.ProveLen(sl.High, 0, data, 0, b)
					}
				}
			}
		}
	}
	bad := ""
	if !okLen {
		bad = "(*HashData).Length no longer returns the length of the stored prefix"
	}
	if !okEx {
		bad = "ExtractHash builds the hash over something else than a checked prefix data[:n] of its argument"
	}
	r.Check(bad == "", "R14.1", fnName(ex), "a hash is a checked prefix of the buffer it was extracted from", p.Pos(ex.Pos()), "HashData.data = data[:size+1] with size+1 <= len(data) proven; Length() = len(data field)", bad+": the callers slice their buffer at Length() without looking")
}

func init() {
	mut("C14", "binary row: fixed-width value sliced without looking at the row length (original defect)", "decryptor/mysql/response_proxy.go", "	if pos < 0 || width < 0 || len(rowData)-pos < width {\n		return nil, 0, base_mysql.ErrMalformPacket\n	}\n", "", "R14.1", "fixedWidthValue")
	mut("C14", "binary row: NULL bitmap sliced without looking at the row length (original defect)", "decryptor/mysql/response_proxy.go", "	if len(rowData) < pos {\n		// the row ends inside its NULL bitmap\n		return nil, base_mysql.ErrMalformPacket\n	}\n", "", "R14.1", "processBinaryDataRow")
	mut("C14", "hash prefix handed out without the length test", "hmac/hash.go", "	if len(data[1:]) < size {\n		logrus.Debugln(\"Data has less length that need\")\n		return nil\n	}\n", "", "R14.1", "ExtractHash")
}
