package main

import (
	"fmt"
	"sort"
	"strings"

	"golang.org/x/tools/go/ssa"
)

func init() {
	register(&Property{ID: "C14", Patterns: []string{"./..."}, Run: runC14})
}

// files whose functions decode input controlled by the other side (C14 anchors)
var c14Files = []string{
	"acrablock/acrablock.go", "acrablock/utils.go", "acrastruct/utils.go",
	"crypto/registry_handler.go", "crypto/envelope_detector.go", "hmac/hash.go", "hmac/dataProcessor.go",
	"decryptor/mysql/packet.go", "decryptor/mysql/column_field.go", "decryptor/mysql/response_proxy.go", "decryptor/mysql/prepared_statements.go",
	"decryptor/mysql/base/utils.go", "decryptor/mysql/data_encoder.go",
	"decryptor/postgresql/packet_handler.go", "decryptor/postgresql/utils.go", "decryptor/postgresql/data_encoder.go",
	"pseudonymization/utils.go", "pseudonymization/random.go", "pseudonymization/common/metadata.go", "pseudonymization/data_encoder.go",
	"utils/dbByteArrayEncoders.go", "utils/utils.go", "logging/log_entry_parser.go",
	"keystore/v2/keystore/signature/notary.go", "keystore/v2/keystore/asn1/asn1.go",
}

// Sites the prover cannot decide but that are safe for a reason established by reading (frozen; one line each).
var r141Confirmed = map[string]string{
	"R14.1|(*decryptor/postgresql.ParsePacket).Name|slice .name[:len(.name)-1]":                      "name always ends with its NUL: NewParsePacket slices data[:idx+1] after bytes.Index found the terminator, so len >= 1",
	"R14.1|(*decryptor/postgresql.ParsePacket).QueryString|slice .query[:len(.query)-1]":             "query always ends with its NUL: NewParsePacket slices up to and including the terminator, ReplaceQuery appends one, so len >= 1",
	"R14.1|crypto.DeserializeEncryptedData|make make(len getSerializedContainerLength(encrypted)#0)": "getSerializedContainerLength returns internalLength <= len(encrypted)-12 or an error; every caller has validated len(encrypted) > 12 first (getEnvelopeIDFromData -> validateSerializedContainer); a wrapped length-12 is rejected by the same comparison",
	"R14.1|pseudonymization.randomEmail|slice buf[:len(buf)-len(_)]":                                 "guard len(buf) >= 5; below 8 bytes only the 3-byte country TLDs are used, the longest TLD (.info) has 5 bytes: len(tld) <= len(buf)",
	"R14.1|pseudonymization.randomEmail|slice buf[len(buf)-len(_):]":                                 "same: 0 <= len(buf)-len(tld) <= len(buf)",
	"R14.1|pseudonymization.randomEmail|index buf[len(buf)-len(_)/2]":                                "same, and len(buf)-len(tld) >= 0 so the middle index is within [0, len(buf))",
}

// Functions whose bounds are loop-cursor invariants (inductive, outside the prover) and are covered by a dedicated rule.
var boundsSkipFuncs = map[string]string{
	"(*crypto.EnvelopeDetector).OnColumn": "tag scanner: cursor invariant 0 <= inIndex <= len(inBuffer) is inductive; the cursor steps are decided by R01.6",
	"acrastruct.ProcessAcraStructs":       "tag scanner: cursor invariant is inductive; the cursor steps are decided by R01.6",
	"acrablock.ProcessAcraBlocks":         "tag scanner: cursor invariant is inductive; the cursor steps are decided by R01.6",
}

func boundsRule(p *Program, r *Report, rule string, files []string, confirmed map[string]string) {
	boundsRuleK(p, r, rule, files, confirmed, false)
}

func boundsRuleK(p *Program, r *Report, rule string, files []string, confirmed map[string]string, constBounds bool) {
	inScope := map[string]bool{}
	for _, f := range files {
		inScope[f] = true
	}
	for _, fn := range p.srcFns {
		if !inScope[p.FileOf(fn.Pos())] {
			continue
		}
		if why, skip := boundsSkipFuncs[fnName(fn)]; skip {
			r.Note("%s: %s not analysed by the bound prover: %s", rule, fnName(fn), why)
			continue
		}
		pr := newProverP(p, fn, 0)
		pr.constBounds = constBounds
		verdicts := pr.CheckSinks(nil)
		sort.SliceStable(verdicts, func(i, j int) bool { return verdicts[i].Sink.Instr.Pos() < verdicts[j].Sink.Instr.Pos() })
		seen := map[string]int{}
		for _, v := range verdicts {
			construct := v.Sink.Kind + " " + sinkText(p, v.Sink)
			seen[construct]++
			if seen[construct] > 1 {
				construct = fmt.Sprintf("%s #%d", construct, seen[construct])
			}
			name := fnName(fn)
			pos := p.Pos(v.Sink.Instr.Pos())
			if v.Proven {
				r.OK(rule, name, construct, pos, "bound guarded on every path ("+v.Why+")")
				continue
			}
			key := rule + "|" + name + "|" + construct
			if why, ok := confirmed[key]; ok {
				r.Confirmed(rule, name, construct, pos, why)
				continue
			}
			r.Bad(rule, name, construct, pos, fmt.Sprintf("%s; cannot establish `%s` from the conditions that dominate this use: a crafted value makes the access panic (or allocate without bound)", v.Why, v.Missing))
		}
	}
}

func runC14(p *Program, r *Report) {
	r.Rule("R14.1", "E1", 40, "guarded bounds: in the input-facing decoders every slice bound, index and allocation size that derives from a length field of the input, from a subtraction, or from a lossy integer conversion is proven in range (0 <= low <= high <= len, 0 <= i < len, 0 <= n) from the branch conditions that dominate the use")
	boundsRuleK(p, r, "R14.1", c14Files, r141Confirmed, true)
	_ = strings.Contains
	_ = ssa.Value(nil)
}
