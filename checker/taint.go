package main

import (
	"fmt"
	"go/token"
	"go/types"
	"strings"

	"golang.org/x/tools/go/callgraph"
	"golang.org/x/tools/go/ssa"
)

// E2: forward value-flow (taint) over SSA, interprocedural and context-insensitive,
// field-based for struct fields (one abstract location per (struct type, field)),
// object-based for local allocations. External functions (no body: std, third
// party, gothemis) propagate from any argument/receiver to every result and to
// pointer-like receivers/arguments unless the client's Model says otherwise.

type fieldKey struct {
	st  *types.Struct
	idx int
}

type tstep struct {
	val  ssa.Value
	note string
	pos  token.Pos
	prev *tstep
}

type TaintSink struct {
	Instr ssa.Instruction
	Fn    *ssa.Function
	What  string
	Path  *tstep
}

type ExternalModel int

const (
	ModelDefault ExternalModel = iota // results + pointer-like operands become tainted
	ModelClean                        // call launders: nothing propagates (sanitizer / irrelevant)
	ModelResult                       // only results
)

type TaintConfig struct {
	// Model decides how a call to callee (may be nil for dynamic) propagates. Called for every call with a tainted operand.
	Model func(site ssa.CallInstruction, callee *ssa.Function, calleeObj *types.Func) ExternalModel
	// Sink is asked for every call operand that is tainted; non-empty = report.
	Sink func(site ssa.CallInstruction, calleeObj *types.Func, argIdx int, arg ssa.Value) string
	// Enter decides whether flows into/out of fn's body are followed (default: acra functions with bodies).
	Enter func(fn *ssa.Function) bool
	// FieldBarrier: stores into these fields do not taint the field (used for fields the rule handles separately).
	FieldBarrier func(st *types.Struct, idx int) bool
	// Override: full control over one call: if handled, exactly the listed results become tainted
	// (given that some operand is tainted) and nothing else propagates.
	Override func(site ssa.CallInstruction, calleeObj *types.Func) (handled bool, results []int)
	// WholeObject: a tainted pointer taints every field reached through it (off by default: fields are tracked per (type, field)).
	WholeObject bool
	// ValueBarrier: value never becomes tainted (e.g. type-based cut: error values).
	ValueBarrier func(v ssa.Value) bool
}

type Taint struct {
	p          *Program
	cfg        TaintConfig
	tainted    map[ssa.Value]*tstep
	fields     map[fieldKey]*tstep
	globals    map[*ssa.Global]*tstep
	results    map[*ssa.Function]map[int]*tstep // fn result idx tainted
	work       []ssa.Value
	Sinks      []TaintSink
	sinkSet    map[ssa.Instruction]bool
	sites      map[ssa.CallInstruction][]*ssa.Function
	callers    map[*ssa.Function][]ssa.CallInstruction
	fieldLoads map[fieldKey][]ssa.Value // FieldAddr / Field instructions per field
	globalRefs map[*ssa.Global][]ssa.Value
	Steps      int
}

func NewTaint(p *Program, cfg TaintConfig) *Taint {
	t := &Taint{p: p, cfg: cfg, tainted: map[ssa.Value]*tstep{}, fields: map[fieldKey]*tstep{}, globals: map[*ssa.Global]*tstep{},
		results: map[*ssa.Function]map[int]*tstep{}, sinkSet: map[ssa.Instruction]bool{}}
	t.sites, t.callers = p.callSites()
	t.fieldLoads = map[fieldKey][]ssa.Value{}
	t.globalRefs = map[*ssa.Global][]ssa.Value{}
	for _, fn := range p.srcFns {
		for _, b := range fn.Blocks {
			for _, in := range b.Instrs {
				switch x := in.(type) {
				case *ssa.FieldAddr:
					if k, ok := fieldKeyOf(x.X.Type(), x.Field); ok {
						t.fieldLoads[k] = append(t.fieldLoads[k], x)
					}
				case *ssa.Field:
					if k, ok := fieldKeyOf(x.X.Type(), x.Field); ok {
						t.fieldLoads[k] = append(t.fieldLoads[k], x)
					}
				}
				if u, ok := in.(*ssa.UnOp); ok && u.Op == token.MUL {
					if g, ok := u.X.(*ssa.Global); ok {
						t.globalRefs[g] = append(t.globalRefs[g], u)
					}
				}
			}
		}
	}
	return t
}

func fieldKeyOf(t types.Type, idx int) (fieldKey, bool) {
	if pt, ok := t.Underlying().(*types.Pointer); ok {
		t = pt.Elem()
	}
	st, ok := t.Underlying().(*types.Struct)
	if !ok {
		return fieldKey{}, false
	}
	return fieldKey{st, idx}, true
}

// callSites indexes the call graph: site -> callees with bodies or not, fn -> call sites calling it.
func (p *Program) callSites() (map[ssa.CallInstruction][]*ssa.Function, map[*ssa.Function][]ssa.CallInstruction) {
	if p.siteCallees != nil {
		return p.siteCallees, p.fnCallers
	}
	cg := p.CallGraph()
	p.siteCallees = map[ssa.CallInstruction][]*ssa.Function{}
	p.fnCallers = map[*ssa.Function][]ssa.CallInstruction{}
	seen := map[[2]interface{}]bool{}
	for _, n := range cg.Nodes {
		for _, e := range n.Out {
			if e.Site == nil {
				continue
			}
			k := [2]interface{}{e.Site, e.Callee.Func}
			if seen[k] {
				continue
			}
			seen[k] = true
			p.siteCallees[e.Site] = append(p.siteCallees[e.Site], e.Callee.Func)
			p.fnCallers[e.Callee.Func] = append(p.fnCallers[e.Callee.Func], e.Site)
		}
	}
	return p.siteCallees, p.fnCallers
}

var _ = callgraph.CalleesOf

func (t *Taint) enter(fn *ssa.Function) bool {
	if fn == nil || fn.Blocks == nil {
		return false
	}
	if t.cfg.Enter != nil {
		return t.cfg.Enter(fn)
	}
	return true
}

// Seed marks v tainted.
func (t *Taint) Seed(v ssa.Value, note string) {
	t.mark(v, &tstep{val: v, note: "source: " + note, pos: v.Pos()})
}

// SeedField marks a struct field location tainted.
func (t *Taint) SeedField(st *types.Struct, idx int, note string) {
	t.markField(fieldKey{st, idx}, &tstep{note: "source field: " + note})
}

func (t *Taint) mark(v ssa.Value, step *tstep) {
	if v == nil {
		return
	}
	if _, ok := t.tainted[v]; ok {
		return
	}
	switch v.(type) {
	case *ssa.Const, *ssa.Function, *ssa.Builtin:
		return
	}
	if t.cfg.ValueBarrier != nil && t.cfg.ValueBarrier(v) {
		return
	}
	t.tainted[v] = step
	t.work = append(t.work, v)
}

func (t *Taint) next(from *tstep, v ssa.Value, note string, pos token.Pos) *tstep {
	return &tstep{val: v, note: note, pos: pos, prev: from}
}

func (t *Taint) markField(k fieldKey, step *tstep) {
	if _, ok := t.fields[k]; ok {
		return
	}
	if t.cfg.FieldBarrier != nil && t.cfg.FieldBarrier(k.st, k.idx) {
		return
	}
	t.fields[k] = step
	for _, v := range t.fieldLoads[k] {
		switch x := v.(type) {
		case *ssa.FieldAddr:
			// pointer to a tainted location: loads through it are tainted
			t.mark(x, t.next(step, x, "address of tainted field "+fieldName(k), x.Pos()))
		case *ssa.Field:
			t.mark(x, t.next(step, x, "read of tainted field "+fieldName(k), x.Pos()))
		}
	}
}

func fieldName(k fieldKey) string {
	if k.idx < k.st.NumFields() {
		return k.st.Field(k.idx).Name()
	}
	return "?"
}

// taintStoreTarget: a tainted value was stored through addr.
func (t *Taint) taintStoreTarget(addr ssa.Value, step *tstep, depth int) {
	if depth > 8 {
		return
	}
	switch a := addr.(type) {
	case *ssa.Alloc:
		t.mark(a, t.next(step, a, "stored into local", a.Pos()))
	case *ssa.FieldAddr:
		if k, ok := fieldKeyOf(a.X.Type(), a.Field); ok {
			t.markField(k, t.next(step, a, "stored into field "+fieldName(k), a.Pos()))
		}
	case *ssa.IndexAddr:
		t.mark(a.X, t.next(step, a.X, "stored into element", a.Pos()))
		t.taintContainerOrigin(a.X, step, depth+1)
	case *ssa.Global:
		if _, ok := t.globals[a]; !ok {
			t.globals[a] = step
			for _, ld := range t.globalRefs[a] {
				t.mark(ld, t.next(step, ld, "load of global "+a.Name(), ld.Pos()))
			}
		}
	case *ssa.Parameter:
		// out-parameter: the callers' argument now points at tainted memory
		t.mark(a, t.next(step, a, "stored through parameter", a.Pos()))
		fn := a.Parent()
		for i, prm := range fn.Params {
			if prm != a {
				continue
			}
			for _, site := range t.callers[fn] {
				c := site.Common()
				ai := i
				var arg ssa.Value
				if c.IsInvoke() {
					if ai == 0 {
						arg = c.Value
					} else if ai-1 < len(c.Args) {
						arg = c.Args[ai-1]
					}
				} else if ai < len(c.Args) {
					arg = c.Args[ai]
				}
				if arg != nil {
					st := t.next(step, arg, "written by callee "+fnName(fn), site.Pos())
					t.mark(arg, st)
					t.taintContainerOrigin(arg, st, depth+1)
				}
			}
		}
	case *ssa.FreeVar, *ssa.Call, *ssa.Phi, *ssa.UnOp, *ssa.Extract, *ssa.TypeAssert, *ssa.Slice:
		// store through a pointer we did not allocate: treat the pointer as pointing at tainted memory
		t.mark(a, t.next(step, a, "stored through pointer", a.Pos()))
		t.taintContainerOrigin(a, step, depth+1)
	default:
		t.mark(a, t.next(step, a, "stored through", a.Pos()))
	}
}

// taintContainerOrigin walks a slice/array/pointer value back to where it lives so that later reads see the taint.
func (t *Taint) taintContainerOrigin(v ssa.Value, step *tstep, depth int) {
	if depth > 8 {
		return
	}
	switch x := v.(type) {
	case *ssa.Slice:
		t.mark(x.X, t.next(step, x.X, "backing store", x.Pos()))
		t.taintContainerOrigin(x.X, step, depth+1)
	case *ssa.UnOp:
		if x.Op == token.MUL {
			t.taintStoreTarget(x.X, step, depth+1)
		}
	case *ssa.Alloc:
		t.mark(x, t.next(step, x, "backing store", x.Pos()))
	case *ssa.Phi:
		for _, e := range x.Edges {
			if _, isConst := e.(*ssa.Const); !isConst {
				t.mark(e, t.next(step, e, "backing store (phi)", x.Pos()))
			}
		}
	}
}

// Run propagates to a fixpoint.
func (t *Taint) Run() {
	for len(t.work) > 0 {
		v := t.work[len(t.work)-1]
		t.work = t.work[:len(t.work)-1]
		t.Steps++
		step := t.tainted[v]
		if p, ok := v.(*ssa.Parameter); ok {
			_ = p
		}
		refs := v.Referrers()
		if refs == nil {
			// globals / functions have no referrers list
			continue
		}
		for _, in := range *refs {
			t.flow(v, step, in)
		}
	}
}

func (t *Taint) flow(v ssa.Value, step *tstep, in ssa.Instruction) {
	fn := in.Parent()
	switch x := in.(type) {
	case *ssa.Store:
		if x.Val == v {
			t.taintStoreTarget(x.Addr, step, 0)
		}
	case *ssa.UnOp:
		if x.Op == token.ARROW || x.Op == token.MUL || x.Op == token.SUB || x.Op == token.XOR {
			t.mark(x, t.next(step, x, "load/unop", x.Pos()))
		}
	case *ssa.BinOp:
		if b, ok := x.Type().Underlying().(*types.Basic); ok && b.Info()&types.IsBoolean != 0 {
			return
		}
		t.mark(x, t.next(step, x, "binop", x.Pos()))
	case *ssa.Phi:
		t.mark(x, t.next(step, x, "phi", x.Pos()))
	case *ssa.ChangeType:
		t.mark(x, t.next(step, x, "conversion", x.Pos()))
	case *ssa.Convert:
		t.mark(x, t.next(step, x, "conversion", x.Pos()))
	case *ssa.MultiConvert:
		t.mark(x, t.next(step, x, "conversion", x.Pos()))
	case *ssa.ChangeInterface:
		t.mark(x, t.next(step, x, "interface conversion", x.Pos()))
	case *ssa.MakeInterface:
		t.mark(x, t.next(step, x, "boxed in interface", x.Pos()))
	case *ssa.SliceToArrayPointer:
		t.mark(x, t.next(step, x, "conversion", x.Pos()))
	case *ssa.Slice:
		if x.X == v {
			t.mark(x, t.next(step, x, "slice of", x.Pos()))
		}
	case *ssa.TypeAssert:
		t.mark(x, t.next(step, x, "type assertion", x.Pos()))
	case *ssa.Extract:
		// tuple taint is tracked per index through results; a tainted tuple value itself means all
		if _, isCall := x.Tuple.(*ssa.Call); !isCall {
			t.mark(x, t.next(step, x, "extract", x.Pos()))
		}
	case *ssa.Index:
		if x.X == v {
			t.mark(x, t.next(step, x, "element of", x.Pos()))
		}
	case *ssa.IndexAddr:
		if x.X == v {
			t.mark(x, t.next(step, x, "element address of", x.Pos()))
		}
	case *ssa.Lookup:
		if x.X == v {
			t.mark(x, t.next(step, x, "lookup in", x.Pos()))
		}
	case *ssa.Field:
		if x.X == v {
			t.mark(x, t.next(step, x, "field of tainted struct", x.Pos()))
		}
	case *ssa.FieldAddr:
		// A tainted pointer does not taint every field behind it: struct fields are tracked
		// field-based (markField). Only a local struct object tainted as a whole counts.
		if x.X == v && t.cfg.WholeObject {
			t.mark(x, t.next(step, x, "field address of tainted object", x.Pos()))
		}
	case *ssa.Range:
		t.mark(x, t.next(step, x, "range over", x.Pos()))
	case *ssa.Next:
		t.mark(x, t.next(step, x, "iteration", x.Pos()))
	case *ssa.MapUpdate:
		if x.Value == v || x.Key == v {
			t.mark(x.Map, t.next(step, x.Map, "stored into map", x.Pos()))
			t.taintContainerOrigin(x.Map, step, 0)
		}
	case *ssa.Send:
		if x.X == v {
			t.mark(x.Chan, t.next(step, x.Chan, "sent on channel", x.Pos()))
		}
	case *ssa.MakeClosure:
		cl, _ := x.Fn.(*ssa.Function)
		for i, b := range x.Bindings {
			if b == v && cl != nil && i < len(cl.FreeVars) && t.enter(cl) {
				t.mark(cl.FreeVars[i], t.next(step, cl.FreeVars[i], "captured by closure", x.Pos()))
			}
		}
	case *ssa.Return:
		for i, res := range x.Results {
			if res == v {
				t.taintResult(fn, i, step, x.Pos())
			}
		}
	case ssa.CallInstruction:
		t.flowCall(v, step, x)
	}
}

func (t *Taint) taintResult(fn *ssa.Function, idx int, step *tstep, pos token.Pos) {
	if t.results[fn] == nil {
		t.results[fn] = map[int]*tstep{}
	}
	if _, ok := t.results[fn][idx]; ok {
		return
	}
	st := t.next(step, nil, fmt.Sprintf("returned as result %d of %s", idx, fnName(fn)), pos)
	t.results[fn][idx] = st
	for _, site := range t.callers[fn] {
		t.taintCallResult(site, idx, st, fn.Signature.Results().Len())
	}
	// a closure defined and called through a value is covered by the call graph edges too
}

func (t *Taint) taintCallResult(site ssa.CallInstruction, idx int, step *tstep, nres int) {
	cv := site.Value()
	if cv == nil {
		return
	}
	if nres <= 1 {
		t.mark(cv, t.next(step, cv, "call result", cv.Pos()))
		return
	}
	if refs := cv.Referrers(); refs != nil {
		for _, r := range *refs {
			if ex, ok := r.(*ssa.Extract); ok && ex.Index == idx {
				t.mark(ex, t.next(step, ex, fmt.Sprintf("call result %d", idx), cv.Pos()))
			}
		}
	}
}

func (t *Taint) flowCall(v ssa.Value, step *tstep, site ssa.CallInstruction) {
	c := site.Common()
	// operand positions of v
	var argIdxs []int // index in "full params" space: receiver = 0 for invoke
	off := 0
	if c.IsInvoke() {
		off = 1
		if c.Value == v {
			argIdxs = append(argIdxs, 0)
		}
	} else if c.Value == v {
		// calling a tainted function value: ignore
	}
	for i, a := range c.Args {
		if a == v {
			argIdxs = append(argIdxs, i+off)
		}
	}
	if len(argIdxs) == 0 {
		return
	}
	if b, ok := c.Value.(*ssa.Builtin); ok {
		switch b.Name() {
		case "append":
			if cv := site.Value(); cv != nil {
				t.mark(cv, t.next(step, cv, "append", cv.Pos()))
			}
		case "copy":
			if len(c.Args) == 2 && c.Args[1] == v {
				t.mark(c.Args[0], t.next(step, c.Args[0], "copy into", site.Pos()))
				t.taintContainerOrigin(c.Args[0], step, 0)
			}
		case "min", "max":
			if cv := site.Value(); cv != nil {
				t.mark(cv, t.next(step, cv, b.Name(), cv.Pos()))
			}
		}
		return
	}
	var calleeObj *types.Func
	if c.IsInvoke() {
		calleeObj = c.Method
	} else if sc := c.StaticCallee(); sc != nil {
		if o, ok := sc.Object().(*types.Func); ok {
			calleeObj = o
		} else if sc.Origin() != nil {
			calleeObj, _ = sc.Origin().Object().(*types.Func)
		}
	}
	if t.cfg.Sink != nil {
		for _, ai := range argIdxs {
			if what := t.cfg.Sink(site, calleeObj, ai, v); what != "" && !t.sinkSet[site] {
				t.sinkSet[site] = true
				t.Sinks = append(t.Sinks, TaintSink{Instr: site, Fn: site.Parent(), What: what, Path: step})
			}
		}
	}
	if t.cfg.Override != nil {
		if handled, res := t.cfg.Override(site, calleeObj); handled {
			n := c.Signature().Results().Len()
			for _, idx := range res {
				t.taintCallResult(site, idx, t.next(step, nil, "through "+calleeObj.Name(), site.Pos()), n)
			}
			return
		}
	}
	callees := t.sites[site]
	if sc := c.StaticCallee(); sc != nil && len(callees) == 0 {
		callees = []*ssa.Function{sc}
	}
	entered := false
	for _, callee := range callees {
		model := ModelDefault
		if t.cfg.Model != nil {
			co, _ := callee.Object().(*types.Func)
			if co == nil {
				co = calleeObj
			}
			model = t.cfg.Model(site, callee, co)
		}
		if model == ModelClean {
			entered = true
			continue
		}
		if t.enter(callee) && model == ModelDefault {
			entered = true
			for _, ai := range argIdxs {
				pi := ai
				if pi < len(callee.Params) {
					// variadic: extra args already packed by SSA
					t.mark(callee.Params[pi], t.next(step, callee.Params[pi], "passed to "+fnName(callee), site.Pos()))
				}
			}
			// results already known tainted for this callee flow to this site
			for idx, st := range t.results[callee] {
				t.taintCallResult(site, idx, st, callee.Signature.Results().Len())
			}
			continue
		}
		// external (or model says result only)
		entered = true
		t.externalCall(v, step, site, argIdxs, off, model)
	}
	if !entered {
		model := ModelDefault
		if t.cfg.Model != nil {
			model = t.cfg.Model(site, nil, calleeObj)
		}
		if model != ModelClean {
			t.externalCall(v, step, site, argIdxs, off, model)
		}
	}
}

func (t *Taint) externalCall(v ssa.Value, step *tstep, site ssa.CallInstruction, argIdxs []int, off int, model ExternalModel) {
	c := site.Common()
	name := "dynamic call"
	if c.IsInvoke() {
		name = c.Method.FullName()
	} else if sc := c.StaticCallee(); sc != nil {
		name = sc.String()
	}
	name = strings.ReplaceAll(name, acraMod+"/", "")
	if cv := site.Value(); cv != nil {
		sig := c.Signature()
		if sig.Results().Len() == 1 {
			t.mark(cv, t.next(step, cv, "through "+name, site.Pos()))
		} else if sig.Results().Len() > 1 {
			if refs := cv.Referrers(); refs != nil {
				for _, r := range *refs {
					if ex, ok := r.(*ssa.Extract); ok {
						if isErrorType(ex.Type()) {
							continue
						}
						t.mark(ex, t.next(step, ex, "through "+name, site.Pos()))
					}
				}
			}
		}
	}
	if model == ModelResult {
		return
	}
	// side effects: pointer-like receiver / other args may now hold the data (Write, Unmarshal, Read into ...)
	taintPtr := func(a ssa.Value) {
		if a == v {
			return
		}
		switch a.Type().Underlying().(type) {
		case *types.Pointer:
			t.mark(a, t.next(step, a, "written by "+name, site.Pos()))
			t.taintContainerOrigin(a, step, 0)
			if al, ok := a.(*ssa.Alloc); ok {
				t.mark(al, t.next(step, al, "written by "+name, site.Pos()))
			}
		}
	}
	if c.IsInvoke() {
		// interface receiver (io.Writer etc.)
		if c.Value != v {
			t.mark(c.Value, t.next(step, c.Value, "written by "+name, site.Pos()))
		}
	}
	for _, a := range c.Args {
		taintPtr(a)
	}
}

func isErrorType(t types.Type) bool {
	n, ok := t.(*types.Named)
	return ok && n.Obj().Pkg() == nil && n.Obj().Name() == "error"
}

// IsTainted reports whether v was reached.
func (t *Taint) IsTainted(v ssa.Value) bool { _, ok := t.tainted[v]; return ok }

func (t *Taint) StepOf(v ssa.Value) *tstep { return t.tainted[v] }

// PathString renders the provenance chain, source first.
func (t *Taint) PathString(s *tstep, max int) string {
	var parts []string
	for x := s; x != nil; x = x.prev {
		pos := t.p.Pos(x.pos)
		parts = append(parts, fmt.Sprintf("%s [%s]", x.note, pos))
	}
	for i, j := 0, len(parts)-1; i < j; i, j = i+1, j-1 {
		parts[i], parts[j] = parts[j], parts[i]
	}
	if len(parts) > max {
		head := parts[:max/2]
		tail := parts[len(parts)-max/2:]
		parts = append(append(append([]string{}, head...), fmt.Sprintf("… %d steps …", len(parts)-max)), tail...)
	}
	return strings.Join(parts, " -> ")
}
