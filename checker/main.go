package main

import (
	"fmt"
	"os"
	"sort"
	"strings"
)

// Property describes one property's check.
type Property struct {
	ID       string
	Patterns []string // packages to load (relative patterns under /repo)
	Run      func(p *Program, r *Report)
}

var registry = map[string]*Property{}

func register(p *Property) { registry[p.ID] = p }

func usage() {
	fmt.Fprintln(os.Stderr, "usage: acraverify check <Cxx|all> [--tier quick|thorough] [--overlay /abs/file=/path/to/replacement]... [--no-evidence]\n       acraverify selftest <Cxx|all> [--jobs N]\n       acraverify list")
	os.Exit(2)
}

func main() {
	if len(os.Args) < 2 {
		usage()
	}
	switch os.Args[1] {
	case "list":
		ids := make([]string, 0, len(registry))
		for id := range registry {
			ids = append(ids, id)
		}
		sort.Strings(ids)
		for _, id := range ids {
			fmt.Println(id, registry[id].Patterns)
		}
	case "check":
		os.Exit(cmdCheck(os.Args[2:]))
	case "ssa":
		prog, err := Load(LoadOpts{Patterns: []string{"./..."}})
		if err != nil {
			fmt.Fprintln(os.Stderr, err)
			os.Exit(2)
		}
		for _, spec := range os.Args[2:] {
			fn := prog.Func(spec)
			if fn == nil {
				fmt.Println("unresolved:", spec)
				continue
			}
			fn.WriteTo(os.Stdout)
			for _, a := range fn.AnonFuncs {
				a.WriteTo(os.Stdout)
			}
		}
	case "selftest":
		os.Exit(cmdSelftest(os.Args[2:]))
	default:
		usage()
	}
}

func cmdCheck(args []string) int {
	if len(args) < 1 {
		usage()
	}
	id := args[0]
	tier := os.Getenv("VERIF_TIER")
	if tier == "" {
		tier = "quick"
	}
	overlay := map[string][]byte{}
	evidence := true
	for i := 1; i < len(args); i++ {
		switch args[i] {
		case "--tier":
			i++
			tier = args[i]
		case "--overlay":
			i++
			kv := strings.SplitN(args[i], "=", 2)
			if len(kv) != 2 {
				usage()
			}
			b, err := os.ReadFile(kv[1])
			if err != nil {
				fmt.Fprintln(os.Stderr, err)
				return 2
			}
			overlay[kv[0]] = b
		case "--no-evidence":
			evidence = false
		default:
			usage()
		}
	}
	if tier != "quick" && tier != "thorough" {
		tier = "quick"
	}
	var ids []string
	if id == "all" {
		for k := range registry {
			if strings.HasPrefix(k, "DBG") {
				continue // debugging aids, never part of a verdict
			}
			ids = append(ids, k)
		}
		sort.Strings(ids)
	} else {
		if registry[id] == nil {
			fmt.Fprintf(os.Stderr, "unknown property %s\n", id)
			return 2
		}
		ids = []string{id}
	}
	// Union of patterns so that "all" loads once.
	pats := map[string]bool{}
	for _, k := range ids {
		for _, pt := range registry[k].Patterns {
			pats[pt] = true
		}
	}
	var patterns []string
	if pats["./..."] {
		patterns = []string{"./..."}
	} else {
		for pt := range pats {
			patterns = append(patterns, pt)
		}
		sort.Strings(patterns)
	}
	exit := 0
	prog, err := Load(LoadOpts{Patterns: patterns, Overlay: overlay})
	for _, k := range ids {
		r := NewReport(k, tier)
		if err != nil {
			r.Fatal = append(r.Fatal, "load: "+err.Error())
		} else {
			r.prog = prog
			func() {
				defer func() {
					if e := recover(); e != nil {
						r.Fatal = append(r.Fatal, fmt.Sprintf("analysis panic (no verdict): %v", e))
						if os.Getenv("ACRAVERIFY_DEBUG") != "" {
							panic(e)
						}
					}
				}()
				registry[k].Run(prog, r)
			}()
		}
		if len(overlay) > 0 {
			evidence = false // overlays are self-tests, never evidence
		}
		if tier == "thorough" && len(overlay) == 0 && len(r.Fatal) == 0 {
			runSelftestInto(r, k)
		}
		if c := r.Finish(evidence); c != 0 {
			exit = 1
		}
	}
	return exit
}
