package main

import (
	"fmt"
	"go/token"
	"go/types"
	"strings"

	"golang.org/x/tools/go/ssa"
)

func init() {
	register(&Property{ID: "C06", Patterns: []string{"./..."}, Run: runC06})
}

func runC06(p *Program, r *Report) {
	r.Rule("R06.1", "E4+E1", 4, "listing/destroy index agreement: the index the key listing assigns to the first rotated key equals the offset the destroy-by-index function subtracts before indexing the same ordered collection, and that index is proven within range (the caller-chosen index is class P; closed-world caller guards apply)")
	ruleR061(p, r)
	r.Rule("R06.2", "E4+E3", 2, "destroyed keys do not break readers: every function of the v2 keystore that iterates ring.AllKeys() and calls a per-key accessor able to answer ErrKeyDestroyed either skips destroyed keys (state test or error test followed by continue) or does not abort the iteration on that error")
	ruleR062(p, r)
	r.Rule("R06.3", "E3", 1, "rotation refreshes the cached history: every success path of WriteKeyFile that passes the history backup also refreshes (or drops) the cached list of historical file names for that key")
	ruleR063(p, r)
	r.Rule("R06.5", "E2", 4, "one identity for the cached history list: every lookup/store of the cached list of historical file names is keyed by the path of the key file derived from the function's file-name argument only through filepath.Clean / filepath.Join (never a lossy path function or substring), and the listing it caches is taken for that same path value")
	ruleR065(p, r)
	r.Rule("R06.4", "E2", 2, "newest first: KeyRing.AllKeys fills the result from the end (index count-i-1), getHistoricalFilePaths puts the current file first")
	ruleR064(p, r)
	r.Rule("R06.6", "E2", 4, "destruction reaches the cache, under the right name: in the v1 keystore every removal of a key file is accompanied, in the same function, by a purge (cache.Add(name, nil)) of the entry that key is cached under - the very file-name expression the removed path was built from, or the removed path made relative to the key directory; removing a rotated key also refreshes the cached list of the key's files. Otherwise a warm cache keeps handing out the destroyed key, or the purge hits another key of a similar name")
	ruleR066(p, r)
}

// firstListedIndex: the constant value the listing function stores into KeyDescription.Index for the first rotated key.
func firstListedIndex(fn *ssa.Function) (int64, bool) {
	for _, b := range fn.Blocks {
		for _, in := range b.Instrs {
			st, ok := in.(*ssa.Store)
			if !ok {
				continue
			}
			fa, ok := st.Addr.(*ssa.FieldAddr)
			if !ok {
				continue
			}
			if _, f, ok := fieldOfAddr(fa); !ok || f != "Index" {
				continue
			}
			v := st.Val
			var add int64
			for {
				if bo, ok := v.(*ssa.BinOp); ok && bo.Op == token.ADD {
					if c, ok := intConst(bo.Y); ok {
						add += c
						v = bo.X
						continue
					}
				}
				break
			}
			if ph, ok := v.(*ssa.Phi); ok {
				for _, e := range ph.Edges {
					if c, ok := intConst(e); ok {
						return c + add, true
					}
				}
			}
		}
	}
	return 0, false
}

func ruleR061(p *Program, r *Report) {
	type pair struct{ list, destroy, what string }
	for _, pr := range []pair{
		{"keystore/filesystem.(*KeyStore).describeOldDir", "keystore/filesystem.(*KeyStore).destroyRotatedKeyByIndex", "v1"},
		{"keystore/v2/keystore.(*ServerKeyStore).listRotatedRings", "keystore/v2/keystore.destroyRingRotatedKeyByIndex", "v2"},
	} {
		lf, df := p.Func(pr.list), p.Func(pr.destroy)
		if lf == nil || lf.Blocks == nil || df == nil || df.Blocks == nil {
			r.Anchor("R06.1", pr.list+" / "+pr.destroy)
			continue
		}
		k, ok := firstListedIndex(lf)
		if !ok {
			r.Bad("R06.1", fnName(lf), "first rotated index", p.Pos(lf.Pos()), "cannot find the constant the listing starts numbering rotated keys with")
			continue
		}
		idxParam := paramByName(df, "index")
		if idxParam == nil {
			r.Anchor("R06.1", pr.destroy+" parameter index")
			continue
		}
		prv := newProverP(p, df, 0)
		found := false
		for _, s := range boundSinks(df) {
			if s.Kind != "index" {
				continue
			}
			t, off := prv.norm(s.Idx)
			if t.v != ssa.Value(idxParam) {
				continue
			}
			found = true
			name := fnName(df)
			r.Check(-off == k, "R06.1", name, "index offset", p.Pos(s.Instr.Pos()), fmt.Sprintf("%s: listing starts at %d, destroy indexes with index-%d", pr.what, k, -off), fmt.Sprintf("%s: the listing shows the first rotated key as index %d but destroy-by-index uses element index-%d: 'destroy index N' removes a different key than the one listed as N", pr.what, k, -off))
			lower := prv.Prove(nil, 0, s.Idx, 0, s.Instr.Block())
			upper := prv.proveUpperIdx(s.Idx, s.Container, s.Instr.Block())
			r.Check(lower && upper, "R06.1", name, "index in range", p.Pos(s.Instr.Pos()), "0 <= index-K < len proven (own guards and caller guards)", fmt.Sprintf("the element index is not proven within the collection (lower bound proven: %v, upper bound proven: %v): an index accepted by the checks can address outside the list", lower, upper))
		}
		if !found {
			r.Bad("R06.1", fnName(df), "index use", p.Pos(df.Pos()), "the index parameter is not used as (index - K) to address the collection; the rule cannot relate listing and destruction")
		}
	}
}

func ruleR062(p *Program, r *Report) {
	destroyedErr, _ := p.Lookup("keystore/v2/keystore/api.ErrKeyDestroyed").(*types.Var)
	if destroyedErr == nil {
		r.Anchor("R06.2", "keystore/v2/keystore/api.ErrKeyDestroyed")
		return
	}
	accessors := map[string]bool{"PrivateKey": true, "SymmetricKey": true, "PublicKey": true}
	for _, fn := range p.SrcFuncs("keystore/v2/keystore") {
		// iterates AllKeys?
		iterates := false
		for _, cs := range callsIn(fn) {
			if cs.Instr.Common().IsInvoke() && cs.Instr.Common().Method.Name() == "AllKeys" {
				iterates = true
			}
		}
		if !iterates {
			continue
		}
		for _, cs := range callsIn(fn) {
			cc := cs.Instr.Common()
			if !cc.IsInvoke() || !accessors[cc.Method.Name()] {
				continue
			}
			call, ok := cs.Instr.(*ssa.Call)
			if !ok {
				continue
			}
			// in a loop? (block reaches itself)
			inLoop := false
			for _, s := range cs.Block.Succs {
				if reaches(s, cs.Block, nil) {
					inLoop = true
				}
			}
			if !inLoop {
				continue
			}
			errv := extractOf(call, 1)
			name := fnName(fn)
			construct := "ring." + cc.Method.Name() + " error aborts iteration"
			if errv == nil {
				r.OK("R06.2", name, construct, p.Pos(call.Pos()), "error not used to abort")
				continue
			}
			// accepted: a comparison of err with ErrKeyDestroyed whose equal edge continues the loop
			tolerates := false
			if refs := errv.Referrers(); refs != nil {
				for _, rf := range *refs {
					bo, ok := rf.(*ssa.BinOp)
					if !ok || (bo.Op != token.EQL && bo.Op != token.NEQ) {
						continue
					}
					other := bo.Y
					if other == ssa.Value(errv) {
						other = bo.X
					}
					isDestroyed := false
					if u, ok := other.(*ssa.UnOp); ok {
						if g, ok := u.X.(*ssa.Global); ok && g.Object() == types.Object(destroyedErr) {
							isDestroyed = true
						}
					}
					if !isDestroyed {
						continue
					}
					for _, i := range ifsOn(bo) {
						eqSucc := i.Block().Succs[0]
						if bo.Op == token.NEQ {
							eqSucc = i.Block().Succs[1]
						}
						// the equal edge goes back into the loop without returning
						if reaches(eqSucc, cs.Block, nil) {
							retFirst := false
							if len(eqSucc.Instrs) > 0 {
								_, retFirst = eqSucc.Instrs[len(eqSucc.Instrs)-1].(*ssa.Return)
							}
							if !retFirst {
								tolerates = true
							}
						}
					}
				}
			}
			// or guarded by a State()==KeyDestroyed test before the accessor
			for _, cs2 := range callsIn(fn) {
				if cs2.Instr.Common().IsInvoke() && cs2.Instr.Common().Method.Name() == "State" && instrBefore(cs2.Instr.(ssa.Instruction), call) {
					tolerates = true
				}
			}
			r.Check(tolerates, "R06.2", name, construct, p.Pos(call.Pos()), "a destroyed key is skipped, the iteration goes on", "the 'all keys' reader returns the accessor's error for a destroyed key: after one destruction every read of the ring fails with 'key has been destroyed' and data protected under the surviving keys stops decrypting")
		}
	}
}

func ruleR063(p *Program, r *Report) {
	fn := p.Func("keystore/filesystem.(*KeyStore).WriteKeyFile")
	backup := p.FuncObj("keystore/filesystem.(*KeyStore).backupHistoricalKeyFile")
	cacheFn := p.FuncObj("keystore/filesystem.(*KeyStore).cacheHistoricalPrivateKeyFilenames")
	if fn == nil || fn.Blocks == nil || backup == nil || cacheFn == nil {
		r.Anchor("R06.3", "WriteKeyFile / backupHistoricalKeyFile / cacheHistoricalPrivateKeyFilenames")
		return
	}
	// functions that (transitively, depth 2) refresh or drop the cached history list
	refreshes := func(f *ssa.Function) bool {
		seen := map[*ssa.Function]bool{}
		var walk func(f *ssa.Function, d int) bool
		walk = func(f *ssa.Function, d int) bool {
			if f == nil || f.Blocks == nil || seen[f] || d > 2 {
				return false
			}
			seen[f] = true
			for _, cs := range callsIn(f) {
				if cs.Callee == cacheFn {
					return true
				}
				cc := cs.Instr.Common()
				if cc.IsInvoke() && cc.Method.Name() == "Clear" {
					return true
				}
				if sc := cc.StaticCallee(); sc != nil && walk(sc, d+1) {
					return true
				}
			}
			return false
		}
		return walk(f, 0)
	}
	backs := callsTo(fn, backup)
	if len(backs) == 0 {
		r.Bad("R06.3", fnName(fn), "history backup", p.Pos(fn.Pos()), "WriteKeyFile no longer preserves the previous version through backupHistoricalKeyFile")
		return
	}
	var events []ssa.Instruction
	for _, cs := range callsIn(fn) {
		if sc := cs.Instr.Common().StaticCallee(); sc != nil && (cs.Callee == cacheFn || refreshes(sc)) {
			events = append(events, cs.Instr.(ssa.Instruction))
		}
	}
	for _, bk := range backs {
		bad := false
		for _, ret := range returnsOf(fn) {
			if isRecoverBlock(ret.Block()) || !isNilConst(retValue(ret, 0)) {
				continue
			}
			if !reaches(bk.Block, ret.Block(), nil) {
				continue
			}
			evBlocks := map[*ssa.BasicBlock]bool{}
			for _, e := range events {
				evBlocks[e.Block()] = true
			}
			if evBlocks[ret.Block()] || evBlocks[bk.Block] {
				continue
			}
			if reaches(bk.Block, ret.Block(), evBlocks) {
				bad = true
			}
		}
		r.Check(!bad && len(events) > 0, "R06.3", fnName(fn), "history cache refresh after backup", p.Pos(bk.Instr.Pos()), "every success return after the backup passes a refresh/drop of the cached history list", "after a rotation the cached list of historical key files still names only the files known before: with a warm cache the previous key is no longer offered and old data stops decrypting until the cache is reset")
	}
}

func ruleR064(p *Program, r *Report) {
	if fn := p.Func("keystore/v2/keystore/filesystem.(*KeyRing).AllKeys"); fn == nil || fn.Blocks == nil {
		r.Anchor("R06.4", "v2 KeyRing.AllKeys")
	} else {
		ok := false
		for _, b := range fn.Blocks {
			for _, in := range b.Instrs {
				st, isSt := in.(*ssa.Store)
				if !isSt {
					continue
				}
				ia, isIA := st.Addr.(*ssa.IndexAddr)
				if !isIA {
					continue
				}
				// index = count - i - 1
				if bo, isBo := ia.Index.(*ssa.BinOp); isBo && bo.Op == token.SUB {
					if c, isC := intConst(bo.Y); isC && c == 1 {
						if inner, isIn := bo.X.(*ssa.BinOp); isIn && inner.Op == token.SUB {
							if _, isLen := isLenCall(inner.X); isLen {
								ok = true
							}
						}
					}
				}
			}
		}
		r.Check(ok, "R06.4", fnName(fn), "result filled from the end", p.Pos(fn.Pos()), "keySeqnums[count-i-1] = Keys[i].Seqnum", "AllKeys no longer returns the newest key first: decryption tries the oldest key first and the documented order (current first) is lost")
	}
	if fn := p.Func("keystore/filesystem.getHistoricalFilePaths"); fn == nil || fn.Blocks == nil {
		r.Anchor("R06.4", "keystore/filesystem.getHistoricalFilePaths")
	} else {
		// the first element stored into the result is the `current` parameter (filename)
		cur := fn.Params[0]
		ok := false
		for _, b := range fn.Blocks {
			for _, in := range b.Instrs {
				if c, isCall := in.(*ssa.Call); isCall {
					if bi, isB := c.Call.Value.(*ssa.Builtin); isB && bi.Name() == "append" {
						// first append onto an empty/nil or freshly made slice with current
						if backClosure(c.Call.Args[1])[cur] {
							if _, isMake := stripConv(c.Call.Args[0]).(*ssa.MakeSlice); isMake {
								ok = true
							}
							if isNilConst(c.Call.Args[0]) {
								ok = true
							}
						}
					}
				}
				if st, isSt := in.(*ssa.Store); isSt {
					if ia, isIA := st.Addr.(*ssa.IndexAddr); isIA {
						if c, isC := intConst(ia.Index); isC && c == 0 && backClosure(st.Val)[cur] {
							ok = true
						}
					}
				}
			}
		}
		r.Check(ok, "R06.4", fnName(fn), "current file first", p.Pos(fn.Pos()), "the current key file is the first element of the history list", "the list of key files no longer starts with the current key")
	}
	_ = strings.Contains
}

func init() {
	mut("C06", "v1 destroy uses index-1 again (original defect)", "keystore/filesystem/server_keystore.go", "	rotatedKey := rotatedKeyFiles[index-2]", "	rotatedKey := rotatedKeyFiles[index-1]", "R06.1", "destroyRotatedKeyByIndex")
	mut("C06", "v1 destroy accepts index == count+2", "keystore/filesystem/server_keystore.go", "index < 2 || index > len(rotatedKeyFiles)+1 {", "index < 2 || index > len(rotatedKeyFiles)+2 {", "R06.1", "index in range")
	mut("C06", "v2 listing starts rotated keys at 1", "keystore/v2/keystore/keyStore.go", "			Index:        keyIdx + 1,", "			Index:        keyIdx,", "R06.1", "destroyRingRotatedKeyByIndex")
	mut("C06", "v2 all-symmetric-keys aborts on a destroyed key (original defect)", "keystore/v2/keystore/keyRingUtils.go", "		symmetricKey, err := ring.SymmetricKey(seqnum, api.ThemisSymmetricKeyFormat)\n		if err == api.ErrKeyDestroyed {\n			// a destroyed key is gone for good, the surviving ones must still be offered\n			continue\n		}\n", "		symmetricKey, err := ring.SymmetricKey(seqnum, api.ThemisSymmetricKeyFormat)\n", "R06.2", "allSymmetricKeys")
	mut("C06", "rotation no longer refreshes the cached history (original defect)", "keystore/filesystem/server_keystore.go", "	store.refreshCachedHistoricalFilenames(filename)\n	return nil", "	return nil", "R06.3", "WriteKeyFile")
	mut("C06", "refresh helper stops re-caching", "keystore/filesystem/server_keystore.go", "	if err == nil {\n		err = store.cacheHistoricalPrivateKeyFilenames(fullPath, paths)\n	}\n	if err != nil {\n		store.cache.Clear()\n	}", "	if err != nil {\n		log.WithError(err).Debugln(\"can't refresh\")\n	}", "R06.3", "WriteKeyFile")
	mut("C06", "AllKeys returns oldest first", "keystore/v2/keystore/filesystem/keyRing.go", "		keySeqnums[keyCount-i-1] = r.data.Keys[i].Seqnum", "		keySeqnums[i] = r.data.Keys[i].Seqnum", "R06.4", "AllKeys")
}

func ruleR065(p *Program, r *Report) {
	cacheFn := p.FuncObj("keystore/filesystem.(*KeyStore).cacheHistoricalPrivateKeyFilenames")
	getFn := p.FuncObj("keystore/filesystem.(*KeyStore).getCachedHistoricalPrivateKeyFilenames")
	listFn := p.FuncObj("keystore/filesystem.getHistoricalFilePaths")
	if cacheFn == nil || getFn == nil || listFn == nil {
		r.Anchor("R06.5", "cacheHistoricalPrivateKeyFilenames / getCachedHistoricalPrivateKeyFilenames / getHistoricalFilePaths")
		return
	}
	for _, fn := range p.srcFns {
		var sites []callSite
		sites = append(sites, callsTo(fn, cacheFn)...)
		sites = append(sites, callsTo(fn, getFn)...)
		if len(sites) == 0 {
			continue
		}
		lists := callsTo(fn, listFn)
		for k, cs := range sites {
			id := cs.Instr.Common().Args[1]
			bad := ""
			fromParam := false
			for v := range backClosure(id) {
				switch x := v.(type) {
				case *ssa.Parameter:
					if b, ok := x.Type().Underlying().(*types.Basic); ok && b.Info()&types.IsString != 0 {
						fromParam = true
					}
				case *ssa.Call:
					co := calleeOfCommon(x.Common())
					if co == nil || co.Pkg() == nil || co.Pkg().Path() != "path/filepath" || (co.Name() != "Clean" && co.Name() != "Join") {
						name := "an indirect call"
						if co != nil {
							name = co.FullName()
						}
						bad = "the cache identity passes through " + name
					}
				case *ssa.Slice:
					if b, ok := x.X.Type().Underlying().(*types.Basic); ok && b.Info()&types.IsString != 0 {
						bad = "the cache identity is a substring"
					}
				}
			}
			if bad == "" && !fromParam {
				bad = "the cache identity does not derive from the file name argument"
			}
			for _, l := range lists {
				if l.Instr.Common().Args[0] != id {
					bad = "the listing is taken for another path value than the cache identity"
				}
			}
			r.Check(bad == "", "R06.5", fnName(fn), fmt.Sprintf("cache identity #%d (%s)", k+1, cs.Callee.Name()), p.Pos(cs.Instr.Pos()), "Clean/Join of the file name; listing for the same value", bad+": readers and the rotation-time refresh disagree on the key of some key files, so a warm cache keeps offering the pre-rotation list")
		}
	}
}

func init() {
	mut("C06", "rotation-time refresh keys the cache by directory + base name", "keystore/filesystem/server_keystore.go", "func (store *KeyStore) refreshCachedHistoricalFilenames(filename string) {\n	fullPath := filepath.Clean(filename)", "func (store *KeyStore) refreshCachedHistoricalFilenames(filename string) {\n	fullPath := filepath.Join(store.privateKeyDirectory, filepath.Base(filename))", "R06.5", "cache identity")
}

// ---- R06.6
var r066Confirmed = map[string]string{
	"(*keystore/filesystem.KeyStore).WriteKeyFile": "removes the temporary file of a write that failed: never a key, never cached",
}

// structEq: the same value, or the same pure construction (call of the same function / concatenation) over equal parts.
func structEq(a, b ssa.Value, depth int) bool {
	if a == b {
		return true
	}
	if depth > 6 || a == nil || b == nil {
		return false
	}
	switch x := a.(type) {
	case *ssa.Const:
		y, ok := b.(*ssa.Const)
		return ok && x.Value != nil && y.Value != nil && x.Value.ExactString() == y.Value.ExactString()
	case *ssa.Call:
		y, ok := b.(*ssa.Call)
		if !ok || x.Call.StaticCallee() == nil || x.Call.StaticCallee() != y.Call.StaticCallee() || len(x.Call.Args) != len(y.Call.Args) {
			return false
		}
		for i := range x.Call.Args {
			if !structEq(x.Call.Args[i], y.Call.Args[i], depth+1) {
				return false
			}
		}
		return true
	case *ssa.BinOp:
		y, ok := b.(*ssa.BinOp)
		return ok && x.Op == y.Op && structEq(x.X, y.X, depth+1) && structEq(x.Y, y.Y, depth+1)
	case *ssa.Convert:
		y, ok := b.(*ssa.Convert)
		return ok && structEq(x.X, y.X, depth+1)
	}
	return false
}

func ruleR066(p *Program, r *Report) {
	n := 0
	for _, fn := range p.SrcFuncs("keystore/filesystem") {
		if fn.Signature.Recv() == nil || !strings.HasSuffix(fn.Signature.Recv().Type().String(), "filesystem.KeyStore") {
			continue
		}
		var purges []ssa.Value
		refreshes := false
		for _, cs := range callsIn(fn) {
			c, ok := cs.Instr.(*ssa.Call)
			if !ok {
				continue
			}
			args := plainArgs(c)
			if cs.Instr.Common().IsInvoke() && cs.Instr.Common().Method.Name() == "Add" && len(args) == 2 && isNilConst(args[1]) {
				purges = append(purges, args[0])
			}
			if cs.Callee != nil && cs.Callee.Name() == "refreshCachedHistoricalFilenames" {
				refreshes = true
			}
		}
		for _, cs := range callsIn(fn) {
			c, ok := cs.Instr.(*ssa.Call)
			if !ok || !(cs.Instr.Common().IsInvoke() && cs.Instr.Common().Method.Name() == "Remove") {
				continue
			}
			if !strings.Contains(cs.Instr.Common().Value.Type().String(), "Storage") {
				continue
			}
			n++
			name := fnName(fn)
			path := plainArgs(c)[0]
			construct := "Remove(" + exprTextOf(p, path) + ")"
			if why, ok := r066Confirmed[name]; ok {
				r.Confirmed("R06.6", name, construct, p.Pos(c.Pos()), why)
				continue
			}
			okPurge, how := false, ""
			if pc, isCall := path.(*ssa.Call); isCall && pc.Call.StaticCallee() != nil && (pc.Call.StaticCallee().Name() == "GetPrivateKeyFilePath" || pc.Call.StaticCallee().Name() == "GetPublicKeyFilePath") {
				nameArg := plainArgs(pc)[0]
				for _, pv := range purges {
					if structEq(pv, nameArg, 0) {
						okPurge, how = true, "cache.Add("+exprTextOf(p, pv)+", nil): the name the removed path was built from"
					}
				}
			} else {
				// an arbitrary path: purged under its name relative to the key directory, and the cached list refreshed
				for _, pv := range purges {
					if ex, isEx := pv.(*ssa.Extract); isEx && ex.Index == 0 {
						if rc, isC := ex.Tuple.(*ssa.Call); isC {
							if co := calleeOfCommon(rc.Common()); co != nil && co.FullName() == "path/filepath.Rel" && rc.Call.Args[1] == path {
								okPurge, how = true, "cache.Add(Rel(key directory, removed path), nil)"
							}
						}
					}
				}
				if okPurge && !refreshes {
					okPurge = false
					how = "the cached list of the key's files is not refreshed"
				}
			}
			if how == "" {
				how = "no purge of the cache entry this key file is cached under"
			}
			r.Check(okPurge, "R06.6", name, construct, p.Pos(c.Pos()), how, how+": with the key cache on, the destroyed key is still handed out (or a key of a similar name is made unreadable instead)")
		}
	}
	if n < 4 {
		r.Bad("R06.6", "keystore/filesystem", "key file removals", "-", fmt.Sprintf("%d removals found, 5 confirmed by reading", n))
	}
}

func init() {
	mut("C06", "symmetric key destruction purges the private key's cache entry (original defect)", "keystore/filesystem/server_keystore.go", "	store.cache.Add(getSymmetricKeyName(filename), nil)", "	store.cache.Add(filename, nil)", "R06.6", "destroySymmetricKeyWithFilename")
	mut("C06", "rotated key destruction leaves the cache alone (original defect)", "keystore/filesystem/server_keystore.go", "	if cacheName, err := filepath.Rel(store.privateKeyDirectory, rotatedKeyPath); err == nil {\n		store.cache.Add(cacheName, nil)\n	}\n	store.refreshCachedHistoricalFilenames(path)\n", "", "R06.6", "destroyRotatedKeyByIndex")
	mut("C06", "rotated key destruction purges the key but not the cached list", "keystore/filesystem/server_keystore.go", "	store.refreshCachedHistoricalFilenames(path)\n\n	return nil\n}", "	return nil\n}", "R06.6", "destroyRotatedKeyByIndex")
}
