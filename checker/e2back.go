package main

import (
	"go/token"
	"go/types"

	"golang.org/x/tools/go/ssa"
)

// Backward provenance inside one function: the set of "leaf" values a value
// is computed from, looking through phis, conversions, slicing, loads of local
// allocations (reaching stores are not ordered: every store into the alloc counts)
// and, optionally, append/copy builtins.
type leafOpts struct {
	throughAppend bool // append(a, b...) derives from a and b
	throughFields bool // load of x.f (FieldAddr on a local alloc struct) -> stores into that field
	// wrapper: calls whose result is a re-packaging of their arguments (sign, marshal, encode): provenance continues into the arguments
	wrapper func(co *types.Func) bool
	// expandAllocs: a local struct/array object stands for everything stored into it
	expandAllocs bool
}

func leavesOf(v ssa.Value, o leafOpts) []ssa.Value {
	var out []ssa.Value
	seen := map[ssa.Value]bool{}
	var walk func(v ssa.Value)
	walk = func(v ssa.Value) {
		if v == nil || seen[v] {
			return
		}
		seen[v] = true
		switch x := v.(type) {
		case *ssa.Phi:
			for _, e := range x.Edges {
				walk(e)
			}
		case *ssa.ChangeType:
			walk(x.X)
		case *ssa.Convert:
			walk(x.X)
		case *ssa.ChangeInterface:
			walk(x.X)
		case *ssa.MakeInterface:
			walk(x.X)
		case *ssa.TypeAssert:
			walk(x.X)
		case *ssa.Slice:
			walk(x.X)
		case *ssa.UnOp:
			if x.Op == token.MUL {
				switch a := x.X.(type) {
				case *ssa.Alloc:
					stores := storesInto(a)
					if len(stores) == 0 {
						out = append(out, v)
						return
					}
					for _, s := range stores {
						walk(s.Val)
					}
					return
				case *ssa.FieldAddr:
					if o.throughFields {
						if base, ok := a.X.(*ssa.Alloc); ok {
							found := false
							for _, s := range fieldStoresInto(base, a.Field) {
								found = true
								walk(s.Val)
							}
							if found {
								return
							}
						}
					}
				}
			}
			out = append(out, v)
		case *ssa.Call:
			if b, ok := x.Call.Value.(*ssa.Builtin); ok && o.throughAppend && b.Name() == "append" {
				for _, a := range x.Call.Args {
					walk(a)
				}
				return
			}
			out = append(out, v)
		default:
			out = append(out, v)
		}
	}
	walk(v)
	return out
}

func storesInto(a *ssa.Alloc) []*ssa.Store {
	var out []*ssa.Store
	if refs := a.Referrers(); refs != nil {
		for _, r := range *refs {
			if s, ok := r.(*ssa.Store); ok && s.Addr == a {
				out = append(out, s)
			}
		}
	}
	return out
}

func fieldStoresInto(a *ssa.Alloc, field int) []*ssa.Store {
	var out []*ssa.Store
	if refs := a.Referrers(); refs != nil {
		for _, r := range *refs {
			fa, ok := r.(*ssa.FieldAddr)
			if !ok || fa.Field != field {
				continue
			}
			if frefs := fa.Referrers(); frefs != nil {
				for _, fr := range *frefs {
					if s, ok := fr.(*ssa.Store); ok && s.Addr == fa {
						out = append(out, s)
					}
				}
			}
		}
	}
	return out
}

// isCallTo reports whether v is (an Extract idx of) a call to callee; idx<0 = the call value itself / any.
func isCallResult(v ssa.Value, callee *types.Func, idx int) bool {
	switch x := v.(type) {
	case *ssa.Extract:
		c, ok := x.Tuple.(*ssa.Call)
		return ok && calleeOfCommon(c.Common()) == callee && (idx < 0 || x.Index == idx)
	case *ssa.Call:
		return calleeOfCommon(x.Common()) == callee && idx <= 0
	}
	return false
}

// paramIndex returns the index of v among fn's params, or -1.
func paramIndex(fn *ssa.Function, v ssa.Value) int {
	for i, p := range fn.Params {
		if p == v {
			return i
		}
	}
	return -1
}

// paramByName finds the parameter with the given source name.
func paramByName(fn *ssa.Function, name string) *ssa.Parameter {
	for _, p := range fn.Params {
		if p.Name() == name {
			return p
		}
	}
	return nil
}

// instrBefore reports whether a executes before b when both are in the same block, or a's block strictly dominates b's.
func instrBefore(a, b ssa.Instruction) bool {
	ba, bb := a.Block(), b.Block()
	if ba == bb {
		for _, in := range ba.Instrs {
			if in == a {
				return true
			}
			if in == b {
				return false
			}
		}
		return false
	}
	return ba.Dominates(bb)
}

// ---- interprocedural backward provenance ------------------------------------

type provVerdict int

const (
	provUndecided provVerdict = iota // keep walking (parameters, closures, getters)
	provAllowed
	provForbidden
)

type provRoot struct {
	Val     ssa.Value
	Fn      *ssa.Function
	Verdict provVerdict
	Why     string
}

// provenance walks v back to its roots across function boundaries (parameters -> arguments at
// every call site in the call graph, free variables -> closure bindings, results of acra
// functions with bodies -> their returned values). classify decides leaves; leaves it leaves
// undecided and that cannot be expanded further are reported as undecided roots.
func (p *Program) provenance(v ssa.Value, o leafOpts, classify func(leaf ssa.Value) (provVerdict, string)) []provRoot {
	_, callers := p.callSites()
	var roots []provRoot
	seen := map[ssa.Value]bool{}
	var walk func(v ssa.Value, depth int)
	walk = func(v ssa.Value, depth int) {
		for _, leaf := range leavesOf(v, o) {
			if seen[leaf] {
				continue
			}
			seen[leaf] = true
			var fn *ssa.Function
			if in, ok := leaf.(ssa.Instruction); ok {
				fn = in.Parent()
			} else if pr, ok := leaf.(*ssa.Parameter); ok {
				fn = pr.Parent()
			} else if fv, ok := leaf.(*ssa.FreeVar); ok {
				fn = fv.Parent()
			}
			if verdict, why := classify(leaf); verdict != provUndecided {
				roots = append(roots, provRoot{leaf, fn, verdict, why})
				continue
			}
			if depth > 12 {
				roots = append(roots, provRoot{leaf, fn, provUndecided, "depth bound reached"})
				continue
			}
			if o.wrapper != nil {
				var call *ssa.Call
				switch x := leaf.(type) {
				case *ssa.Extract:
					call, _ = x.Tuple.(*ssa.Call)
				case *ssa.Call:
					call = x
				}
				if call != nil {
					if co := calleeOfCommon(call.Common()); co != nil && o.wrapper(co) {
						if call.Common().IsInvoke() {
							// receiver is the wrapper object, not data
						}
						for _, a := range call.Common().Args {
							walk(a, depth+1)
						}
						continue
					}
				}
			}
			if al, ok := leaf.(*ssa.Alloc); ok && o.expandAllocs {
				n := 0
				var scan func(addr ssa.Value, d int)
				scan = func(addr ssa.Value, d int) {
					if d > 6 {
						return
					}
					refs := addr.Referrers()
					if refs == nil {
						return
					}
					for _, rf := range *refs {
						switch x := rf.(type) {
						case *ssa.Store:
							if x.Addr == addr {
								n++
								walk(x.Val, depth+1)
							}
						case *ssa.FieldAddr:
							if x.X == addr {
								scan(x, d+1)
							}
						case *ssa.IndexAddr:
							if x.X == addr {
								scan(x, d+1)
							}
						}
					}
				}
				scan(al, 0)
				if n > 0 {
					continue
				}
			}
			switch x := leaf.(type) {
			case *ssa.Parameter:
				f := x.Parent()
				idx := paramIndex(f, x)
				sites := callers[f]
				if len(sites) == 0 {
					roots = append(roots, provRoot{leaf, fn, provUndecided, "parameter " + x.Name() + " of " + fnName(f) + " (no callers in the program)"})
					continue
				}
				for _, site := range sites {
					c := site.Common()
					var arg ssa.Value
					if c.IsInvoke() {
						if idx == 0 {
							arg = c.Value
						} else if idx-1 < len(c.Args) {
							arg = c.Args[idx-1]
						}
					} else if idx < len(c.Args) {
						arg = c.Args[idx]
					}
					if arg != nil {
						walk(arg, depth+1)
					}
				}
			case *ssa.FreeVar:
				f := x.Parent()
				idx := -1
				for i, fv := range f.FreeVars {
					if fv == x {
						idx = i
					}
				}
				found := false
				if par := f.Parent(); par != nil && idx >= 0 {
					for _, b := range par.Blocks {
						for _, in := range b.Instrs {
							if mc, ok := in.(*ssa.MakeClosure); ok && mc.Fn == f && idx < len(mc.Bindings) {
								found = true
								// bindings are addresses of captured variables: follow stores into them
								if a, ok := mc.Bindings[idx].(*ssa.Alloc); ok {
									for _, s := range storesInto(a) {
										walk(s.Val, depth+1)
									}
								} else {
									walk(mc.Bindings[idx], depth+1)
								}
							}
						}
					}
				}
				if !found {
					roots = append(roots, provRoot{leaf, fn, provUndecided, "free variable " + x.Name()})
				}
			case *ssa.Extract, *ssa.Call:
				var call *ssa.Call
				ridx := 0
				if ex, ok := x.(*ssa.Extract); ok {
					call, _ = ex.Tuple.(*ssa.Call)
					ridx = ex.Index
				} else {
					call = x.(*ssa.Call)
				}
				expanded := false
				if call != nil {
					var callees []*ssa.Function
					if sc := call.Common().StaticCallee(); sc != nil {
						callees = []*ssa.Function{sc}
					} else {
						callees = p.siteCallees[call]
						if len(callees) == 0 && call.Common().IsInvoke() {
							callees = p.implementersOf(call.Common().Method)
						}
					}
					for _, cal := range callees {
						if cal.Blocks == nil || (!isAcraPath(fnPkgPath(cal)) && cal.Synthetic == "") {
							continue
						}
						for _, ret := range returnsOf(cal) {
							if isRecoverBlock(ret.Block()) {
								continue
							}
							if ridx < len(ret.Results) {
								expanded = true
								walk(retValue(ret, ridx), depth+1)
							}
						}
					}
				}
				if !expanded {
					roots = append(roots, provRoot{leaf, fn, provUndecided, "result of " + leaf.String()})
				}
			default:
				roots = append(roots, provRoot{leaf, fn, provUndecided, leaf.String()})
			}
		}
	}
	walk(v, 0)
	return roots
}

// fieldOfLoad: if v is a load of x.f (UnOp * FieldAddr) or a Field extraction, returns the struct type name and field name.
func fieldOfLoad(v ssa.Value) (st *types.Named, field string, ok bool) {
	var base types.Type
	var idx int
	switch x := v.(type) {
	case *ssa.UnOp:
		fa, isFA := x.X.(*ssa.FieldAddr)
		if x.Op != token.MUL || !isFA {
			return nil, "", false
		}
		base, idx = fa.X.Type(), fa.Field
	case *ssa.Field:
		base, idx = x.X.Type(), x.Field
	default:
		return nil, "", false
	}
	if pt, isPtr := base.Underlying().(*types.Pointer); isPtr {
		base = pt.Elem()
	}
	n, _ := base.(*types.Named)
	s, isStruct := base.Underlying().(*types.Struct)
	if !isStruct {
		return nil, "", false
	}
	return n, s.Field(idx).Name(), true
}

// backClosure: every value that v may be computed from inside its function: operands transitively,
// including arguments of calls (results are assumed to depend on all operands) and values stored into
// local allocations / their elements that v reads. Used for must-reach ("x flows into y") rules.
func backClosure(v ssa.Value) map[ssa.Value]bool {
	out := map[ssa.Value]bool{}
	var walk func(v ssa.Value)
	walk = func(v ssa.Value) {
		if v == nil || out[v] {
			return
		}
		out[v] = true
		in, ok := v.(ssa.Instruction)
		if !ok {
			return
		}
		if c, isCall := v.(*ssa.Call); isCall {
			if b, isB := c.Call.Value.(*ssa.Builtin); isB && (b.Name() == "len" || b.Name() == "cap") {
				return // a length is not the content
			}
		}
		for _, op := range in.Operands(nil) {
			if *op != nil {
				walk(*op)
			}
		}
		// memory: an alloc's content comes from stores into it or into addresses derived from it
		if a, ok := v.(*ssa.Alloc); ok {
			var scan func(addr ssa.Value)
			scan = func(addr ssa.Value) {
				refs := addr.Referrers()
				if refs == nil {
					return
				}
				for _, r := range *refs {
					switch x := r.(type) {
					case *ssa.Store:
						if x.Addr == addr {
							walk(x.Val)
						}
					case *ssa.IndexAddr:
						if x.X == addr {
							scan(x)
						}
					case *ssa.FieldAddr:
						if x.X == addr {
							scan(x)
						}
					}
				}
			}
			scan(a)
		}
	}
	walk(v)
	return out
}

// implementersOf: CHA fallback: every acra method with a body that has the interface method's name and whose
// receiver type implements the interface the method belongs to.
func (p *Program) implementersOf(m *types.Func) []*ssa.Function {
	sig, _ := m.Type().(*types.Signature)
	if sig == nil || sig.Recv() == nil {
		return nil
	}
	iface, _ := sig.Recv().Type().Underlying().(*types.Interface)
	if iface == nil {
		return nil
	}
	var out []*ssa.Function
	for _, fn := range p.srcFns {
		if fn.Name() != m.Name() || fn.Signature.Recv() == nil || fn.Synthetic != "" {
			continue
		}
		if types.Implements(fn.Signature.Recv().Type(), iface) {
			out = append(out, fn)
		}
	}
	return out
}
