package main

import (
	"go/token"

	"golang.org/x/tools/go/ssa"
)

// ruleScanAdvance: the inline envelope scanner must look at every candidate position. The cursor variable of
// EnvelopeDetector.OnColumn may only be set to: 0, the position bytes.Index found, cursor+1 (no envelope at this
// position: keep the byte, try the next one), or cursor+n where n is the length ExtractSerializedContainer reported
// for the envelope that was just replaced. Any other step skips positions at which an envelope may start.
func ruleScanAdvance(p *Program, r *Report, rule string) {
	spec := "crypto.(*EnvelopeDetector).OnColumn"
	fn := p.Func(spec)
	if fn == nil || fn.Blocks == nil {
		r.Anchor(rule, spec)
		return
	}
	// cursor = the phi family named like the slice-low operand passed to bytes.Index(inBuffer[cursor:], TagBegin)
	var idxCall *ssa.Call
	for _, cs := range callsIn(fn) {
		if cs.Callee != nil && cs.Callee.Pkg() != nil && cs.Callee.Pkg().Path() == "bytes" && cs.Callee.Name() == "Index" {
			idxCall, _ = cs.Instr.(*ssa.Call)
		}
	}
	if idxCall == nil {
		r.Anchor(rule, spec+" bytes.Index call")
		return
	}
	sl, ok := idxCall.Common().Args[0].(*ssa.Slice)
	if !ok || sl.Low == nil {
		r.Anchor(rule, spec+" bytes.Index(inBuffer[cursor:], ...)")
		return
	}
	family := map[ssa.Value]bool{}
	var steps []*ssa.BinOp
	var grow func(v ssa.Value)
	grow = func(v ssa.Value) {
		if family[v] {
			return
		}
		switch x := v.(type) {
		case *ssa.Phi:
			family[x] = true
			for _, e := range x.Edges {
				grow(e)
			}
		case *ssa.BinOp:
			if x.Op == token.ADD {
				family[x] = true
				steps = append(steps, x)
				grow(x.X)
				grow(x.Y)
			}
		}
	}
	grow(sl.Low)
	var extract *ssa.Call
	for _, cs := range callsIn(fn) {
		if cs.Callee != nil && cs.Callee.Name() == "ExtractSerializedContainer" {
			extract, _ = cs.Instr.(*ssa.Call)
		}
	}
	n := 0
	for _, st := range steps {
		// operands: one in the family (or the Index result), the other the step
		var step ssa.Value
		switch {
		case family[st.X] && !family[st.Y]:
			step = st.Y
		case family[st.Y] && !family[st.X]:
			step = st.X
		default:
			continue
		}
		n++
		okStep := false
		why := ""
		if c, isC := intConst(step); isC {
			okStep = c == 1
			why = "constant step other than one byte"
		} else if step == ssa.Value(idxCall) {
			okStep = true // position found by bytes.Index, relative to the cursor
		} else if ex, isEx := step.(*ssa.Extract); isEx && extract != nil && ex.Tuple == ssa.Value(extract) && ex.Index == 0 {
			okStep = true // length of the envelope just handled
		} else {
			why = "step " + exprTextOf(p, step) + " is neither one byte nor the length of the envelope just replaced"
		}
		r.Check(okStep, rule, fnName(fn), "cursor step "+exprTextOf(p, step), p.Pos(st.Pos()), "advances to the found tag, by one byte, or by the replaced envelope's length", why+": the scan jumps over positions where an envelope (a poison record, a masked or encrypted value) may start after a run of tag bytes")
	}
	if n < 4 {
		r.Bad(rule, fnName(fn), "cursor steps", p.Pos(fn.Pos()), "fewer cursor updates found than the four confirmed by reading; the scanner has changed shape")
	}
}

func init() {
	for pr, rule := range map[string]string{"C03": "R03.5", "C11": "R11.5", "C15": "R15.5"} {
		mut(pr, "scanner skips the whole tag after a failed match", "crypto/envelope_detector.go", "		if err != nil {\n			outBuffer = append(outBuffer, inBuffer[inIndex])\n			inIndex++\n			continue\n		}", "		if err != nil {\n			outBuffer = append(outBuffer, inBuffer[inIndex:inIndex+len(TagBegin)]...)\n			inIndex += len(TagBegin)\n			continue\n		}", rule, "cursor step")
	}
}
