package main

import (
	"go/types"

	"golang.org/x/tools/go/ssa"
)

// Typestate "no use after wipe": some functions of acra overwrite a key buffer they were given (directly with
// utils.ZeroizeBytes, or by passing it on to a function that does). A buffer passed to such a function is dead.

// wipers: function -> set of parameter indexes that are wiped on every normal return.
func (p *Program) wipers() map[*ssa.Function]map[int]bool {
	if p.wipeSumm != nil {
		return p.wipeSumm
	}
	out := map[*ssa.Function]map[int]bool{}
	base := p.Func("utils.ZeroizeBytes")
	if base != nil {
		out[base] = map[int]bool{0: true}
	}
	for changed := true; changed; {
		changed = false
		for _, fn := range p.srcFns {
			if fn.Blocks == nil || fn == base {
				continue
			}
			rets := returnsOf(fn)
			for _, cs := range callsIn(fn) {
				call, ok := cs.Instr.(*ssa.Call) // not defer, not go
				if !ok {
					continue
				}
				callee := call.Common().StaticCallee()
				if callee == nil || out[callee] == nil {
					continue
				}
				for i := range out[callee] {
					if i >= len(call.Common().Args) {
						continue
					}
					if prm, ok := stripConv(call.Common().Args[i]).(*ssa.Parameter); ok {
						k := paramIndex(fn, prm)
						if k >= 0 && wipedOnSuccess(fn, rets, prm, out) {
							if out[fn] == nil {
								out[fn] = map[int]bool{}
							}
							if !out[fn][k] {
								out[fn][k] = true
								changed = true
							}
						}
					}
				}
			}
		}
	}
	p.wipeSumm = out
	return out
}

type wipeSite struct {
	Fn     *ssa.Function
	Call   *ssa.Call
	Callee *ssa.Function
	Arg    ssa.Value
}

// useAfterWipe checks every call in fn that hands a buffer to a wiping function.
func (p *Program) useAfterWipe(fn *ssa.Function, report func(site wipeSite, ok bool, detail string)) {
	w := p.wipers()
	for _, cs := range callsIn(fn) {
		call, ok := cs.Instr.(*ssa.Call)
		if !ok {
			continue
		}
		callee := call.Common().StaticCallee()
		if callee == nil || w[callee] == nil {
			continue
		}
		for i := range w[callee] {
			if i >= len(call.Common().Args) {
				continue
			}
			v := stripConv(call.Common().Args[i])
			if _, isSlice := v.Type().Underlying().(*types.Slice); !isSlice {
				continue
			}
			if c, isC := v.(*ssa.Const); isC && c.Value == nil {
				continue
			}
			site := wipeSite{fn, call, callee, v}
			detail := ""
			// (1) repeated in a loop without the buffer being obtained again
			var defBlk *ssa.BasicBlock
			if in, ok := v.(ssa.Instruction); ok {
				defBlk = in.Block()
			}
			avoid := map[*ssa.BasicBlock]bool{}
			if defBlk != nil && defBlk != cs.Block {
				avoid[defBlk] = true
			}
			inCycle := false
			for _, s := range cs.Block.Succs {
				if (defBlk == nil || defBlk != cs.Block) && (s == cs.Block || reaches(s, cs.Block, avoid)) {
					inCycle = true
				}
			}
			if defBlk == cs.Block {
				inCycle = false // obtained again in every iteration
			}
			if inCycle {
				detail = "the call sits in a loop and the buffer is obtained outside it: from the second iteration on the callee receives a wiped (all-zero) key"
			}
			// (2) used again afterwards (through the same SSA value, or through another load of the same field path)
			if detail == "" {
				var uses []ssa.Instruction
				if refs := v.Referrers(); refs != nil {
					uses = append(uses, *refs...)
				}
				if root, path := accessPath(v); path != "" {
					restored := false
					var aliases []ssa.Value
					for _, b := range fn.Blocks {
						for _, in := range b.Instrs {
							switch x := in.(type) {
							case *ssa.UnOp:
								if x != v {
									if r2, p2 := accessPath(x); r2 == root && p2 == path {
										aliases = append(aliases, x)
									}
								}
							case *ssa.Store:
								if fa, ok := x.Addr.(*ssa.FieldAddr); ok {
									if r2, p2 := accessPathAddr(fa); r2 == root && p2 == path {
										restored = true // the field is assigned in this function: not followed further
									}
								}
							}
						}
					}
					if !restored {
						for _, a := range aliases {
							if refs := a.Referrers(); refs != nil {
								uses = append(uses, *refs...)
							}
						}
					}
				}
				{
					for _, u := range uses {
						if u == ssa.Instruction(call) {
							continue
						}
						switch x := u.(type) {
						case *ssa.DebugRef, *ssa.Defer:
							continue
						case *ssa.Call:
							if sc := x.Common().StaticCallee(); sc != nil && w[sc] != nil && x != call {
								// a second wipe is harmless; a second consumer that also uses it is not: only pure wipers are exempt
								if sc.Name() == "ZeroizeBytes" || sc.Name() == "ZeroizeSymmetricKey" {
									continue
								}
							}
							if b, isB := x.Common().Value.(*ssa.Builtin); isB && (b.Name() == "len" || b.Name() == "cap") {
								continue
							}
						}
						if onErrorEdgeOf(call, u) {
							continue // the callee wipes on success only; this use runs when it failed
						}
						after := false
						// a path that re-executes the definition of the buffer (or of the object it is read from)
						// yields a new value: only paths avoiding that definition count
						root, _ := accessPath(v)
						avoidU := map[*ssa.BasicBlock]bool{}
						if in, ok := root.(ssa.Instruction); ok && in.Block() != cs.Block {
							avoidU[in.Block()] = true
						}
						if phi, isPhi := u.(*ssa.Phi); isPhi {
							// the value flows into a phi only along the edges that carry it
							for k, e := range phi.Edges {
								if ev, ok := e.(ssa.Instruction); !ok || !containsInstr(uses, ev, v) {
									continue
								}
								pred := phi.Block().Preds[k]
								if pred == cs.Block {
									after = true
								}
								for _, s := range cs.Block.Succs {
									if !avoidU[s] && !avoidU[pred] && (s == pred || reaches(s, pred, avoidU)) {
										after = true
									}
								}
							}
						} else if u.Block() == cs.Block {
							after = instrBefore(call, u) && u != ssa.Instruction(call)
						} else if !avoidU[u.Block()] {
							for _, s := range cs.Block.Succs {
								if avoidU[s] {
									continue
								}
								if s == u.Block() || reaches(s, u.Block(), avoidU) {
									after = true
								}
							}
						}
						if after {
							detail = "the buffer is used again at " + p.Pos(u.Pos()) + " after " + callee.Name() + " has overwritten it with zeros"
						}
					}
				}
			}
			report(site, detail == "", detail)
		}
	}
}

// accessPath: v = x.f1.f2 as a chain of loads of field addresses -> (x, "f1.f2"); otherwise (v, "").
func accessPath(v ssa.Value) (ssa.Value, string) {
	u, ok := v.(*ssa.UnOp)
	if !ok {
		return v, ""
	}
	fa, ok := u.X.(*ssa.FieldAddr)
	if !ok {
		return v, ""
	}
	return accessPathAddr(fa)
}

func accessPathAddr(fa *ssa.FieldAddr) (ssa.Value, string) {
	st, ok := fa.X.Type().Underlying().(*types.Pointer).Elem().Underlying().(*types.Struct)
	if !ok {
		return fa, ""
	}
	name := st.Field(fa.Field).Name()
	root, path := accessPath(fa.X)
	if path == "" {
		return root, name
	}
	return root, path + "." + name
}

// containsInstr: ev is the wiped value itself or one of its aliases (any value that has u among the collected uses).
func containsInstr(uses []ssa.Instruction, ev ssa.Instruction, v ssa.Value) bool {
	if val, ok := ev.(ssa.Value); ok {
		if val == v {
			return true
		}
		r1, p1 := accessPath(val)
		r2, p2 := accessPath(v)
		return p1 != "" && r1 == r2 && p1 == p2
	}
	return false
}

// ruleUseAfterWipe reports, for the call sites selected by sel, a buffer that is used after a callee wiped it.
func ruleUseAfterWipe(p *Program, r *Report, rule string, sel func(s wipeSite) bool) int {
	n := 0
	for _, fn := range p.srcFns {
		seen := map[string]int{}
		p.useAfterWipe(fn, func(s wipeSite, ok bool, d string) {
			if !sel(s) {
				return
			}
			n++
			argText := exprTextOf(p, s.Arg)
			if root, path := accessPath(s.Arg); path != "" {
				argText = exprTextOf(p, root) + "." + path
			}
			c := "buffer " + argText + " handed to " + s.Callee.Name()
			seen[c]++
			if seen[c] > 1 {
				c += " #" + itoa(seen[c])
			}
			r.Check(ok, rule, fnName(fn), c, p.Pos(s.Call.Pos()), "dead afterwards: not used again, not handed over again in a loop", d)
		})
	}
	return n
}

func itoa(i int) string {
	if i == 0 {
		return "0"
	}
	s := ""
	for i > 0 {
		s = string(rune('0'+i%10)) + s
		i /= 10
	}
	return s
}

// wipedOnSuccess: every normal return of fn that reports success (nil error, or any return when fn has no error
// result) is dominated by a call that hands prm to a wiping function.
func wipedOnSuccess(fn *ssa.Function, rets []*ssa.Return, prm *ssa.Parameter, w map[*ssa.Function]map[int]bool) bool {
	errIdx := -1
	res := fn.Signature.Results()
	for i := 0; i < res.Len(); i++ {
		if isErrorType(res.At(i).Type()) {
			errIdx = i
		}
	}
	var wipes []*ssa.BasicBlock
	for _, cs := range callsIn(fn) {
		call, ok := cs.Instr.(*ssa.Call)
		if !ok {
			continue
		}
		callee := call.Common().StaticCallee()
		if callee == nil || w[callee] == nil {
			continue
		}
		for i := range w[callee] {
			if i < len(call.Common().Args) && stripConv(call.Common().Args[i]) == ssa.Value(prm) {
				wipes = append(wipes, cs.Block)
			}
		}
	}
	n := 0
	for _, ret := range rets {
		if isRecoverBlock(ret.Block()) {
			continue
		}
		if errIdx >= 0 && !isNilConst(retValue(ret, errIdx)) {
			continue
		}
		n++
		ok := false
		for _, wb := range wipes {
			if wb.Dominates(ret.Block()) {
				ok = true
			}
		}
		if !ok {
			return false
		}
	}
	return n > 0
}

// onErrorEdgeOf: u is dominated by the err != nil edge of call's error result.
func onErrorEdgeOf(call *ssa.Call, u ssa.Instruction) bool {
	var errV ssa.Value
	if tup, ok := call.Type().(*types.Tuple); ok {
		for i := 0; i < tup.Len(); i++ {
			if isErrorType(tup.At(i).Type()) {
				if ex := extractOf(call, i); ex != nil {
					errV = ex
				}
			}
		}
	} else if isErrorType(call.Type()) {
		errV = call
	}
	if errV == nil {
		return false
	}
	for _, i := range allIfs(call.Parent()) {
		if _, nonNil, ok := nilBranches(i, errV); ok && nonNil.Dominates(u.Block()) {
			return true
		}
	}
	return false
}
