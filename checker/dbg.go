package main

import (
	"fmt"
	"go/types"
	"os"
	"strings"
)

func init() {
	register(&Property{ID: "DBG", Patterns: []string{"./..."}, Run: func(p *Program, r *Report) {
		for _, spec := range []string{"decryptor/mysql/base.LengthEncodedInt", "decryptor/mysql/base.LengthEncodedString", "acrastruct.ValidateAcraStructLength"} {
			fn := p.Func(spec)
			s := p.summaryOf(fn, 0)
			fmt.Fprintln(os.Stderr, spec, "nonNeg", s.nonNeg, "leLen", s.leLen, "lenLow", s.lenLow)
		}
	}})
}

func init() {
	register(&Property{ID: "DBG2", Patterns: []string{"./..."}, Run: func(p *Program, r *Report) {
		fn := p.Func("decryptor/mysql/base.LengthEncodedString")
		pr := newProverP(p, fn, 1)
		for _, b := range fn.Blocks {
			fmt.Fprintln(os.Stderr, "block", b.Index, b.Comment)
			for _, f := range pr.facts[b] {
				fmt.Fprintln(os.Stderr, "   ", f.x, "<=", f.y, "+", f.k)
			}
		}
		fn.WriteTo(os.Stderr)
	}})
}

func init() {
	register(&Property{ID: "DBG3", Patterns: []string{"./..."}, Run: func(p *Program, r *Report) {
		fn := p.Func("decryptor/mysql/base.LengthEncodedString")
		pr := newProverP(p, fn, 1)
		for _, ret := range returnsOf(fn) {
			rv := retValue(ret, 1)
			fmt.Fprintln(os.Stderr, "ret block", ret.Block().Index, rv.Name(), "nonneg", pr.Prove(nil, 0, rv, 0, ret.Block()), "lelen", pr.ProveLen(rv, 0, fn.Params[0], 0, ret.Block()), "errnil", isNilConst(retValue(ret, 2)))
		}
	}})
}

func init() {
	register(&Property{ID: "DBG4", Patterns: []string{"./..."}, Run: func(p *Program, r *Report) {
		fn := p.Func(os.Getenv("DBG_FN"))
		pr := newProverP(p, fn, 0)
		pr.constBounds = true
		pr.classV = os.Getenv("ACRAVERIFY_CLASSV") != ""
		traceProver = false
		vs := pr.CheckSinks(nil)
		for _, v := range vs {
			if !v.Proven {
				fmt.Fprintln(os.Stderr, "UNPROVEN", sinkText(p, v.Sink), v.Missing, p.Pos(v.Sink.Instr.Pos()))
			} else {
				fmt.Fprintln(os.Stderr, "proven", sinkText(p, v.Sink), v.Why, p.Pos(v.Sink.Instr.Pos()))
			}
		}
		if os.Getenv("DBG_TRACE_PROVEN") != "" {
			for _, v := range vs {
				if v.Proven && strings.HasSuffix(p.Pos(v.Sink.Instr.Pos()), ":"+os.Getenv("DBG_TRACE_PROVEN")) {
					traceProver = true
					fmt.Fprintln(os.Stderr, "== hi <= len", pr.ProveLen(v.Sink.Hi, 0, v.Sink.Container, 0, v.Sink.Instr.Block()))
					traceProver = false
				}
			}
		}
		if want := os.Getenv("DBG_LINE"); want != "" {
			for _, v := range vs {
				if !v.Proven && strings.HasSuffix(p.Pos(v.Sink.Instr.Pos()), ":"+want) {
					traceProver = true
					s := v.Sink
					blk := s.Instr.Block()
					switch {
					case s.Idx != nil:
						fmt.Fprintln(os.Stderr, "== 0 <= idx", pr.Prove(nil, 0, s.Idx, 0, blk))
						fmt.Fprintln(os.Stderr, "== idx < len", pr.ProveLen(s.Idx, 1, s.Container, 0, blk))
					case s.Lo != nil:
						fmt.Fprintln(os.Stderr, "== 0 <= lo", pr.Prove(nil, 0, s.Lo, 0, blk))
					}
					traceProver = false
					break
				}
			}
		}
	}})
}

func init() {
	register(&Property{ID: "DBG5", Patterns: []string{"./..."}, Run: func(p *Program, r *Report) {
		fn := p.Func(os.Getenv("DBG_FN"))
		pr := newProverP(p, fn, 0)
		for _, b := range fn.Blocks {
			fmt.Fprintln(os.Stderr, "block", b.Index, b.Comment, "preds", len(b.Preds))
			for _, f := range pr.facts[b] {
				fmt.Fprintln(os.Stderr, "   ", f.x, "<=", f.y, "+", f.k)
			}
		}
	}})
}

func init() {
	register(&Property{ID: "DBG6", Patterns: []string{"./..."}, Run: func(p *Program, r *Report) {
		fn := p.Func("keystore/v2/keystore.(*KeyBackuper).Export")
		for _, cs := range callsIn(fn) {
			if cs.Instr.Common().IsInvoke() && cs.Instr.Common().Method.Name() == "ExportKeyRings" {
				m := cs.Instr.Common().Method
				fmt.Fprintln(os.Stderr, "method", m.FullName(), "recv", m.Type().(*types.Signature).Recv().Type())
				fmt.Fprintln(os.Stderr, "impls", p.implementersOf(m))
				sc, _ := p.callSites()
				fmt.Fprintln(os.Stderr, "site callees", sc[cs.Instr])
			}
		}
	}})
}

func init() {
	register(&Property{ID: "DBGW", Patterns: []string{"./..."}, Run: func(p *Program, r *Report) {
		r.Rule("W", "E3", 0, "use after wipe (debug)")
		for fn, idx := range p.wipers() {
			r.Note("wiper %s %v", fnName(fn), idx)
		}
		for _, fn := range p.srcFns {
			p.useAfterWipe(fn, func(s wipeSite, ok bool, d string) {
				r.Check(ok, "W", fnName(fn), "buffer handed to "+s.Callee.Name(), p.Pos(s.Call.Pos()), "not used afterwards", d)
			})
		}
	}})
}

func init() {
	register(&Property{ID: "DBGS", Patterns: []string{"./..."}, Run: func(p *Program, r *Report) {
		r.Rule("S", "E3", 0, "swallowed errors (debug)")
		for _, pk := range []string{"keystore/filesystem", "keystore/v2/keystore/filesystem", "keystore/v2/keystore/filesystem/backend", "keystore/v2/keystore", "cmd/acra-rotate", "cmd/acra-keys/keys", "cmd/acra-backup", "keystore/filesystem/internal"} {
			for _, fn := range p.SrcFuncs(pk) {
				swallowedErrors(p, r, "S", fn)
			}
		}
	}})
}

func init() {
	register(&Property{ID: "DBG9", Patterns: []string{"./..."}, Run: func(p *Program, r *Report) {
		if fn := p.Func(os.Getenv("DBG_FN")); fn != nil {
			fn.WriteTo(os.Stderr)
		}
	}})
}

func init() {
	register(&Property{ID: "DBG10", Patterns: []string{"./..."}, Run: func(p *Program, r *Report) {
		a := newSQLAST(p, r, "DBG")
		inScope := a.reachable(p, schemaStatements)
		for _, tn := range a.named {
			st, printed, _, fmtDecl, _ := a.structFieldUse(tn)
			if st == nil || fmtDecl == nil {
				continue
			}
			for i := 0; i < st.NumFields(); i++ {
				f := st.Field(i)
				if b, ok := f.Type().Underlying().(*types.Basic); ok && b.Info()&types.IsString != 0 && printed[f] {
					fmt.Fprintln(os.Stderr, "STRFIELD", tn.Name()+"."+f.Name(), f.Type().String(), "inScope", inScope[tn])
				}
			}
		}
	}})
}
