package filesystem

// Demonstration (C06): destroying a client's storage symmetric key (or the poison symmetric key) in the v1 keystore
// with the key cache on (the default) purges the cache entry of the *private* key of the same name instead of the
// symmetric key's: the destroyed symmetric key is still handed out from the cache, and the untouched private key
// can no longer be read.
// Place in keystore/filesystem/ ; run: go test -run TestDemoDestroySymmetricKeyWithWarmCache ./keystore/filesystem/

import (
	"os"
	"testing"

	"github.com/cossacklabs/acra/keystore"
)

func TestDemoDestroySymmetricKeyWithWarmCache(t *testing.T) {
	keyEncryptor, err := keystore.NewSCellKeyEncryptor([]byte("some master key"))
	if err != nil {
		t.Fatal(err)
	}
	dir := t.TempDir()
	if err := os.Chmod(dir, 0700); err != nil {
		t.Fatal(err)
	}
	store, err := NewCustomFilesystemKeyStore().KeyDirectory(dir).Encryptor(keyEncryptor).Build()
	if err != nil {
		t.Fatal(err)
	}
	id := []byte("client")
	if err := store.GenerateDataEncryptionKeys(id); err != nil {
		t.Fatal(err)
	}
	if err := store.GenerateClientIDSymmetricKey(id); err != nil {
		t.Fatal(err)
	}
	// warm the cache
	if _, err := store.GetServerDecryptionPrivateKey(id); err != nil {
		t.Fatal(err)
	}
	if _, err := store.GetClientIDSymmetricKey(id); err != nil {
		t.Fatal(err)
	}
	if err := store.DestroyClientIDSymmetricKey(id); err != nil {
		t.Fatal(err)
	}
	if key, err := store.GetClientIDSymmetricKey(id); err == nil {
		t.Errorf("the destroyed symmetric key is still handed out (%d bytes)", len(key))
	}
	if key, err := store.GetServerDecryptionPrivateKey(id); err != nil || key == nil || len(key.Value) == 0 {
		t.Errorf("the storage private key, which was not destroyed, can no longer be read: key=%v err=%v", key, err)
	}
}
