package sqlparser

// Demonstration (C16): literals that the tree keeps as plain strings (group_concat separator, SHOW ... LIKE pattern)
// and the WHERE filter of SHOW were left as they are in the redacted form of the statement, which is what is logged.
// Place in sqlparser/ ; run: go test -run TestDemoRedactStringHeldLiterals ./sqlparser/

import (
	"strings"
	"testing"
)

func TestDemoRedactStringHeldLiterals(t *testing.T) {
	for _, q := range []string{
		"select group_concat(a separator 'SECRET-SEP') from t",
		"select group_concat(distinct a order by b separator 'SECRET-SEP') from t where c = 'x'",
		"insert into t2 select group_concat(a separator 'SECRET-SEP') from t",
		"show tables like 'SECRET-L'",
		"show tables where Tables_in_db = 'SECRET-W'",
		"show full tables from a where x = 'SECRET-W2' and y = 4242",
	} {
		red, err := RedactSQLQuery(q)
		if err != nil {
			t.Fatalf("%s: %v", q, err)
		}
		if strings.Contains(red, "SECRET") || strings.Contains(red, "4242") {
			t.Errorf("%s\n   redacted as %s", q, red)
		}
		if _, err := New(ModeStrict).Parse(red); err != nil {
			t.Errorf("%s: redacted form %s does not parse: %v", q, red, err)
		}
	}
}
