package filesystem

import (
	"os"
	"testing"
	"time"

	"github.com/cossacklabs/acra/keystore"
)

func TestDemoWarmCacheAfterRotationKeepsOldKeys(t *testing.T) {
	enc, err := keystore.NewSCellKeyEncryptor([]byte("some master key 0123456789abcdef"))
	if err != nil {
		t.Fatal(err)
	}
	dir := t.TempDir()
	os.Chmod(dir, 0700)
	store, err := NewCustomFilesystemKeyStore().KeyDirectory(dir).Encryptor(enc).CacheSize(keystore.InfiniteCacheSize).Build()
	if err != nil {
		t.Fatal(err)
	}
	id := []byte("client")
	if err := store.GenerateDataEncryptionKeys(id); err != nil {
		t.Fatal(err)
	}
	ks, err := store.GetServerDecryptionPrivateKeys(id) // warms the cache
	if err != nil || len(ks) != 1 {
		t.Fatal(err, len(ks))
	}
	old := append([]byte{}, ks[0].Value...)
	time.Sleep(1100 * time.Millisecond)
	if err := store.GenerateDataEncryptionKeys(id); err != nil { // rotate
		t.Fatal(err)
	}
	ks, err = store.GetServerDecryptionPrivateKeys(id)
	if err != nil {
		t.Fatal(err)
	}
	found := false
	for _, k := range ks {
		if string(k.Value) == string(old) {
			found = true
		}
	}
	if !found {
		t.Fatalf("after rotation with a warm cache the previous private key is no longer offered (%d keys)", len(ks))
	}
}
