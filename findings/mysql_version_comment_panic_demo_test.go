package sqlparser

import "testing"

func TestDemoMySQLVersionCommentDoesNotPanic(t *testing.T) {
	for _, q := range []string{"select 1 /*!*/", "select /*!12345*/ 1", "select /*!50708 sql_no_cache */ 1"} {
		func() {
			defer func() {
				if r := recover(); r != nil {
					t.Errorf("%q: the tokenizer panics: %v", q, r)
				}
			}()
			New(ModeDefault).Parse(q)
		}()
	}
}
