package sqlparser

// Demonstration (C13): the separator of group_concat and the LIKE pattern of SHOW are kept as plain Go strings and
// were printed between quotes without escaping: a quote inside them changes the statement (or breaks it) when Acra
// re-serialises it.
// Place in sqlparser/ ; run: go test -run TestDemoSeparatorAndShowLikeRoundTrip ./sqlparser/

import "testing"

func TestDemoSeparatorAndShowLikeRoundTrip(t *testing.T) {
	for _, q := range []string{
		"select group_concat(a separator 'it''s') from t",
		"select group_concat(a separator '\\'') from t",
		"select group_concat(a separator ''' or 1=1 -- ') from t",
		"show tables like 'a''b'",
	} {
		st, err := New(ModeStrict).Parse(q)
		if err != nil {
			t.Fatalf("%s: %v", q, err)
		}
		out := String(st)
		st2, err := New(ModeStrict).Parse(out)
		if err != nil {
			t.Errorf("%s\n   re-serialised as %s\n   which does not parse: %v", q, out, err)
			continue
		}
		if again := String(st2); again != out {
			t.Errorf("%s: printing is not stable: %s vs %s", q, out, again)
		}
	}
}
