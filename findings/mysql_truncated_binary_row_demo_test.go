package mysql

// Demonstration (C14): a binary-protocol result row that is shorter than its column types announce (cut by the
// server, a proxy in between, or a hostile server) makes the row decoder slice past the end of the packet.
// Place in decryptor/mysql/ ; run: go test -run TestDemoTruncatedBinaryRow ./decryptor/mysql/

import (
	"context"
	"testing"

	"github.com/sirupsen/logrus"

	"github.com/cossacklabs/acra/decryptor/base"
	base_mysql "github.com/cossacklabs/acra/decryptor/mysql/base"
)

func TestDemoTruncatedBinaryRow(t *testing.T) {
	logger := logrus.New()
	logger.SetLevel(logrus.PanicLevel)
	types := []base_mysql.Type{base_mysql.TypeTiny, base_mysql.TypeShort, base_mysql.TypeLong, base_mysql.TypeLongLong, base_mysql.TypeFloat, base_mysql.TypeDouble}
	for _, typ := range types {
		for _, row := range [][]byte{
			{0x00},             // header only: no null bitmap
			{0x00, 0x00},       // null bitmap, no value
			{0x00, 0x00, 0x01}, // one byte of a wider value
		} {
			if typ == base_mysql.TypeTiny && len(row) == 3 {
				continue // complete row for a one-byte column
			}
			fields := []*ColumnDescription{{Type: typ, originType: typ}}
			handler := &Handler{logger: logrus.NewEntry(logger), decryptionObserver: base.NewColumnDecryptionObserver()}
			ctx := base.SetAccessContextToContext(context.Background(), base.NewAccessContext())
			func() {
				defer func() {
					if r := recover(); r != nil {
						t.Errorf("column type %d, row % x: the row decoder panicked: %v", typ, row, r)
					}
				}()
				if _, err := handler.processBinaryDataRow(ctx, row, fields); err == nil {
					t.Errorf("column type %d, row % x: a truncated row was accepted", typ, row)
				}
			}()
		}
	}
}
