package decryptor

import (
	"context"
	"testing"

	"github.com/stretchr/testify/mock"

	"github.com/cossacklabs/acra/crypto"
	decryptor "github.com/cossacklabs/acra/decryptor/base"
	"github.com/cossacklabs/acra/decryptor/base/mocks"
	"github.com/cossacklabs/acra/encryptor/base/config"
	"github.com/cossacklabs/acra/encryptor/postgresql"
	mocks2 "github.com/cossacklabs/acra/keystore/mocks"
)

// A bound parameter of a searchable condition must be replaced by the hash of the value the client sent, once.
func TestDemoBoundValueHashedOnce(t *testing.T) {
	clientSession := &mocks.ClientSession{}
	sessionData := make(map[string]interface{}, 2)
	clientSession.On("GetData", mock.Anything).Return(func(key string) interface{} { return sessionData[key] }, func(key string) bool { _, ok := sessionData[key]; return ok })
	clientSession.On("DeleteData", mock.Anything).Run(func(args mock.Arguments) { delete(sessionData, args[0].(string)) })
	clientSession.On("SetData", mock.Anything, mock.Anything).Run(func(args mock.Arguments) { sessionData[args[0].(string)] = args[1] })
	schemaConfig := `schemas:
  - table: test_table
    columns:
      - data1
      - data2
      - data3
    encrypted:
      - column: data1
        searchable: true
      - column: data3
        searchable: true`
	schema, err := config.MapTableSchemaStoreFromConfig([]byte(schemaConfig), config.UseMySQL)
	if err != nil {
		t.Fatal(err)
	}
	ctx := decryptor.SetClientSessionToContext(context.Background(), clientSession)
	keyStore := &mocks2.ServerKeyStore{}
	keyStore.On("GetHMACSecretKey", mock.Anything).Return(func([]byte) []byte { return []byte(`some key`) }, nil)
	encryptor := NewHashQuery(keyStore, schema, crypto.NewRegistryHandler(nil))
	for _, query := range []string{
		"SELECT data2 FROM test_table WHERE data1=$1",
		"SELECT data2 FROM test_table WHERE data1=$1 OR data3=$1",
		"SELECT data2 FROM test_table WHERE data2 IN (SELECT data2 FROM test_table WHERE data1=$1)",
		"SELECT data2 FROM test_table WHERE data1=$1 AND (data2 = 'x' OR data3=$2)",
	} {
		source := []byte{0, 1, 2, 3}
		mk := func() (*mocks.BoundValue, *int) {
			cur := append([]byte{}, source...)
			sets := 0
			bv := &mocks.BoundValue{}
			bv.On("Format").Return(decryptor.TextFormat)
			bv.On("GetData", mock.Anything).Return(func(config.ColumnEncryptionSetting) []byte { return cur }, nil)
			bv.On("SetData", mock.MatchedBy(func(data []byte) bool { cur = data; sets++; return true }), mock.Anything).Return(nil)
			return bv, &sets
		}
		b1, n1 := mk()
		b2, n2 := mk()
		obj := postgresql.NewOnQueryObjectFromQuery(query)
		if _, _, err = encryptor.OnQuery(ctx, obj); err != nil {
			t.Fatal(err)
		}
		obj = postgresql.NewOnQueryObjectFromQuery(query)
		statement, err := obj.Statement()
		if err != nil {
			t.Fatal(err)
		}
		if _, _, err := encryptor.OnBind(ctx, statement, []decryptor.BoundValue{b1, b2}); err != nil {
			t.Fatal(err)
		}
		if *n1 != 1 {
			t.Errorf("%s: parameter $1 was rewritten %d times (hash of a hash)", query, *n1)
		}
		_ = n2
	}
}
