package filesystem

// Demonstration (C06): the v1 keystore destroys a rotated key by removing its file only. With the key cache on
// (the default) and the keys read before, the destroyed key is still handed out with "all keys", and when it had
// not been cached yet every "all keys" read of that client fails: the cached list still names the removed file.
// Place in keystore/filesystem/ ; run: go test -run TestDemoDestroyRotatedKeyWithWarmCache ./keystore/filesystem/

import (
	"os"
	"testing"
	"time"

	"github.com/cossacklabs/acra/keystore"
)

func TestDemoDestroyRotatedKeyWithWarmCache(t *testing.T) {
	for _, warmAfterLastRotation := range []bool{true, false} {
		keyEncryptor, err := keystore.NewSCellKeyEncryptor([]byte("some master key"))
		if err != nil {
			t.Fatal(err)
		}
		dir := t.TempDir()
		if err := os.Chmod(dir, 0700); err != nil {
			t.Fatal(err)
		}
		store, err := NewCustomFilesystemKeyStore().KeyDirectory(dir).Encryptor(keyEncryptor).Build()
		if err != nil {
			t.Fatal(err)
		}
		id := []byte("client")
		rotate := func() {
			if err := store.GenerateDataEncryptionKeys(id); err != nil {
				t.Fatal(err)
			}
			time.Sleep(1100 * time.Millisecond) // history files are named by the second
		}
		rotate()
		rotate()
		if _, err := store.GetServerDecryptionPrivateKeys(id); err != nil { // warm the cache
			t.Fatal(err)
		}
		rotate()
		if warmAfterLastRotation {
			if _, err := store.GetServerDecryptionPrivateKeys(id); err != nil {
				t.Fatal(err)
			}
		}
		before, err := store.GetServerDecryptionPrivateKeys(id)
		if warmAfterLastRotation && (err != nil || len(before) != 3) {
			t.Fatalf("expected 3 keys, got %d (%v)", len(before), err)
		}
		// destroy the newest rotated key (index 2 in the listing: 1 is the current key)
		if err := store.DestroyRotatedClientIDEncryptionKeyPair(id, 2); err != nil {
			t.Fatal(err)
		}
		after, err := store.GetServerDecryptionPrivateKeys(id)
		if err != nil {
			t.Errorf("warm=%v: after destroying one rotated key the client's keys cannot be read at all: %v", warmAfterLastRotation, err)
			continue
		}
		if len(after) != 2 {
			t.Errorf("warm=%v: %d keys are handed out after one of 3 was destroyed", warmAfterLastRotation, len(after))
		}
	}
}
