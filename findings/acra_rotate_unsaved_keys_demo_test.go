package main

import (
	"errors"
	"os"
	"path/filepath"
	"testing"

	"github.com/cossacklabs/themis/gothemis/keys"

	"github.com/cossacklabs/acra/acrastruct"
	"github.com/cossacklabs/acra/crypto"
	"github.com/cossacklabs/acra/keystore"
	"github.com/cossacklabs/acra/keystore/filesystem"
)

type demoFailingSaveKeyStore struct {
	*filesystem.KeyStore
}

func (s demoFailingSaveKeyStore) SaveDataEncryptionKeys(id []byte, keypair *keys.Keypair) error {
	return errors.New("injected: key directory is read-only")
}

// If the new keys cannot be saved after the data files were rewritten, the tool must not report success.
func TestDemoRotateFilesReportsUnsavedKeys(t *testing.T) {
	dir := t.TempDir()
	os.Chmod(dir, 0700)
	encryptor, err := keystore.NewSCellKeyEncryptor([]byte("some key"))
	if err != nil {
		t.Fatal(err)
	}
	store, err := filesystem.NewCustomFilesystemKeyStore().KeyDirectory(dir).Encryptor(encryptor).Build()
	if err != nil {
		t.Fatal(err)
	}
	crypto.InitRegistry(store)
	id := []byte("alice")
	if err := store.GenerateDataEncryptionKeys(id); err != nil {
		t.Fatal(err)
	}
	pub, err := store.GetClientIDEncryptionPublicKey(id)
	if err != nil {
		t.Fatal(err)
	}
	as, err := acrastruct.CreateAcrastruct([]byte("payload"), pub, nil)
	if err != nil {
		t.Fatal(err)
	}
	file := filepath.Join(t.TempDir(), "data.acrastruct")
	if err := os.WriteFile(file, as, 0600); err != nil {
		t.Fatal(err)
	}
	_, err = rotateFiles(KeyIDFileMap{"alice": []string{file}}, demoFailingSaveKeyStore{store}, false)
	if err == nil {
		// the file is now encrypted with a key pair that exists nowhere
		priv, _ := store.GetServerDecryptionPrivateKeys(id)
		after, _ := os.ReadFile(file)
		_, derr := acrastruct.DecryptRotatedAcrastruct(after, priv, nil)
		t.Errorf("rotateFiles reported success although the new keys were not saved (file still decryptable with stored keys: %v)", derr == nil)
	}
}
