package sqlparser

// Demonstration (C13): MySQL "PREPARE name FROM '<statement>'" was printed with the inner statement between quotes
// as it is; any string literal inside it ends the outer literal, so the statement Acra sends after rewriting the
// inner one (encrypting its literals) no longer parses.
// Place in sqlparser/ ; run: go test -run TestDemoPrepareRoundTrip ./sqlparser/

import "testing"

func TestDemoPrepareRoundTrip(t *testing.T) {
	for _, q := range []string{
		"prepare s from 'select a from t where b = ''x'''",
		"prepare s from 'insert into t (a) values (''x'')'",
		"prepare s from \"select a from t where b = 'x'\"",
		"prepare s from 'select 1'",
		"prepare s from @variable",
	} {
		st, err := New(ModeStrict).Parse(q)
		if err != nil {
			t.Fatalf("%s: %v", q, err)
		}
		out := String(st)
		st2, err := New(ModeStrict).Parse(out)
		if err != nil {
			t.Errorf("%s\n   re-serialised as %s\n   which does not parse: %v", q, out, err)
			continue
		}
		if again := String(st2); again != out {
			t.Errorf("%s: printing is not stable: %s vs %s", q, out, again)
		}
	}
}
