package filesystem

import (
	"strings"
	"testing"
	"time"

	"github.com/cossacklabs/acra/keystore/v2/keystore/api"
)

// A '<ring>.keyring.new' left by a process that died between writing the new ring state and renaming it over
// the current one must not block later writes to that ring, nor show up in listings.
func TestDemoLeftoverNewRingFileDoesNotBlockWrites(t *testing.T) {
	for name, mk := range map[string]func(*testing.T) api.MutableKeyStore{"memory": newInMemoryKeyStore, "directory": testFilesystemKeyStore} {
		store := mk(t)
		ring, err := store.OpenKeyRingRW("client/alice/storage-sym")
		if err != nil {
			t.Fatal(err)
		}
		add := func() error {
			_, err := ring.AddKey(api.KeyDescription{ValidSince: time.Now(), ValidUntil: time.Now().Add(time.Hour),
				Data: []api.KeyData{{Format: api.ThemisSymmetricKeyFormat, SymmetricKey: []byte{1, 2, 3, 4}}}})
			return err
		}
		if err := add(); err != nil {
			t.Fatal(err)
		}
		// crash residue
		if err := store.(*KeyStore).fs.Put("client/alice/storage-sym.keyring.new", []byte("half-written ring")); err != nil {
			t.Fatal(err)
		}
		if err := add(); err != nil {
			t.Errorf("%s: write to the ring after an interrupted update: %v", name, err)
		}
		rings, err := store.ListKeyRings()
		if err != nil {
			t.Errorf("%s: listing: %v", name, err)
		}
		for _, r := range rings {
			if strings.Contains(r, ".new") || strings.Contains(r, ".stale") {
				t.Errorf("%s: listing offers the temporary file as a key ring: %q", name, r)
			}
		}
	}
}
