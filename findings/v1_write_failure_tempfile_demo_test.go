package filesystem

import (
	"errors"
	"os"
	"path/filepath"
	"testing"

	"github.com/cossacklabs/acra/keystore"
)

type demoFailingStorage struct {
	FileStorage
	failRename bool
}

func (s *demoFailingStorage) Rename(oldpath, newpath string) error {
	if s.failRename {
		return errors.New("injected: rename failed")
	}
	return s.FileStorage.Rename(oldpath, newpath)
}

func demoStore(t *testing.T, dir string, st Storage) *KeyStore {
	encryptor, err := keystore.NewSCellKeyEncryptor([]byte("some key"))
	if err != nil {
		t.Fatal(err)
	}
	store, err := NewCustomFilesystemKeyStore().KeyDirectory(dir).Encryptor(encryptor).Storage(st).Build()
	if err != nil {
		t.Fatal(err)
	}
	return store
}

// A storage call that fails during a key write must leave nothing behind, and the keystore keeps listing.
func TestDemoFailedWriteLeavesNoTemporaryFile(t *testing.T) {
	dir := t.TempDir()
	os.Chmod(dir, 0700)
	st := &demoFailingStorage{}
	store := demoStore(t, dir, st)
	if err := store.GenerateClientIDSymmetricKey([]byte("alice")); err != nil {
		t.Fatal(err)
	}
	before, _ := os.ReadDir(dir)
	st.failRename = true
	if err := store.GenerateClientIDSymmetricKey([]byte("alice")); err == nil {
		t.Fatal("rotation should have failed")
	}
	st.failRename = false
	after, _ := os.ReadDir(dir)
	var extra []string
	for _, e := range after {
		found := false
		for _, b := range before {
			if b.Name() == e.Name() {
				found = true
			}
		}
		if !found && !e.IsDir() {
			extra = append(extra, e.Name())
		}
	}
	if len(extra) != 0 {
		t.Errorf("failed write left files behind: %v", extra)
	}
	if _, err := store.ListKeys(); err != nil {
		t.Errorf("listing after a failed write: %v", err)
	}
	if err := store.CacheOnStart(); err != nil {
		t.Errorf("cache warm-up after a failed write: %v", err)
	}
}

// A temporary file left by a process that died during a write must not break listing and warm-up.
func TestDemoLeftoverTemporaryFileDoesNotBreakListing(t *testing.T) {
	dir := t.TempDir()
	os.Chmod(dir, 0700)
	store := demoStore(t, dir, &FileStorage{})
	if err := store.GenerateClientIDSymmetricKey([]byte("alice")); err != nil {
		t.Fatal(err)
	}
	// what FileStorage.TempFile creates for alice_storage_sym before the rename
	if err := os.WriteFile(filepath.Join(dir, "alice_storage_sym1234567890"), []byte("partial"), 0600); err != nil {
		t.Fatal(err)
	}
	keys, err := store.ListKeys()
	if err != nil {
		t.Fatalf("listing with a leftover temporary file: %v", err)
	}
	if len(keys) != 1 {
		t.Errorf("expected the one real key, got %d entries", len(keys))
	}
	if err := store.CacheOnStart(); err != nil {
		t.Errorf("cache warm-up with a leftover temporary file: %v", err)
	}
	if _, err := store.GetClientIDSymmetricKey([]byte("alice")); err != nil {
		t.Errorf("reading the key: %v", err)
	}
}
