package acrablock

import (
	"encoding/binary"
	"testing"
)

// C03/C14 demo: attacker-chosen length fields of the symmetric envelope must be rejected, not indexed with.
func TestDemoAcraBlockLengthFields(t *testing.T) {
	block, err := CreateAcraBlock([]byte("some data"), []byte("some key"), nil)
	if err != nil {
		t.Fatal(err)
	}
	run := func(name string, f func()) {
		defer func() {
			if r := recover(); r != nil {
				t.Errorf("%s: panic: %v", name, r)
			}
		}()
		f()
	}
	// 1. key-length field larger than the block
	b1 := append([]byte{}, block...)
	binary.LittleEndian.PutUint16(b1[DataEncryptionKeyLengthPosition:], 0xffff)
	run("key length 0xffff", func() {
		if _, err := AcraBlock(b1).Decrypt([][]byte{[]byte("some key")}, nil); err == nil {
			t.Error("expected error")
		}
	})
	// 2. rest-length field >= 2^63 (negative after int conversion)
	b2 := append([]byte{}, block...)
	binary.LittleEndian.PutUint64(b2[RestAcraBlockLengthPosition:], 1<<63+5)
	run("rest length 2^63+5", func() {
		if _, _, err := ExtractAcraBlockFromData(b2); err == nil {
			t.Error("expected error")
		}
	})
	// 3. rest-length 2^64-4 wraps to a zero-length "valid" block, which Decrypt then indexes
	b3 := append([]byte{}, block...)
	binary.LittleEndian.PutUint64(b3[RestAcraBlockLengthPosition:], ^uint64(0)-3)
	run("rest length 2^64-4", func() {
		n, blk, err := ExtractAcraBlockFromData(b3)
		if err == nil {
			t.Errorf("accepted, n=%d len=%d", n, len(blk))
			blk.Decrypt([][]byte{[]byte("some key")}, nil)
		}
	})
	// 4. rest length smaller than the header: accepted short block is then indexed by Decrypt
	b4 := append([]byte{}, block[:AcraBlockMinSize]...)
	binary.LittleEndian.PutUint64(b4[RestAcraBlockLengthPosition:], 2)
	run("rest length 2", func() {
		if _, blk, err := ExtractAcraBlockFromData(b4); err == nil {
			blk.Decrypt([][]byte{[]byte("some key")}, nil)
			t.Errorf("accepted a %d-byte block", len(blk))
		}
	})
}
