package filesystem

import (
	"bytes"
	"os"
	"testing"

	"github.com/cossacklabs/acra/keystore"
)

// A v1 keystore that holds poison record keys (symmetric, and a rotated key pair) must export as a whole and
// import with identical values.
func TestDemoExportAllWithPoisonKeys(t *testing.T) {
	mk := func() (string, *KeyStore, keystore.KeyEncryptor) {
		dir := t.TempDir()
		os.Chmod(dir, 0700)
		encryptor, err := keystore.NewSCellKeyEncryptor([]byte("some key"))
		if err != nil {
			t.Fatal(err)
		}
		store, err := NewCustomFilesystemKeyStore().KeyDirectory(dir).Encryptor(encryptor).Build()
		if err != nil {
			t.Fatal(err)
		}
		return dir, store, encryptor
	}
	for _, tc := range []struct {
		name  string
		setup func(*KeyStore) error
	}{
		{"poison symmetric key", func(s *KeyStore) error { return s.GeneratePoisonSymmetricKey() }},
		{"rotated poison key pair", func(s *KeyStore) error {
			if err := s.GeneratePoisonKeyPair(); err != nil {
				return err
			}
			return s.GeneratePoisonKeyPair()
		}},
	} {
		srcDir, src, enc := mk()
		if err := tc.setup(src); err != nil {
			t.Fatal(err)
		}
		exporter, err := NewKeyBackuper(srcDir, srcDir, &DummyStorage{}, enc, src)
		if err != nil {
			t.Fatal(err)
		}
		backup, err := exporter.Export(nil, keystore.ExportAllKeys)
		if err != nil {
			t.Errorf("%s: export of the whole keystore: %v", tc.name, err)
			continue
		}
		dstDir, dst, enc2 := mk()
		importer, _ := NewKeyBackuper(dstDir, dstDir, &DummyStorage{}, enc2, dst)
		if _, err := importer.Import(backup); err != nil {
			t.Errorf("%s: import: %v", tc.name, err)
			continue
		}
		if tc.name == "poison symmetric key" {
			a, _ := src.GetPoisonSymmetricKey()
			b, err := dst.GetPoisonSymmetricKey()
			if err != nil || !bytes.Equal(a, b) {
				t.Errorf("%s: imported key differs or unreadable: %v", tc.name, err)
			}
		} else {
			a, _ := src.GetPoisonPrivateKeys()
			b, err := dst.GetPoisonPrivateKeys()
			if err != nil || len(a) != len(b) {
				t.Errorf("%s: imported history differs: %d vs %d (%v)", tc.name, len(a), len(b), err)
			}
		}
	}
}
