package postgresql

import (
	"bytes"
	"context"
	"regexp"
	"strings"
	"testing"

	"github.com/jackc/pgx/v5/pgproto3"
	"github.com/sirupsen/logrus"

	acracensor "github.com/cossacklabs/acra/acra-censor"
	"github.com/cossacklabs/acra/cmd/acra-server/common"
	"github.com/cossacklabs/acra/crypto"
	"github.com/cossacklabs/acra/decryptor/base"
	"github.com/cossacklabs/acra/encryptor/base/config"
	"github.com/cossacklabs/acra/poison"
	"github.com/cossacklabs/acra/pseudonymization"
	"github.com/cossacklabs/acra/pseudonymization/storage"
	"github.com/cossacklabs/acra/sqlparser"
	testkeystore "github.com/cossacklabs/acra/utils/tests/keystore"
)

// Demonstration (C09): an empty value written to a searchable column is stored as it is (the write path leaves
// empty data alone: no envelope, no blind index), but a search for the empty value compares the 33-byte prefix of the
// column with the HMAC of the empty string: the rows that hold the empty value are not selected.
// Place in decryptor/postgresql/ ; run: go test -run TestDemoSearchForEmptyValue ./decryptor/postgresql/

// demoHarness drives one AcraServer PostgreSQL session without sockets: every client message goes through
// handleClientPacket and what would be written to the database is returned; every database message goes through
// handleDatabasePacket and what would be written to the application is returned.
type demoHarness struct {
	t      *testing.T
	proxy  *PgProxy
	ctx    context.Context
	logger *logrus.Entry
}

func newDemoHarness(t *testing.T, schemaYAML string) *demoHarness {
	clientID := []byte("demo_client")
	schemaStore, err := config.MapTableSchemaStoreFromConfig([]byte(schemaYAML), config.UsePostgreSQL)
	if err != nil {
		t.Fatal(err)
	}
	keyStore := testkeystore.GetNewDefaultKeystoreV1(t)
	if err = keyStore.GenerateClientIDSymmetricKey(clientID); err != nil {
		t.Fatal(err)
	}
	if err = keyStore.GenerateDataEncryptionKeys(clientID); err != nil {
		t.Fatal(err)
	}
	if err = keyStore.GenerateHmacKey(clientID); err != nil {
		t.Fatal(err)
	}
	if err = crypto.InitRegistry(keyStore); err != nil {
		t.Fatal(err)
	}
	tokenStorage, err := storage.NewMemoryTokenStorage()
	if err != nil {
		t.Fatal(err)
	}
	tokenizer, err := pseudonymization.NewPseudoanonymizer(tokenStorage)
	if err != nil {
		t.Fatal(err)
	}
	parser := sqlparser.New(sqlparser.ModeDefault)
	setting := base.NewProxySetting(parser, schemaStore, keyStore, nil, acracensor.NewAcraCensor(), poison.NewCallbackStorage())
	factory, err := NewProxyFactory(setting, keyStore, tokenizer)
	if err != nil {
		t.Fatal(err)
	}
	session, err := common.NewClientSession(context.Background(), nil, nil)
	if err != nil {
		t.Fatal(err)
	}
	proxyI, err := factory.New(clientID, session)
	if err != nil {
		t.Fatal(err)
	}
	accessContext := base.NewAccessContext(base.WithClientID(clientID))
	ctx := base.SetAccessContextToContext(session.Context(), accessContext)
	logger := logrus.New()
	logger.SetLevel(logrus.PanicLevel)
	return &demoHarness{t: t, proxy: proxyI.(*PgProxy), ctx: ctx, logger: logrus.NewEntry(logger)}
}

// fromClient passes one frontend message through the proxy and returns the bytes forwarded to the database.
func (h *demoHarness) fromClient(msg pgproto3.FrontendMessage) []byte {
	raw, err := msg.Encode(nil)
	if err != nil {
		h.t.Fatal(err)
	}
	packet, err := NewClientSidePacketHandler(bytes.NewReader(raw), nil, h.logger)
	if err != nil {
		h.t.Fatal(err)
	}
	packet.started = true
	if err = packet.ReadClientPacket(); err != nil {
		h.t.Fatal(err)
	}
	censored, err := h.proxy.handleClientPacket(h.ctx, packet, h.logger)
	if err != nil {
		h.t.Fatal(err)
	}
	if censored {
		h.t.Fatal("unexpectedly censored")
	}
	out, err := packet.Marshal()
	if err != nil {
		h.t.Fatal(err)
	}
	return out
}

// fromDB passes one backend message through the proxy and returns the bytes forwarded to the application.
func (h *demoHarness) fromDB(msg pgproto3.BackendMessage) []byte {
	raw, err := msg.Encode(nil)
	if err != nil {
		h.t.Fatal(err)
	}
	packet, err := NewDbSidePacketHandler(bytes.NewReader(raw), nil, h.logger)
	if err != nil {
		h.t.Fatal(err)
	}
	if err = packet.ReadPacket(); err != nil {
		h.t.Fatal(err)
	}
	if err = h.proxy.handleDatabasePacket(h.ctx, packet, h.logger); err != nil {
		h.t.Fatal(err)
	}
	out, err := packet.Marshal()
	if err != nil {
		h.t.Fatal(err)
	}
	return out
}

var demoLiteral = regexp.MustCompile(`'((?:[^']|'')*)'`)

func TestDemoSearchForEmptyValue(t *testing.T) {
	h := newDemoHarness(t, `
schemas:
  - table: t
    columns: [id, data]
    encrypted:
      - column: data
        searchable: true
`)
	for _, value := range []string{"", "x"} {
		insert := string(h.fromClient(&pgproto3.Query{String: "insert into t (id, data) values (1, '" + value + "')"}))
		m := demoLiteral.FindStringSubmatch(insert)
		if m == nil {
			t.Fatalf("no literal in %q", insert)
		}
		stored := m[1] // what the database stores for this value
		sel := string(h.fromClient(&pgproto3.Query{String: "select id from t where data = '" + value + "'"}))
		m = demoLiteral.FindStringSubmatch(sel)
		if m == nil {
			t.Fatalf("no literal in %q", sel)
		}
		searched := m[1]
		// the rewritten condition is substr(data, 1, 33) = <searched>; hex bytea literals: x + 2 digits per byte
		norm := func(lit string) string {
			lit = strings.TrimLeft(lit, "\\")
			if lit == "x" {
				return "" // the hex form of an empty byte string
			}
			return lit
		}
		prefix, searched := norm(stored), norm(searched)
		if len(prefix) > 1+66 && prefix[0] == 'x' {
			prefix = prefix[:1+66]
		}
		if prefix != searched {
			t.Errorf("value %q: stored as %.20q..., searched with %.20q...: the row that holds the value is not selected", value, stored, searched)
		}
	}
}
