package hmac

import (
	"bytes"
	"context"
	"testing"

	"github.com/cossacklabs/acra/crypto"
	"github.com/cossacklabs/acra/decryptor/base"
	"github.com/cossacklabs/acra/keystore/mocks"
)

func TestDemoHashLookingPlaintextPanicsNextColumn(t *testing.T) {
	if err := crypto.InitRegistry(nil); err != nil {
		t.Fatal(err)
	}
	owner := []byte("owner client")
	clone := func(b []byte) []byte { return append([]byte{}, b...) }
	sym, hk := []byte("owner symmetric key"), []byte("owner hmac key")
	keyStore := &mocks.ServerKeyStore{}
	keyStore.On("GetClientIDSymmetricKey", owner).Return(func(id []byte) []byte { return clone(sym) }, nil)
	keyStore.On("GetClientIDSymmetricKeys", owner).Return(func(id []byte) [][]byte { return [][]byte{clone(sym)} }, nil)
	keyStore.On("GetHMACSecretKey", owner).Return(func(id []byte) []byte { return clone(hk) }, nil)
	registry := crypto.NewRegistryHandler(keyStore)
	blockHandler, _ := crypto.GetHandlerByEnvelopeID(crypto.AcraBlockEnvelopeID)
	protect := func(plaintext []byte) []byte {
		container, err := registry.EncryptWithHandler(blockHandler, owner, plaintext)
		if err != nil {
			t.Fatal(err)
		}
		return append(GenerateHMAC(clone(hk), plaintext), container...)
	}
	hmacProcessor := NewHMACProcessor(keyStore)
	envelopeDetector := crypto.NewEnvelopeDetector()
	containerDetector := crypto.NewOldContainerDetectorWrapper(envelopeDetector)
	envelopeDetector.AddCallback(crypto.NewDecryptHandler(keyStore, registry))
	subscribers := []base.DecryptionSubscriber{hmacProcessor, containerDetector, hmacProcessor}
	reveal := func(column []byte) []byte {
		ctx := base.SetAccessContextToContext(context.Background(), base.NewAccessContext(base.WithClientID(owner)))
		out := clone(column)
		for _, s := range subscribers {
			var err error
			if ctx, out, err = s.OnColumn(ctx, out); err != nil {
				t.Fatal(err)
			}
		}
		return out
	}
	// plaintext that looks like "hash id + 32 bytes + something"
	tricky := append([]byte{GenerateHMAC(clone(hk), []byte("x"))[0]}, bytes.Repeat([]byte("A"), 40)...)
	if out := reveal(protect(tricky)); !bytes.Equal(out, tricky) {
		t.Fatalf("tricky value not revealed: %q", out)
	}
	// next column of the same session
	next := []byte("ordinary value")
	if out := reveal(protect(next)); !bytes.Equal(out, next) {
		t.Fatalf("next value not revealed")
	}
}
