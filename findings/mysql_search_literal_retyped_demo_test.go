package decryptor

import (
	"bytes"
	"context"
	"encoding/hex"
	"testing"

	"github.com/stretchr/testify/mock"

	"github.com/cossacklabs/acra/crypto"
	"github.com/cossacklabs/acra/decryptor/base"
	"github.com/cossacklabs/acra/decryptor/base/mocks"
	"github.com/cossacklabs/acra/encryptor/base/config"
	"github.com/cossacklabs/acra/encryptor/mysql"
	acrahmac "github.com/cossacklabs/acra/hmac"
	mocks2 "github.com/cossacklabs/acra/keystore/mocks"
	"github.com/cossacklabs/acra/sqlparser"
)

// The blind index put into a rewritten condition must be the index of the value the literal denotes:
// the same bytes the INSERT path (encryptor/mysql.DBDataCoder.Decode on the untouched literal) would store.
func TestDemoSearchLiteralHashedAsWritten(t *testing.T) {
	clientSession := &mocks.ClientSession{}
	sessionData := make(map[string]interface{}, 2)
	clientSession.On("GetData", mock.Anything).Return(func(key string) interface{} { return sessionData[key] }, func(key string) bool { _, ok := sessionData[key]; return ok })
	clientSession.On("DeleteData", mock.Anything).Run(func(args mock.Arguments) { delete(sessionData, args[0].(string)) })
	clientSession.On("SetData", mock.Anything, mock.Anything).Run(func(args mock.Arguments) { sessionData[args[0].(string)] = args[1] })
	schema, err := config.MapTableSchemaStoreFromConfig([]byte(`schemas:
  - table: test_table
    columns:
      - data1
      - data2
    encrypted:
      - column: data1
        searchable: true`), config.UseMySQL)
	if err != nil {
		t.Fatal(err)
	}
	ctx := base.SetClientSessionToContext(context.Background(), clientSession)
	parser := sqlparser.New(sqlparser.ModeDefault)
	keyStore := &mocks2.ServerKeyStore{}
	keyStore.On("GetHMACSecretKey", mock.Anything).Return(func([]byte) []byte { return []byte(`some key`) }, nil)
	encryptor := NewHashQuery(keyStore, schema, crypto.NewRegistryHandler(nil))
	coder := &mysql.DBDataCoder{}
	for _, literal := range []string{"'alice'", "X'616c696365'", "'0xabcd'"} {
		// what the INSERT path stores an index for
		insStmt, err := parser.Parse("insert into test_table (data1) values (" + literal + ")")
		if err != nil {
			t.Fatal(err)
		}
		val := insStmt.(*sqlparser.Insert).Rows.(sqlparser.Values)[0][0]
		written, err := coder.Decode(val, nil)
		if err != nil {
			t.Fatal(err)
		}
		want := acrahmac.GenerateHMAC([]byte(`some key`), written)
		// what the search is rewritten to
		obj := mysql.NewOnQueryObjectFromQuery("select data2 from test_table where data1 = "+literal, parser)
		obj, _, err = encryptor.OnQuery(ctx, obj)
		if err != nil {
			t.Fatal(err)
		}
		stmt, _ := obj.Statement()
		cmp := stmt.(*sqlparser.Select).Where.Expr.(*sqlparser.ComparisonExpr)
		right := cmp.Right.(*sqlparser.SQLVal)
		got, err := hex.DecodeString(string(bytes.TrimPrefix(right.Val, []byte("0x"))))
		if err != nil {
			got = right.Val
		}
		if !bytes.Equal(got, want) {
			t.Errorf("literal %s: the condition searches for the index of other bytes than an INSERT of the same literal stores (%q); right=%d %q", literal, written, right.Type, right.Val)
		}
	}
}
