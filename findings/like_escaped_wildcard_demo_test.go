package sqlparser

// Demonstration (C13): the tokenizer dropped the backslash of \% and \_ in string literals. MySQL keeps it (the two
// sequences stand for a literal % or _ in a LIKE pattern), so `like 'x\%'` (values equal to "x%") was re-serialised
// as `like 'x%'` (values starting with x) whenever Acra rewrote the statement.
// Place in sqlparser/ ; run: go test -run TestDemoEscapedWildcardSurvives ./sqlparser/

import (
	"strings"
	"testing"
)

func TestDemoEscapedWildcardSurvives(t *testing.T) {
	for _, c := range []struct{ in, mustContain string }{
		{`select a from t where b like 'x\%'`, `'x\\%'`},
		{`select a from t where b like 'x\_y' and c = 1`, `'x\\_y'`},
		{`select a from t where b like '100\%' escape '\\'`, `'100\\%'`},
	} {
		st, err := New(ModeStrict).Parse(c.in)
		if err != nil {
			t.Fatal(err)
		}
		out := String(st)
		if !strings.Contains(out, c.mustContain) {
			t.Errorf("%s\n   re-serialised as %s\n   the escaped wildcard became a wildcard (want the pattern %s)", c.in, out, c.mustContain)
		}
		st2, err := New(ModeStrict).Parse(out)
		if err != nil || String(st2) != out {
			t.Errorf("%s: printing is not stable: %s / %v", c.in, out, err)
		}
	}
}
