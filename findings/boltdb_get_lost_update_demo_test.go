package storage

// Demonstration (C10): boltdbStorage.Get reads a token in a read-only transaction and, when the access time is
// due for an update, writes the whole record back in a second transaction without looking again. Maintenance
// (acra-tokens disable/remove) that commits between the two is undone: a disabled token is enabled again, a
// removed token is back in the store.
// Place in pseudonymization/storage/ ; run: go test -run TestDemoBoltGetUndoesDisable ./pseudonymization/storage/

import (
	"os"
	"sync"
	"sync/atomic"
	"testing"

	"github.com/cossacklabs/acra/pseudonymization/common"
	bolt "go.etcd.io/bbolt"
)

func TestDemoBoltGetUndoesDisable(t *testing.T) {
	f, err := os.CreateTemp("", "demo-bolt")
	if err != nil {
		t.Fatal(err)
	}
	f.Close()
	defer os.Remove(f.Name())
	db, err := bolt.Open(f.Name(), 0600, &bolt.Options{NoSync: true})
	if err != nil {
		t.Fatal(err)
	}
	defer db.Close()
	st := NewBoltDBTokenStorage(db)
	st.SetAccessTimeGranularity(0) // every Get refreshes the access time
	ctx := common.TokenContext{ClientID: []byte("client")}
	id := []byte("token-id")
	if err := st.Save(id, ctx, []byte("original value")); err != nil {
		t.Fatal(err)
	}
	set := func(a common.TokenAction) {
		if err := st.VisitMetadata(func(int, common.TokenMetadata) (common.TokenAction, error) { return a, nil }); err != nil {
			t.Fatal(err)
		}
	}
	for round := 0; round < 3000; round++ {
		set(common.TokenEnable)
		var stop int32
		var wg sync.WaitGroup
		for g := 0; g < 4; g++ {
			wg.Add(1)
			go func() {
				defer wg.Done()
				for atomic.LoadInt32(&stop) == 0 {
					st.Get(id, ctx)
				}
			}()
		}
		set(common.TokenDisable) // committed when this returns
		atomic.StoreInt32(&stop, 1)
		wg.Wait()
		md, err := st.Stat(id, ctx)
		if err != nil {
			t.Fatal(err)
		}
		if !md.Disabled {
			t.Fatalf("round %d: the token was disabled, concurrent Get calls finished, and the token is enabled again", round)
		}
	}
}
