package crypto

// Demonstration (C17/C07): the v2 keystore's signature algorithm keeps one HMAC state in the object and every
// Sign/Verify resets and feeds it. The keystore shares that object between all readers (key rings are read under a
// shared lock), so two connections that open key rings at the same time interleave their Reset/Write/Sum sequences:
// an untouched, correctly signed ring is reported as tampered (or a wrong signature is written).
// Place in keystore/v2/keystore/crypto/ ; run: go test -run TestDemoConcurrentVerify ./keystore/v2/keystore/crypto/

import (
	"sync"
	"sync/atomic"
	"testing"
)

func TestDemoConcurrentVerify(t *testing.T) {
	signer, err := NewSignSha256([]byte("signature key"))
	if err != nil {
		t.Fatal(err)
	}
	type ring struct{ data, context, signature []byte }
	rings := make([]ring, 8)
	for i := range rings {
		rings[i].data = make([]byte, 4096)
		for j := range rings[i].data {
			rings[i].data[j] = byte(i)
		}
		rings[i].context = []byte{byte('a' + i)}
		rings[i].signature = signer.Sign(rings[i].data, rings[i].context)
	}
	var failures int64
	var wg sync.WaitGroup
	for i := range rings {
		wg.Add(1)
		go func(r ring) {
			defer wg.Done()
			for n := 0; n < 2000; n++ {
				if !signer.Verify(r.signature, r.data, r.context) {
					atomic.AddInt64(&failures, 1)
				}
			}
		}(rings[i])
	}
	wg.Wait()
	if failures != 0 {
		t.Errorf("%d verifications of correctly signed, untouched data failed while other verifications ran", failures)
	}
}
