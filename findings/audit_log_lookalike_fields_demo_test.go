package logging

// Demonstration (C20): an honest, unmodified log must verify whatever the field names and values are.
// Needs the helpers of audit_log_demo_test.go (demoWriteLog, demoVerify) in the same package.
// Place both in logging/ ; run: go test -run TestDemoHonestLogWithLookAlikeFieldNames ./logging/

import (
	"testing"

	"github.com/sirupsen/logrus"
)

func TestDemoHonestLogWithLookAlikeFieldNames(t *testing.T) {
	cases := []struct {
		name   string
		fields logrus.Fields
	}{
		{"field named integrity", logrus.Fields{"integrity": "00ff"}},
		{"field chain=new", logrus.Fields{"chain": "new"}},
		{"field chain=end", logrus.Fields{"chain": "end"}},
		{"field named integrity holding a number", logrus.Fields{"integrity": 7}},
	}
	for _, format := range []string{PlaintextFormatString, CefFormatString, JSONFormatString} {
		for _, c := range cases {
			msgs := []string{"start", "the entry with the field", "after", EndOfAuditLogChainMessage}
			fields := []logrus.Fields{nil, c.fields, nil, nil}
			file := demoWriteLog(t, format, msgs, fields)
			if err := demoVerify(t, format, file); err != nil {
				t.Errorf("%s, %s: honest log does not verify: %v", format, c.name, err)
			}
		}
	}
}
