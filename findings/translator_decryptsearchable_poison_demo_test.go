package grpc_api

import (
	"context"
	"testing"

	translatorCommon "github.com/cossacklabs/acra/cmd/acra-translator/common"
	"github.com/cossacklabs/acra/keystore"
	"github.com/cossacklabs/acra/keystore/mocks"
	"github.com/cossacklabs/acra/poison"
	"github.com/stretchr/testify/mock"
)

// C15 demo: a poison record sent to DecryptSearchable raises the alarm like it does for every other decrypt operation.
func TestDemoPoisonRecordInDecryptSearchable(t *testing.T) {
	poisonSymKey, _ := keystore.GenerateSymmetricKey()
	someSymKey, _ := keystore.GenerateSymmetricKey()
	keyStorage := &mocks.ServerKeyStore{}
	keyStorage.On("GetPoisonSymmetricKeys").Return(func() [][]byte { return [][]byte{append([]byte{}, poisonSymKey...)} }, nil)
	keyStorage.On("GetPoisonSymmetricKey").Return(func() []byte { return append([]byte{}, poisonSymKey...) }, nil)
	keyStorage.On("GetPoisonPrivateKeys").Return(nil, keystore.ErrKeysNotFound)
	keyStorage.On("GetHMACSecretKey", mock.Anything).Return(func([]byte) []byte { return []byte("hmac key") }, nil)
	keyStorage.On("GetClientIDSymmetricKeys", mock.Anything).Return(func([]byte) [][]byte { return [][]byte{append([]byte{}, someSymKey...)} }, nil)
	callbackStorage := poison.NewCallbackStorage()
	callback := &testPoisonCallback{}
	callbackStorage.AddCallback(callback)
	translatorData := &translatorCommon.TranslatorData{PoisonRecordCallbacks: callbackStorage, Keystorage: keyStorage}
	impl, err := translatorCommon.NewTranslatorService(translatorData)
	if err != nil {
		t.Fatal(err)
	}
	service, _ := NewTranslatorService(impl, translatorData)
	poisonRecord, err := poison.CreateSymmetricPoisonRecord(&poisonKeyStorageAndGeneratorStub{keyStorage}, 100)
	if err != nil {
		t.Fatal(err)
	}
	_, err = service.DecryptSearchable(context.Background(), &SearchableDecryptionRequest{ClientId: []byte("client"), Data: poisonRecord})
	if err == nil {
		t.Fatal("expected an error")
	}
	if !callback.called {
		t.Fatal("poison record passed to DecryptSearchable did not trigger the intrusion callback")
	}
}
