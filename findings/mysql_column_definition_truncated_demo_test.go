package mysql

import "testing"

// C14 demo: a truncated / malformed column definition packet from the database must be rejected, not indexed.
func TestDemoTruncatedColumnDefinition(t *testing.T) {
	cases := map[string][]byte{
		"no fixed tail":        {3, 'd', 'e', 'f', 0, 0, 0, 0, 0},
		"tail cut after 0x0c":  {3, 'd', 'e', 'f', 0, 0, 0, 0, 0, 0x0c, 1},
		"huge default length":  append([]byte{3, 'd', 'e', 'f', 0, 0, 0, 0, 0, 0x0c, 1, 0, 2, 0, 0, 0, 3, 0, 0, 0, 0, 0}, 0xfe, 0xff, 0xff, 0xff, 0xff, 0xff, 0xff, 0xff, 0xff, 1),
	}
	for name, data := range cases {
		func() {
			defer func() {
				if r := recover(); r != nil {
					t.Errorf("%s: panic: %v", name, r)
				}
			}()
			if _, err := ParseResultField(&Packet{data: data}, false); err == nil {
				t.Errorf("%s: accepted", name)
			}
		}()
	}
	func() {
		defer func() {
			if r := recover(); r != nil {
				t.Errorf("mariadb ext cut: panic: %v", r)
			}
		}()
		if _, err := ParseResultField(&Packet{data: []byte{3, 'd', 'e', 'f', 0, 0, 0, 0, 0}}, true); err == nil {
			t.Errorf("mariadb ext cut: accepted")
		}
	}()
}
