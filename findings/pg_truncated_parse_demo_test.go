package postgresql

import "testing"

// A Parse message cut short by the client must be refused, not crash the handler.
func TestDemoTruncatedParseMessage(t *testing.T) {
	for _, data := range [][]byte{
		[]byte("s1\x00select 1\x00"),             // no parameter count
		[]byte("s1\x00select 1\x00\x00"),         // half a parameter count
		[]byte("s1\x00select 1\x00\x00\x05\x00"), // five parameter types announced, one byte present
		[]byte("\x00\x00\x7f\xff\x00\x00\x00\x17"),
	} {
		func() {
			defer func() {
				if r := recover(); r != nil {
					t.Errorf("Parse payload %q: %v", data, r)
				}
			}()
			NewParsePacket(data)
		}()
	}
}
