package sqlparser

// Demonstration (C16): a DDL statement that is only partially parsed (syntax error after the part the grammar needs)
// was written to the log as is, with its literals.
// Place in sqlparser/ ; run: go test -run TestDemoPartialDDLLogsStatement ./sqlparser/

import (
	"bytes"
	"strings"
	"testing"

	"github.com/sirupsen/logrus"
)

func TestDemoPartialDDLLogsStatement(t *testing.T) {
	var buf bytes.Buffer
	old := logrus.StandardLogger().Out
	logrus.SetOutput(&buf)
	defer logrus.SetOutput(old)
	q := "create table t (a varchar(10) default 'SECRET-LITERAL' bogus bogus"
	_, _, st, err := New(ModeDefault).HandleRawSQLQuery(q)
	if _, isDDL := st.(*DDL); !isDDL || err != nil {
		t.Fatalf("expected a partially parsed DDL, got %T %v", st, err)
	}
	if strings.Contains(buf.String(), "SECRET-LITERAL") {
		t.Errorf("the log contains the literal of the statement: %s", buf.String())
	}
}
