package postgresql

// Demonstration (C04/C14): a prepared UPDATE/INSERT that gives an encrypted column a literal and uses a placeholder
// elsewhere ("UPDATE users SET email='x' WHERE id=$1"), or an INSERT bound with fewer values than its placeholders,
// makes the Bind handler index the bound values with -1 / past the end: the connection handler panics.
// Place in encryptor/postgresql/ ; run: go test -run TestDemoBindPlaceholderIndex ./encryptor/postgresql/

import (
	"context"
	"net"
	"testing"

	"github.com/cossacklabs/acra/decryptor/base"
	"github.com/cossacklabs/acra/encryptor/base/config"
	pg_query "github.com/cossacklabs/pg_query_go/v5"
)

type demoSession struct{ data map[string]interface{} }

func (s *demoSession) Context() context.Context     { return context.Background() }
func (s *demoSession) ClientConnection() net.Conn   { return nil }
func (s *demoSession) DatabaseConnection() net.Conn { return nil }
func (s *demoSession) ProtocolState() interface{}   { return nil }
func (s *demoSession) SetProtocolState(interface{}) {}
func (s *demoSession) GetData(k string) (interface{}, bool) {
	v, ok := s.data[k]
	return v, ok
}
func (s *demoSession) SetData(k string, v interface{}) { s.data[k] = v }
func (s *demoSession) DeleteData(k string)             { delete(s.data, k) }
func (s *demoSession) HasData(k string) bool           { _, ok := s.data[k]; return ok }

type demoBoundValue struct{ data []byte }

func (v *demoBoundValue) Format() base.BoundValueFormat { return base.TextFormat }
func (v *demoBoundValue) Copy() base.BoundValue         { return &demoBoundValue{append([]byte{}, v.data...)} }
func (v *demoBoundValue) SetData(d []byte, _ config.ColumnEncryptionSetting) error {
	v.data = d
	return nil
}
func (v *demoBoundValue) GetData(config.ColumnEncryptionSetting) ([]byte, error) { return v.data, nil }
func (v *demoBoundValue) Encode() ([]byte, error)                                { return v.data, nil }
func (v *demoBoundValue) GetType() byte                                          { return 0 }

func TestDemoBindPlaceholderIndex(t *testing.T) {
	schemaStore, err := config.MapTableSchemaStoreFromConfig([]byte(`schemas:
 - table: users
   columns:
     - id
     - email
   encrypted:
     - column: email`), config.UsePostgreSQL)
	if err != nil {
		t.Fatal(err)
	}
	enc, err := NewQueryEncryptor(schemaStore, &testEncryptor{value: []byte("encrypted")})
	if err != nil {
		t.Fatal(err)
	}
	ctx := base.SetAccessContextToContext(context.Background(), base.NewAccessContext(base.WithClientID([]byte("client"))))
	clientSession := &demoSession{data: map[string]interface{}{}}
	ctx = base.SetClientSessionToContext(ctx, clientSession)
	for _, tc := range []struct {
		query  string
		values []base.BoundValue
	}{
		{"UPDATE users SET email = 'literal@example.com' WHERE id = $1", []base.BoundValue{&demoBoundValue{data: []byte("1")}}},
		{"INSERT INTO users (id, email) VALUES ($1, 'literal@example.com')", []base.BoundValue{&demoBoundValue{data: []byte("1")}}},
		{"INSERT INTO users (id, email) VALUES ($1, $2)", []base.BoundValue{&demoBoundValue{data: []byte("1")}}},
	} {
		func() {
			defer func() {
				if r := recover(); r != nil {
					t.Errorf("%s with %d bound value(s): the Bind handler panicked: %v", tc.query, len(tc.values), r)
				}
			}()
			parsed, err := pg_query.Parse(tc.query)
			if err != nil {
				t.Fatal(err)
			}
			enc.OnBind(ctx, parsed, tc.values)
		}()
	}
}
