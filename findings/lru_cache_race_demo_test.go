package lru

import (
	"bytes"
	"fmt"
	"sync"
	"testing"
)

// Many connections share one cache. Concurrent readers must not race (run with -race), and a value a reader
// received must stay intact while it is being used, even if the entry is evicted meanwhile.
func TestDemoConcurrentReadersDoNotRace(t *testing.T) {
	cache, _ := NewCacheKeystoreWrapper(4)
	for i := 0; i < 4; i++ {
		cache.Add(fmt.Sprint("k", i), []byte{byte(i), 1, 2, 3})
	}
	var wg sync.WaitGroup
	for g := 0; g < 8; g++ {
		wg.Add(1)
		go func(g int) {
			defer wg.Done()
			for i := 0; i < 2000; i++ {
				cache.Get(fmt.Sprint("k", (g+i)%4))
			}
		}(g)
	}
	wg.Wait()
}

func TestDemoValueSurvivesEviction(t *testing.T) {
	cache, _ := NewCacheKeystoreWrapper(1)
	cache.Add("a", []byte{9, 9, 9, 9})
	got, ok := cache.Get("a")
	if !ok {
		t.Fatal("not cached")
	}
	cache.Add("b", []byte{1}) // evicts "a" while the reader still holds its value
	if !bytes.Equal(got, []byte{9, 9, 9, 9}) {
		t.Errorf("value handed to a reader was wiped under it by the eviction of its entry: %v", got)
	}
}

// A key a caller stored (and keeps using) must not be wiped under it when the cache evicts the entry.
func TestDemoStoredValueIsNotTheCallersSlice(t *testing.T) {
	cache, _ := NewCacheKeystoreWrapper(1)
	mine := []byte{7, 7, 7, 7}
	cache.Add("a", mine)
	cache.Add("b", []byte{1}) // evicts "a"
	if !bytes.Equal(mine, []byte{7, 7, 7, 7}) {
		t.Errorf("the caller's own key buffer was wiped by the eviction of the cache entry made from it: %v", mine)
	}
}
