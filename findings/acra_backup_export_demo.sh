#!/bin/sh
# Demonstrates (on a tree before /repo commit "fix: acra-backup export wrote the wiped access key ...") that
# `acra-backup --action=export` writes 32 zero bytes instead of the encrypted backup.
# usage: acra_backup_export_demo.sh <acra tree>   (uses the pure-Go themis stand-in, see tools/restore-fake-themis.sh)
T=${1:-/repo}
D=$(mktemp -d /tmp/bk.XXXX); trap 'rm -rf $D' EXIT
export ACRA_MASTER_KEY=$(head -c 32 /dev/urandom | base64)
/opt/gothemis-fake/acra-go.sh $T build -o $D/acra-keys ./cmd/acra-keys || exit 2
/opt/gothemis-fake/acra-go.sh $T build -o $D/acra-backup ./cmd/acra-backup || exit 2
mkdir $D/k && chmod 700 $D/k
$D/acra-keys generate --keystore=v1 --keys_dir=$D/k --client_id=client1 --client_storage_symmetric_key >/dev/null 2>&1
$D/acra-backup --action=export --keys_private_dir=$D/k --file=$D/backup.dat >/dev/null 2>&1
if [ "$(xxd -p $D/backup.dat | tr -d '\n' | sed 's/0//g')" = "" ]; then echo "FAIL: backup file is $(wc -c < $D/backup.dat) zero bytes"; exit 1; fi
echo "ok: backup file holds $(wc -c < $D/backup.dat) bytes of encrypted data"
