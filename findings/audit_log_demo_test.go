package logging

import (
	"os"
	"path/filepath"
	"strings"
	"testing"
	"time"

	"github.com/sirupsen/logrus"
)

func demoWriteLog(t *testing.T, format string, messages []string, fields []logrus.Fields) string {
	hooks, err := NewHooks(auditLogKey, format)
	if err != nil {
		t.Fatal(err)
	}
	formatter := CreateCryptoFormatter(format)
	formatter.SetServiceName("svc")
	formatter.SetHooks(hooks)
	var out []byte
	for i, m := range messages {
		e := logrus.NewEntry(logrus.New())
		e.Time = time.Unix(1600000000+int64(i), 0)
		e.Level = logrus.InfoLevel
		e.Message = m
		if fields != nil && fields[i] != nil {
			e.Data = fields[i]
		}
		b, err := formatter.Format(e)
		if err != nil {
			t.Fatal(err)
		}
		out = append(out, b...)
	}
	name := filepath.Join(t.TempDir(), "audit.log")
	if err := os.WriteFile(name, out, 0600); err != nil {
		t.Fatal(err)
	}
	return name
}

func demoVerify(t *testing.T, format, file string) error {
	parser, err := NewLogParser(format)
	if err != nil {
		t.Fatal(err)
	}
	v, err := NewIntegrityCheckVerifier(auditLogKey, parser)
	if err != nil {
		t.Fatal(err)
	}
	_, err = v.VerifyIntegrityCheck(ReadLogEntries([]string{file}, false, false))
	return err
}

// An honest log verifies whatever the messages contain.
func TestDemoHonestLogWithLookAlikeFieldVerifies(t *testing.T) {
	for _, format := range []string{PlaintextFormatString, CefFormatString, JSONFormatString} {
		msgs := []string{"start", "client sent: select 1 where note = 'x integrity=00ff'", "after", EndOfAuditLogChainMessage}
		file := demoWriteLog(t, format, msgs, nil)
		if err := demoVerify(t, format, file); err != nil {
			t.Errorf("%s: honest log does not verify: %v", format, err)
		}
	}
}

// Altering an entry that comes after a very long line must still be detected.
func TestDemoAlterationAfterLongLineIsDetected(t *testing.T) {
	for _, format := range []string{PlaintextFormatString, CefFormatString, JSONFormatString} {
		msgs := []string{"start", "payment accepted amount 100", "after", EndOfAuditLogChainMessage}
		file := demoWriteLog(t, format, msgs, nil)
		data, _ := os.ReadFile(file)
		lines := strings.SplitAfter(string(data), "\n")
		// the attacker inserts one long unprotected line and then rewrites a protected entry
		altered := lines[0] + strings.Repeat("A", 70000) + "\n" + strings.Replace(lines[1], "amount 100", "amount 900", 1) + strings.Join(lines[2:], "")
		if err := os.WriteFile(file, []byte(altered), 0600); err != nil {
			t.Fatal(err)
		}
		if err := demoVerify(t, format, file); err == nil {
			t.Errorf("%s: log with an altered entry after a 70000-byte line verifies", format)
		}
	}
}
