package backend

import (
	"os"
	"path/filepath"
	"testing"
)

// C07 demo: no keystore operation reads or writes outside the keystore root, whatever key path it is given.
func TestDemoDirectoryBackendStaysInsideRoot(t *testing.T) {
	parent := t.TempDir()
	root := filepath.Join(parent, "keystore")
	b, err := CreateDirectoryBackend(root)
	if err != nil {
		t.Fatal(err)
	}
	defer b.Close()
	for _, p := range []string{"../escaped", "a/../../escaped2", "../keystore-sibling/x"} {
		err := b.Put(p, []byte("secret"))
		if err == nil {
			t.Errorf("Put(%q) accepted", p)
		}
	}
	entries, _ := os.ReadDir(parent)
	for _, e := range entries {
		if e.Name() != "keystore" {
			t.Errorf("file created outside the keystore root: %s", e.Name())
		}
	}
}
