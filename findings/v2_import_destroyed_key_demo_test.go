package filesystem

import (
	"bytes"
	"testing"
	"time"

	keystoreV1 "github.com/cossacklabs/acra/keystore"
	"github.com/cossacklabs/acra/keystore/v2/keystore/api"
)

// A keystore whose ring holds a destroyed rotated key must still export and import: the surviving keys
// arrive with identical values, the destroyed one stays destroyed.
func TestDemoExportImportRingWithDestroyedKey(t *testing.T) {
	src := newInMemoryKeyStore(t)
	ring, err := src.OpenKeyRingRW("client/alice/storage-sym")
	if err != nil {
		t.Fatal(err)
	}
	var seq []int
	for i := 0; i < 3; i++ {
		n, err := ring.AddKey(api.KeyDescription{ValidSince: time.Now(), ValidUntil: time.Now().Add(time.Hour),
			Data: []api.KeyData{{Format: api.ThemisSymmetricKeyFormat, SymmetricKey: []byte{byte('a' + i), 1, 2, 3}}}})
		if err != nil {
			t.Fatal(err)
		}
		seq = append(seq, n)
	}
	if err := ring.SetCurrent(seq[2]); err != nil {
		t.Fatal(err)
	}
	if err := ring.DestroyKey(seq[0]); err != nil {
		t.Fatal(err)
	}
	suite := testKeyStoreSuite(t)
	bundle, err := src.ExportKeyRings([]string{"client/alice/storage-sym"}, suite, keystoreV1.ExportPrivateKeys)
	if err != nil {
		t.Fatalf("export: %v", err)
	}
	dst := newInMemoryKeyStore(t)
	if _, err := dst.ImportKeyRings(bundle, suite, nil); err != nil {
		t.Fatalf("import of a ring that contains a destroyed key: %v", err)
	}
	ring2, err := dst.OpenKeyRing("client/alice/storage-sym")
	if err != nil {
		t.Fatal(err)
	}
	for i := 1; i < 3; i++ {
		k, err := ring2.SymmetricKey(seq[i], api.ThemisSymmetricKeyFormat)
		if err != nil || !bytes.Equal(k, []byte{byte('a' + i), 1, 2, 3}) {
			t.Errorf("key %d: %v %v", seq[i], k, err)
		}
	}
	if st, _ := ring2.State(seq[0]); st != api.KeyDestroyed {
		t.Errorf("destroyed key arrived in state %v", st)
	}
}
