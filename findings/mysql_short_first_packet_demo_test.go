package mysql

import "testing"

// The first packet of the database is not always a full handshake (it can be a short ERR packet):
// reading the capability flags from it must not panic.
func TestDemoShortFirstServerPacket(t *testing.T) {
	for _, data := range [][]byte{{0xff, 0x10, 0x04, 'n', 'o'}, {10, '8', '.', '0', 0, 1, 2, 3, 4}, {10}} {
		func() {
			defer func() {
				if r := recover(); r != nil {
					t.Errorf("first packet % x: %v", data, r)
				}
			}()
			p := &Packet{header: []byte{byte(len(data)), 0, 0, 0}, data: data}
			_ = p.getServerCapabilities()
			_ = p.getExtendedMariaDBCapabilities()
		}()
	}
}
