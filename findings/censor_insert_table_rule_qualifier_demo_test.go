package acracensor

import (
	"testing"

	"github.com/cossacklabs/acra/acra-censor/handlers"
	"github.com/cossacklabs/acra/sqlparser"
)

// C05 demo: a deny rule naming a schema-qualified table applies to INSERT the same way it applies to SELECT.
func TestDemoQualifiedTableRuleAppliesToInsert(t *testing.T) {
	parser := sqlparser.New(sqlparser.ModeStrict)
	deny := handlers.NewDenyHandler(parser)
	deny.AddTables([]string{"hr.salaries"})
	censor := NewAcraCensor()
	defer censor.ReleaseAll()
	censor.AddHandler(deny)
	if err := censor.HandleQuery("select * from hr.salaries"); err == nil {
		t.Error("SELECT from the denied table was allowed")
	}
	if err := censor.HandleQuery("insert into hr.salaries (a) values (1)"); err == nil {
		t.Error("INSERT into the denied table was allowed")
	}
	if err := censor.HandleQuery("insert into public.salaries (a) values (1)"); err != nil {
		t.Error("INSERT into another schema's table was denied")
	}
}
