package keys

import (
	"bytes"
	"encoding/base64"
	"flag"
	"os"
	"path/filepath"
	"testing"

	"github.com/cossacklabs/acra/keystore"
	"github.com/cossacklabs/acra/keystore/filesystem"
	"github.com/cossacklabs/acra/keystore/keyloader"
	"github.com/cossacklabs/acra/keystore/keyloader/env_loader"
	"github.com/cossacklabs/acra/utils/args"
)

// Exporting a selected key from a v1 keystore and importing the bundle must make the same key value available.
func TestDemoSelectedExportKeepsKeyValue(t *testing.T) {
	keyloader.RegisterKeyEncryptorFabric(keyloader.KeystoreStrategyEnvMasterKey, env_loader.NewEnvKeyEncryptorFabric(keystore.AcraMasterKeyVarName))
	masterKey, err := keystore.GenerateSymmetricKey()
	if err != nil {
		t.Fatal(err)
	}
	flagSet := flag.NewFlagSet(CmdExportKeys, flag.ContinueOnError)
	keyloader.RegisterCLIParametersWithFlagSet(flagSet, "", "")
	if err = flagSet.Set("keystore_encryption_type", keyloader.KeystoreStrategyEnvMasterKey); err != nil {
		t.Fatal(err)
	}
	extractor := args.NewServiceExtractor(flagSet, map[string]string{})
	t.Setenv(keystore.AcraMasterKeyVarName, base64.StdEncoding.EncodeToString(masterKey))
	keyStoreEncryptor, err := keyloader.CreateKeyEncryptor(extractor, "")
	if err != nil {
		t.Fatal("Can't init keystore KeyEncryptor")
	}
	clientID := []byte("testclientid")
	for _, kind := range []string{keystore.KeySearch, keystore.KeySymmetric} {
		exportDirName := t.TempDir()
		os.Chmod(exportDirName, 0700)
		importDirName := t.TempDir()
		os.Chmod(importDirName, 0700)
		exportCMD := &ExportKeysSubcommand{
			CommonKeyStoreParameters:     CommonKeyStoreParameters{keyDir: exportDirName},
			CommonExportImportParameters: CommonExportImportParameters{exportKeysFile: filepath.Join(exportDirName, "access-keys.txt"), exportDataFile: filepath.Join(exportDirName, "keys.dat")},
			exportIDs:                    []keystore.ExportID{{KeyKind: kind, ContextID: clientID}},
			FlagSet:                      flagSet, extractor: extractor, exportPrivate: true,
		}
		store, err := openKeyStoreV1(exportCMD)
		if err != nil {
			t.Fatal(err)
		}
		exportBackuper, err := filesystem.NewKeyBackuper(exportDirName, exportDirName, &filesystem.DummyStorage{}, keyStoreEncryptor, store)
		if err != nil {
			t.Fatal(err)
		}
		exportCMD.exporter = exportBackuper
		var original []byte
		if kind == keystore.KeySearch {
			if err = store.GenerateHmacKey(clientID); err != nil {
				t.Fatal(err)
			}
			original, err = store.GetHMACSecretKey(clientID)
		} else {
			if err = store.GenerateClientIDSymmetricKey(clientID); err != nil {
				t.Fatal(err)
			}
			original, err = store.GetClientIDSymmetricKey(clientID)
		}
		if err != nil {
			t.Fatal(err)
		}
		ExportKeysCommand(exportCMD)
		importBackuper, err := filesystem.NewKeyBackuper(importDirName, importDirName, &filesystem.DummyStorage{}, keyStoreEncryptor, nil)
		if err != nil {
			t.Fatal(err)
		}
		importCMD := &ImportKeysSubcommand{
			CommonKeyStoreParameters:     CommonKeyStoreParameters{keyDir: importDirName},
			CommonExportImportParameters: CommonExportImportParameters{exportKeysFile: filepath.Join(exportDirName, "access-keys.txt"), exportDataFile: filepath.Join(exportDirName, "keys.dat")},
			FlagSet:                      flagSet, extractor: extractor, importer: importBackuper,
		}
		ImportKeysCommand(importCMD)
		importKeyStore, err := openKeyStoreV1(importCMD)
		if err != nil {
			t.Fatal(err)
		}
		var imported []byte
		if kind == keystore.KeySearch {
			imported, err = importKeyStore.GetHMACSecretKey(clientID)
		} else {
			imported, err = importKeyStore.GetClientIDSymmetricKey(clientID)
		}
		if err != nil {
			t.Fatal(err)
		}
		if !bytes.Equal(original, imported) {
			t.Errorf("%s key: imported value differs from the exported one (imported all zero: %v)", kind, bytes.Equal(imported, make([]byte, len(imported))))
		}
	}
}
